#![feature(allocator_api)]
#![feature(nonzero_internals)]
use vstd::prelude::*;
use std::num::NonZeroU64;
use std::cmp::Ordering;
use std::convert::identity;
use vstd::std_specs::ops::*;
use vstd::std_specs::cmp::*;
verus! {
global size_of usize == 8;

// ================= floats: operations are uninterpreted but DETERMINISTIC functions of their operands =================
// Rust float arithmetic never traps (vstd gives + - * / an open precondition)
#[verifier::external_body] pub proof fn axiom_float_total()
  ensures forall|a: f64, b: f64| #[trigger] AddSpec::add_req(a, b), forall|a: f64, b: f64| #[trigger] SubSpec::sub_req(a, b),
          forall|a: f64, b: f64| #[trigger] MulSpec::mul_req(a, b), forall|a: f64, b: f64| #[trigger] DivSpec::div_req(a, b) {}
// the same fact for one pair of operands (Verus attaches no type invariant to an f64 FIELD of a struct without primitive-integer fields,
// so the quantified form above does not fire on `c.mean`)
#[verifier::external_body] pub proof fn axiom_float_total_at(a: f64, b: f64)
  ensures AddSpec::add_req(a, b), SubSpec::sub_req(a, b), MulSpec::mul_req(a, b), DivSpec::div_req(a, b),
          AddSpec::add_req(b, a), SubSpec::sub_req(b, a), MulSpec::mul_req(b, a), DivSpec::div_req(b, a) {}
// f64 comparison operators are functions of their operands
#[verifier::external_body] proof fn axiom_f64_cmp_deterministic() ensures <f64 as PartialOrdSpec>::obeys_partial_cmp_spec() {}
// f64 + - * / == are functions of their operands (the exec operator returns the spec-level operation symbol)
#[verifier::external_body] proof fn axiom_f64_ops_deterministic()
  ensures <f64 as AddSpec>::obeys_add_spec(), <f64 as SubSpec>::obeys_sub_spec(), <f64 as MulSpec>::obeys_mul_spec(), <f64 as DivSpec>::obeys_div_spec(),
          <f64 as PartialOrdSpec>::obeys_partial_cmp_spec(), <f64 as PartialEqSpec>::obeys_eq_spec() {}
pub uninterp spec fn f_is_nan(x: f64) -> bool;
pub uninterp spec fn f_is_inf(x: f64) -> bool;
spec fn f_lt(a: f64, b: f64) -> bool { a.partial_cmp_spec(&b) == Some(Ordering::Less) }
spec fn f_gt(a: f64, b: f64) -> bool { a.partial_cmp_spec(&b) == Some(Ordering::Greater) }
// (the `matches` form is the one vstd uses for `<=` / `>=`; it needs no type invariant on the operands)
spec fn f_le(a: f64, b: f64) -> bool { a.partial_cmp_spec(&b) matches Some(Ordering::Less | Ordering::Equal) }
spec fn f_ge(a: f64, b: f64) -> bool { a.partial_cmp_spec(&b) matches Some(Ordering::Greater | Ordering::Equal) }
spec fn f_eq(a: f64, b: f64) -> bool { a.eq_spec(&b) }
spec fn fadd(a: f64, b: f64) -> f64 { a.add_spec(b) }
spec fn fsub(a: f64, b: f64) -> f64 { a.sub_spec(b) }
spec fn fmul(a: f64, b: f64) -> f64 { a.mul_spec(b) }
spec fn fdiv(a: f64, b: f64) -> f64 { a.div_spec(b) }
// `x as f64` for x: u64 (round to nearest): a function of x
pub uninterp spec fn u2f(x: u64) -> f64;
#[verifier::external_body] fn vx_u64_as_f64(x: u64) -> (r: f64) ensures r == u2f(x) { x as f64 }
pub open spec fn f_finite(x: f64) -> bool { !f_is_nan(x) && !f_is_inf(x) }
// IEEE: a comparison with a NaN operand is false
#[verifier::external_body] proof fn axiom_lt_not_nan(a: f64, b: f64) requires f_lt(a, b) ensures !f_is_nan(a), !f_is_nan(b) {}
// ORDER axioms of IEEE comparison (each discharged by a complete Kani harness over all pairs / triples of f64, kani/shims_td_float.rs)
// antisymmetry: a < b  <=>  b > a ;  a == b  <=>  b == a
#[verifier::external_body] proof fn axiom_f64_cmp_flip(a: f64, b: f64)
  ensures f_lt(a, b) <==> f_gt(b, a), (a.partial_cmp_spec(&b) == Some(Ordering::Equal)) <==> (b.partial_cmp_spec(&a) == Some(Ordering::Equal)) {}
// transitivity
#[verifier::external_body] proof fn axiom_f64_le_lt_trans(a: f64, b: f64, c: f64) requires f_le(a, b), f_lt(b, c) ensures f_lt(a, c) {}
#[verifier::external_body] proof fn axiom_f64_lt_le_trans(a: f64, b: f64, c: f64) requires f_lt(a, b), f_le(b, c) ensures f_lt(a, c) {}
#[verifier::external_body] proof fn axiom_f64_le_trans(a: f64, b: f64, c: f64) requires f_le(a, b), f_le(b, c) ensures f_le(a, c) {}
// totality on non-NaN operands: partial_cmp is None exactly when an operand is NaN
#[verifier::external_body] proof fn axiom_f64_cmp_total(a: f64, b: f64) ensures (a.partial_cmp_spec(&b) is None) <==> (f_is_nan(a) || f_is_nan(b)) {}
#[verifier::external_body] proof fn axiom_f64_le_refl(a: f64) requires !f_is_nan(a) ensures f_le(a, a) {}
// f64::min / f64::max bracket their non-NaN operands
#[verifier::external_body] proof fn axiom_f64_min_max(a: f64, b: f64)
  ensures !f_is_nan(a) ==> f_le(f_min(a, b), a) && f_le(a, f_max(a, b)), !f_is_nan(b) ==> f_le(f_min(a, b), b) && f_le(b, f_max(a, b)) {}
// f64::max is the least upper bound of its operands in the IEEE order (Kani: td_ax_max_lub, every triple)
#[verifier::external_body] proof fn axiom_f64_max_lub(a: f64, b: f64, c: f64) requires f_le(a, c), f_le(b, c) ensures f_le(f_max(a, b), c) {}
pub assume_specification [ f64::is_nan ] (x: f64) -> (r: bool) ensures r == f_is_nan(x);
pub assume_specification [ f64::is_infinite ] (x: f64) -> (r: bool) ensures r == f_is_inf(x);
// min / max are functions of their operands (uninterpreted): enough to pin WHICH values the extremes are refreshed from
pub uninterp spec fn f_min(a: f64, b: f64) -> f64;
pub uninterp spec fn f_max(a: f64, b: f64) -> f64;
pub assume_specification [ f64::min ] (a: f64, b: f64) -> (r: f64) ensures r == f_min(a, b);
pub assume_specification [ f64::max ] (a: f64, b: f64) -> (r: f64) ensures r == f_max(a, b);

// `(0.0..=1.0).contains(&rank)`: the documented argument range of quantile (floats stay uninterpreted)
pub uninterp spec fn f_in_unit(x: f64) -> bool;
#[verifier::external_body] fn vx_in_unit_interval(rank: &f64) -> (r: bool) ensures r == f_in_unit(*rank) { (0.0..=1.0).contains(rank) }
// R12b: a DOCUMENTED panic (argument validation promised by the API docs: "# Panics" of new / rank / quantile / cdf / pmf) is modelled as
// 'returns only if the condition holds': the condition is a tagged POSTCONDITION (`*_validated`) instead of a precondition, so weakening
// or removing the check is noticed.  The bodies are the original statements.
#[verifier::external_body] fn vx_documented_panic(c: bool) ensures c { assert!(c); }
#[verifier::external_body] fn vx_documented_unreachable() ensures false { panic!() }
// what check_split_points validates (documented for cdf / pmf): not a single NaN, strictly increasing (which excludes NaN for len >= 2)
spec fn sp_valid(s: Seq<f64>) -> bool {
    (s.len() == 1 ==> !f_is_nan(s[0])) && (forall|i: int| 0 <= i < s.len() - 1 ==> f_lt(#[trigger] s[i], s[i + 1]))
}
#[verifier::external_body] fn vx_f64_infinity() -> f64 { f64::INFINITY }
#[verifier::external_body] fn vx_f64_neg_infinity() -> f64 { f64::NEG_INFINITY }
#[verifier::external_body] fn vx_f64_epsilon() -> f64 { f64::EPSILON }
// error.rs: only the fact that an error value is built
struct Error { k: u8 }
impl Error {
    #[verifier::external_body] fn invalid_argument(msg: impl Into<String>) -> Error { Error { k: 1 } }
}

// ================= std leaves =================
// `buffer.sort_by(centroid_cmp)` (the body is the original statement): a permutation, ascending by mean; centroid_cmp is unreachable!() on NaN
#[verifier::external_body] fn vx_sort_by_centroid_cmp(b: &mut Vec<Centroid>)
  requires means_finite(old(b)@)
  ensures final(b)@.len() == old(b)@.len(), final(b)@.to_multiset() == old(b)@.to_multiset(), means_sorted(final(b)@)
{ b.sort_by(centroid_cmp) }
pub assume_specification<T> [ <[T]>::reverse ] (s: &mut [T])
  ensures final(s)@ == old(s)@.reverse();
// R14: `X.extend(std::mem::take(&mut Y))`
#[verifier::external_body] fn vx_extend_take(b: &mut Vec<Centroid>, c: &mut Vec<Centroid>)
  ensures final(b)@ == old(b)@ + old(c)@, final(c)@ == Seq::<Centroid>::empty()
{ b.extend(std::mem::take(c)) }
// a Vec<Centroid> (16-byte elements) cannot be longer than isize::MAX / 16
#[verifier::external_body] proof fn axiom_centroid_vec_len(v: &Vec<Centroid>) ensures v@.len() <= 0x7ff_ffff_ffff_ffff {}

// a [f64] cannot be longer than isize::MAX / 8
#[verifier::external_body] proof fn axiom_f64_slice_len(s: &[f64]) ensures s@.len() <= 0xfff_ffff_ffff_ffff {}

// scale function K_2 (floats only; no contract)
#[verifier::external_body] fn normalizer(compression: f64, n: f64) -> f64 { compression / (4. * (n / compression).ln() + 24.) }
#[verifier::external_body] fn max(q: f64, normalizer: f64) -> f64 { q * (1. - q) / normalizer }

const DEFAULT_K : u16 = 200 ;





const BUFFER_MULTIPLIER : usize = 4 ;







exec const DEFAULT_WEIGHT : NonZeroU64 ensures DEFAULT_WEIGHT . get ( ) == 1 {
proof {
}
NonZeroU64 :: new ( 1 ) . unwrap ( ) }








#[derive(Debug, Clone, Copy, PartialEq)]
struct Centroid {
mean : f64 , weight : NonZeroU64 , }








struct TDigestMut {
k : u16 , reverse_merge : bool , min : f64 , max : f64 , centroids : Vec < Centroid > , centroids_weight : u64 , centroids_capacity : usize , buffer : Vec < f64 > , }








struct TDigest {
k : u16 , reverse_merge : bool , min : f64 , max : f64 , centroids : Vec < Centroid > , centroids_weight : u64 , }








struct TDigestView < 'a > {
min : f64 , max : f64 , centroids : & 'a [ Centroid ] , centroids_weight : u64 , }








// ================= reference t-digest interpolation (transcribed over the float operation symbols) =================
// Source: Dunning's MergingDigest.cdf / quantile as carried by datasketches-java TDigestDouble.getRank / getQuantile and datasketches-cpp
// tdigest<T>::get_rank / get_quantile, WITH the three repairs recorded in known_findings (left tail divided by the total weight, right tail
// `max - ..`, neighbour interpolation `weightedAverage(mean[i], w2, mean[i+1], w1)` as in MergingDigest).
spec fn cw(c: Centroid) -> f64 { u2f(c.weight.get()) }
// left-to-right float sum of the weights of cs[i..hi], starting from acc (the order of additions matters for floats)
spec fn fsum(cs: Seq<Centroid>, i: int, hi: int, acc: f64) -> f64 decreases hi - i {
    if i >= hi { acc } else { fsum(cs, i + 1, hi, fadd(acc, cw(cs[i]))) }
}
// std::lower_bound: first index >= k whose mean is NOT < v
spec fn pp_lt(cs: Seq<Centroid>, v: f64, k: int) -> int decreases cs.len() - k {
    if k >= cs.len() || !f_lt(cs[k].mean, v) { k } else { pp_lt(cs, v, k + 1) }
}
// std::upper_bound: first index >= k whose mean is > v
spec fn pp_gt(cs: Seq<Centroid>, v: f64, k: int) -> int decreases cs.len() - k {
    if k >= cs.len() || f_gt(cs[k].mean, v) { k } else { pp_gt(cs, v, k + 1) }
}
// Centroid::add: the merged mean, overflow-safe form (incremental update when `other - self` is finite, convex combination otherwise)
pub uninterp spec fn f_fma(a: f64, b: f64, c: f64) -> f64;
pub assume_specification [ f64::mul_add ] (a: f64, b: f64, c: f64) -> (r: f64) ensures r == f_fma(a, b, c);
pub assume_specification [ f64::is_finite ] (x: f64) -> (r: bool) ensures r == f_finite(x);
pub assume_specification [ NonZeroU64::checked_add ] (x: NonZeroU64, y: u64) -> (r: Option<NonZeroU64>)
  ensures x.get() + y <= u64::MAX ==> (r matches Some(v) && v.get() == x.get() + y), x.get() + y > u64::MAX ==> r is None;
spec fn add_mean_spec(m1: f64, w1: u64, m2: f64, w2: u64) -> f64 {
    let sw = u2f(w1); let ow = u2f(w2); let tw = fadd(sw, ow); let ro = fdiv(ow, tw); let delta = fsub(m2, m1);
    if f_finite(delta) { f_fma(delta, ro, m1) } else { f_fma(m1, fdiv(sw, tw), fmul(m2, ro)) }
}
// the merged mean of two finite means is finite (this is what the overflow-safe branch is for): IEEE fact about the formula above,
// checked by a complete Kani harness on the REAL Centroid::add (kani/shims_td_float.rs: td_add_mean_finite)
#[verifier::external_body] proof fn axiom_add_mean_finite(m1: f64, w1: u64, m2: f64, w2: u64)
  requires f_finite(m1), f_finite(m2), w1 >= 1, w2 >= 1, w1 + w2 <= 0x20_0000_0000_0000
  ensures f_finite(add_mean_spec(m1, w1, m2, w2)) {}
// ... and lies between them (so merging neighbours keeps the centroid list sorted); also an IEEE fact about the formula, Kani harness td_add_mean_between
#[verifier::external_body] proof fn axiom_add_mean_between(m1: f64, w1: u64, m2: f64, w2: u64)
  requires f_finite(m1), f_finite(m2), w1 >= 1, w2 >= 1, w1 + w2 <= 0x20_0000_0000_0000
  ensures f_le(m1, m2) ==> f_le(m1, add_mean_spec(m1, w1, m2, w2)) && f_le(add_mean_spec(m1, w1, m2, w2), m2),
          f_le(m2, m1) ==> f_le(m2, add_mean_spec(m1, w1, m2, w2)) && f_le(add_mean_spec(m1, w1, m2, w2), m1) {}
// weighted average CLAMPED to [x1, x2] (datasketches-java weightedAverageSorted: `Math.max(x1, Math.min(x, x2))`; x1 <= x2 at every call site)
spec fn wavg_raw(x1: f64, w1: f64, x2: f64, w2: f64) -> f64 { fdiv(fadd(fmul(x1, w1), fmul(x2, w2)), fadd(w1, w2)) }
spec fn wavg(x1: f64, w1: f64, x2: f64, w2: f64) -> f64 { f_max(f_min(wavg_raw(x1, w1, x2, w2), x2), x1) }
spec fn f_in(lo: f64, v: f64, hi: f64) -> bool { f_le(lo, v) && f_le(v, hi) }
spec fn rank_left_tail(min: f64, cs: Seq<Centroid>, cwt: f64, v: f64) -> f64 {
    let first = cs[0].mean;
    if f_gt(fsub(first, min), 0.0f64) {
        if f_eq(v, min) { fdiv(0.5f64, cwt) }
        else { fdiv(fadd(1.0f64, fmul(fdiv(fsub(v, min), fsub(first, min)), fsub(fdiv(cw(cs[0]), 2.0f64), 1.0f64))), cwt) }
    } else { 0.0f64 }
}
spec fn rank_right_tail(max: f64, cs: Seq<Centroid>, cwt: f64, v: f64) -> f64 {
    let n = cs.len() as int; let last = cs[n - 1].mean;
    if f_gt(fsub(max, last), 0.0f64) {
        if f_eq(v, max) { fsub(1.0f64, fdiv(0.5f64, cwt)) }
        else { fsub(1.0f64, fdiv(fadd(1.0f64, fmul(fdiv(fsub(max, v), fsub(max, last)), fsub(fdiv(cw(cs[n - 1]), 2.0f64), 1.0f64))), cwt)) }
    } else { 1.0f64 }
}
spec fn rank_lower(cs: Seq<Centroid>, v: f64) -> int { let lo0 = pp_lt(cs, v, 0); if f_lt(v, cs[lo0].mean) { lo0 - 1 } else { lo0 } }
spec fn rank_upper(cs: Seq<Centroid>, v: f64) -> int { let up0 = pp_gt(cs, v, 0); if up0 == cs.len() || f_ge(cs[up0 - 1].mean, v) { up0 - 1 } else { up0 } }
spec fn rank_middle(cs: Seq<Centroid>, cwt: f64, v: f64) -> f64 {
    let lo = rank_lower(cs, v); let up = rank_upper(cs, v);
    let wb = fadd(fsum(cs, 0, lo, 0.0f64), fdiv(cw(cs[lo]), 2.0f64));
    let wd = fadd(fsub(fsum(cs, lo, up, 0.0f64), fdiv(cw(cs[lo]), 2.0f64)), fdiv(cw(cs[up]), 2.0f64));
    if f_gt(fsub(cs[up].mean, cs[lo].mean), 0.0f64) {
        fdiv(fadd(wb, fdiv(fmul(wd, fsub(v, cs[lo].mean)), fsub(cs[up].mean, cs[lo].mean))), cwt)
    } else { fdiv(fadd(wb, fdiv(wd, 2.0f64)), cwt) }
}
spec fn view_rank_spec(min: f64, max: f64, cs: Seq<Centroid>, w: u64, v: f64) -> Option<f64> {
    let n = cs.len() as int;
    if n == 0 { None }
    else if f_lt(v, min) { Some(0.0f64) }
    else if f_gt(v, max) { Some(1.0f64) }
    else if n == 1 { Some(0.5f64) }
    else if f_lt(v, cs[0].mean) { Some(rank_left_tail(min, cs, u2f(w), v)) }
    else if f_gt(v, cs[n - 1].mean) { Some(rank_right_tail(max, cs, u2f(w), v)) }
    else { Some(rank_middle(cs, u2f(w), v)) }
}
// the target weight lies between centroids i and i+1
spec fn q_between(cs: Seq<Centroid>, i: int, weight: f64, wsf: f64, dw: f64) -> f64 {
    let single_l = cs[i].weight.get() == 1; let single_r = cs[i + 1].weight.get() == 1;
    if single_l && f_lt(fsub(weight, wsf), 0.5f64) { cs[i].mean }
    else if single_r && f_le(fsub(fadd(wsf, dw), weight), 0.5f64) { cs[i + 1].mean }
    else {
        let lw = if single_l { 0.5f64 } else { 0.0f64 }; let rw = if single_r { 0.5f64 } else { 0.0f64 };
        let w1 = fsub(fsub(weight, wsf), lw);
        let w2 = fsub(fsub(fadd(wsf, dw), weight), rw);
        wavg(cs[i].mean, w2, cs[i + 1].mean, w1)
    }
}
spec fn q_walk(max: f64, cs: Seq<Centroid>, cwt: f64, weight: f64, i: int, wsf: f64) -> f64 decreases cs.len() - i {
    let n = cs.len() as int;
    if i >= n - 1 {
        let w1 = fsub(fsub(weight, cwt), fdiv(cw(cs[n - 1]), 2.0f64));
        let w2 = fsub(fdiv(cw(cs[n - 1]), 2.0f64), w1);
        wavg(cs[n - 1].mean, w1, max, w2)
    } else {
        let dw = fdiv(fadd(cw(cs[i]), cw(cs[i + 1])), 2.0f64);
        if f_gt(fadd(wsf, dw), weight) { q_between(cs, i, weight, wsf, dw) } else { q_walk(max, cs, cwt, weight, i + 1, fadd(wsf, dw)) }
    }
}
spec fn view_quantile_spec(min: f64, max: f64, cs: Seq<Centroid>, w: u64, q: f64) -> Option<f64> {
    let n = cs.len() as int; let cwt = u2f(w); let weight = fmul(q, cwt);
    if n == 0 { None }
    else if n == 1 { Some(cs[0].mean) }
    else if f_lt(weight, 1.0f64) { Some(min) }
    else if f_gt(weight, fsub(cwt, 1.0f64)) { Some(max) }
    else {
        let fw = cw(cs[0]); let lw = cw(cs[n - 1]);
        if f_gt(fw, 1.0f64) && f_lt(weight, fdiv(fw, 2.0f64)) {
            Some(fadd(min, fmul(fdiv(fsub(weight, 1.0f64), fsub(fdiv(fw, 2.0f64), 1.0f64)), fsub(cs[0].mean, min))))
        } else if f_gt(lw, 1.0f64) && f_le(fsub(cwt, weight), fdiv(lw, 2.0f64)) {
            Some(fsub(max, fmul(fdiv(fsub(fsub(cwt, weight), 1.0f64), fsub(fdiv(lw, 2.0f64), 1.0f64)), fsub(max, cs[n - 1].mean))))
        } else { Some(q_walk(max, cs, cwt, weight, 0, fdiv(fw, 2.0f64))) }
    }
}
// ---- invariant of a queryable view: non-empty, means sorted non-decreasing (hence NaN-free), min <= first mean, last mean <= max
// 2^53: below it every u64 weight is an exact f64 and a merged mean stays between the two means it merges
spec const W53: int = 0x20_0000_0000_0000;
spec fn ole(a: f64, b: f64, rev: bool) -> bool { if rev { f_le(b, a) } else { f_le(a, b) } }
// sorted in direction `rev` (false = non-decreasing), all pairs (i == j included: no NaN)
#[verifier::opaque] spec fn dir_sorted(cs: Seq<Centroid>, rev: bool) -> bool { forall|i: int, j: int| 0 <= i <= j < cs.len() ==> ole(#[trigger] cs[i].mean, #[trigger] cs[j].mean, rev) }
#[verifier::opaque] spec fn means_sorted(cs: Seq<Centroid>) -> bool { forall|i: int, j: int| 0 <= i <= j < cs.len() ==> f_le(#[trigger] cs[i].mean, #[trigger] cs[j].mean) }
#[verifier::opaque] spec fn means_finite(cs: Seq<Centroid>) -> bool { forall|i: int| 0 <= i < cs.len() ==> f_finite(#[trigger] cs[i].mean) }
#[verifier::opaque] spec fn values_finite(b: Seq<f64>) -> bool { forall|i: int| 0 <= i < b.len() ==> f_finite(#[trigger] b[i]) }
// min <= first mean, last mean <= max
spec fn bracket(min: f64, max: f64, cs: Seq<Centroid>) -> bool { cs.len() >= 1 ==> f_le(min, cs[0].mean) && f_le(cs[cs.len() - 1].mean, max) }
proof fn lemma_ole_trans(a: f64, b: f64, c: f64, rev: bool) requires ole(a, b, rev), ole(b, c, rev) ensures ole(a, c, rev)
{ if rev { axiom_f64_le_trans(c, b, a); } else { axiom_f64_le_trans(a, b, c); } }
proof fn lemma_sorted_dir(cs: Seq<Centroid>) ensures means_sorted(cs) <==> dir_sorted(cs, false) { reveal(means_sorted); reveal(dir_sorted); }
proof fn lemma_sorted_at(cs: Seq<Centroid>, i: int, j: int) requires means_sorted(cs), 0 <= i <= j < cs.len() ensures f_le(cs[i].mean, cs[j].mean) { reveal(means_sorted); }
proof fn lemma_dir_at(cs: Seq<Centroid>, rev: bool, i: int, j: int) requires dir_sorted(cs, rev), 0 <= i <= j < cs.len() ensures ole(cs[i].mean, cs[j].mean, rev) { reveal(dir_sorted); }
proof fn lemma_dir_single(c: Centroid, rev: bool) requires f_le(c.mean, c.mean) ensures dir_sorted(seq![c], rev) { reveal(dir_sorted); }
proof fn lemma_sorted_empty(cs: Seq<Centroid>) requires cs.len() == 0 ensures means_sorted(cs), means_finite(cs) { reveal(means_sorted); reveal(means_finite); }
proof fn lemma_values_empty(b: Seq<f64>) requires b.len() == 0 ensures values_finite(b) { reveal(values_finite); }
proof fn lemma_means_at(cs: Seq<Centroid>, i: int) requires means_finite(cs), 0 <= i < cs.len() ensures f_finite(cs[i].mean) { reveal(means_finite); }
proof fn lemma_values_at(b: Seq<f64>, i: int) requires values_finite(b), 0 <= i < b.len() ensures f_finite(b[i]) { reveal(values_finite); }
proof fn lemma_means_push(cs: Seq<Centroid>, c: Centroid) requires means_finite(cs), f_finite(c.mean) ensures means_finite(cs.push(c)) { reveal(means_finite); }
proof fn lemma_values_push(b: Seq<f64>, v: f64) requires values_finite(b), f_finite(v) ensures values_finite(b.push(v)) { reveal(values_finite); }
proof fn lemma_means_update(cs: Seq<Centroid>, i: int, c: Centroid) requires means_finite(cs), 0 <= i < cs.len(), f_finite(c.mean) ensures means_finite(cs.update(i, c)) { reveal(means_finite); }
proof fn lemma_means_append(a: Seq<Centroid>, b: Seq<Centroid>) requires means_finite(a), means_finite(b) ensures means_finite(a + b) { reveal(means_finite); }
proof fn lemma_dir_sorted_reverse(cs: Seq<Centroid>, rev: bool) requires dir_sorted(cs, rev) ensures dir_sorted(cs.reverse(), !rev)
{
    reveal(dir_sorted);
    let r = cs.reverse(); let n = cs.len() as int;
    assert forall|i: int, j: int| 0 <= i <= j < r.len() implies ole(#[trigger] r[i].mean, #[trigger] r[j].mean, !rev) by {
        assert(r[i] == cs[n - 1 - i] && r[j] == cs[n - 1 - j]);
        assert(ole(cs[n - 1 - j].mean, cs[n - 1 - i].mean, rev));
    }
}
proof fn lemma_push_sorted(cs: Seq<Centroid>, c: Centroid, rev: bool)
  requires dir_sorted(cs, rev), cs.len() >= 1, ole(cs[cs.len() - 1].mean, c.mean, rev), f_le(c.mean, c.mean)
  ensures dir_sorted(cs.push(c), rev)
{
    reveal(dir_sorted);
    let r = cs.push(c); let n = cs.len() as int;
    assert forall|i: int, j: int| 0 <= i <= j < r.len() implies ole(#[trigger] r[i].mean, #[trigger] r[j].mean, rev) by {
        if j == n && i < n { assert(ole(cs[i].mean, cs[n - 1].mean, rev)); lemma_ole_trans(cs[i].mean, cs[n - 1].mean, c.mean, rev); }
        else if j < n { assert(ole(cs[i].mean, cs[j].mean, rev)); }
    }
}
proof fn lemma_update_last_sorted(cs: Seq<Centroid>, m: Centroid, rev: bool)
  requires dir_sorted(cs, rev), cs.len() >= 1, ole(cs[cs.len() - 1].mean, m.mean, rev), f_le(m.mean, m.mean)
  ensures dir_sorted(cs.update(cs.len() - 1, m), rev)
{
    reveal(dir_sorted);
    let n = cs.len() as int; let r = cs.update(n - 1, m);
    assert forall|i: int, j: int| 0 <= i <= j < r.len() implies ole(#[trigger] r[i].mean, #[trigger] r[j].mean, rev) by {
        if j == n - 1 && i < n - 1 { assert(ole(cs[i].mean, cs[n - 1].mean, rev)); lemma_ole_trans(cs[i].mean, cs[n - 1].mean, m.mean, rev); }
        else if j < n - 1 { assert(ole(cs[i].mean, cs[j].mean, rev)); }
    }
}
// every element of a permutation satisfies what every element of the original satisfies
proof fn lemma_perm_finite(a: Seq<Centroid>, b: Seq<Centroid>)
  requires a.to_multiset() == b.to_multiset(), means_finite(b)
  ensures means_finite(a)
{
    reveal(means_finite);
    a.to_multiset_ensures(); b.to_multiset_ensures();
    assert forall|i: int| 0 <= i < a.len() implies f_finite(#[trigger] a[i].mean) by {
        assert(a.contains(a[i]));
        assert(a.to_multiset().count(a[i]) > 0);
        assert(b.contains(a[i]));
        let j = choose|j: int| 0 <= j < b.len() && b[j] == a[i];
        assert(f_finite(b[j].mean));
    }
}
proof fn lemma_finite_reverse(a: Seq<Centroid>) requires means_finite(a) ensures means_finite(a.reverse())
{
    reveal(means_finite);
    let r = a.reverse();
    assert forall|i: int| 0 <= i < r.len() implies f_finite(#[trigger] r[i].mean) by { assert(r[i] == a[a.len() - 1 - i]); }
}
proof fn lemma_finite_le_refl(x: f64) requires f_finite(x) ensures f_le(x, x) { axiom_f64_le_refl(x); }
spec fn view_wf(min: f64, max: f64, cs: Seq<Centroid>) -> bool {
    cs.len() >= 1 && means_sorted(cs) && f_le(min, cs[0].mean) && f_le(cs[cs.len() - 1].mean, max)
}
// quantile(q) is computed by one of the two TAIL formulas `min + t * (mean_0 - min)` / `max - t * (max - mean_last)` (their range needs
// arithmetic facts about rounding and is NOT decided here); every other branch returns min, max, a centroid mean or a clamped weighted average
spec fn q_in_tail(cs: Seq<Centroid>, w: u64, q: f64) -> bool {
    let n = cs.len() as int; let cwt = u2f(w); let weight = fmul(q, cwt); let fw = cw(cs[0]); let lw = cw(cs[n - 1]);
    n >= 2 && !f_lt(weight, 1.0f64) && !f_gt(weight, fsub(cwt, 1.0f64))
    && ((f_gt(fw, 1.0f64) && f_lt(weight, fdiv(fw, 2.0f64))) || (f_gt(lw, 1.0f64) && f_le(fsub(cwt, weight), fdiv(lw, 2.0f64))))
}
// order facts of a queryable view (only order axioms): every mean, min and max lie in [min, max]
proof fn lemma_view_range(min: f64, max: f64, cs: Seq<Centroid>, i: int)
  requires view_wf(min, max, cs), 0 <= i < cs.len()
  ensures f_in(min, cs[i].mean, max), f_in(min, min, max), f_in(min, max, max)
{
    let n = cs.len() as int;
    lemma_sorted_at(cs, 0, i); lemma_sorted_at(cs, i, n - 1); lemma_sorted_at(cs, 0, n - 1);
    axiom_f64_le_trans(min, cs[0].mean, cs[i].mean);
    axiom_f64_le_trans(cs[i].mean, cs[n - 1].mean, max);
    axiom_f64_le_trans(min, cs[0].mean, cs[n - 1].mean);
    axiom_f64_le_trans(min, cs[n - 1].mean, max);
    axiom_f64_cmp_total(min, cs[0].mean); axiom_f64_cmp_total(cs[n - 1].mean, max);
    axiom_f64_le_refl(min); axiom_f64_le_refl(max);
}
// a value between two neighbouring means (or between the last mean and max) lies in [min, max]
proof fn lemma_between_in_range(min: f64, max: f64, cs: Seq<Centroid>, i: int)
  requires view_wf(min, max, cs), 0 <= i, i + 1 < cs.len()
  ensures f_le(cs[i].mean, cs[i + 1].mean),
          forall|v: f64| #![trigger f_le(cs[i].mean, v)] f_le(cs[i].mean, v) && f_le(v, cs[i + 1].mean) ==> f_in(min, v, max)
{
    lemma_view_range(min, max, cs, i); lemma_view_range(min, max, cs, i + 1); lemma_sorted_at(cs, i, i + 1);
    assert forall|v: f64| #![trigger f_le(cs[i].mean, v)] f_le(cs[i].mean, v) && f_le(v, cs[i + 1].mean) implies f_in(min, v, max) by {
        axiom_f64_le_trans(min, cs[i].mean, v); axiom_f64_le_trans(v, cs[i + 1].mean, max);
    }
}
proof fn lemma_last_to_max_in_range(min: f64, max: f64, cs: Seq<Centroid>)
  requires view_wf(min, max, cs)
  ensures f_le(cs[cs.len() - 1].mean, max),
          forall|v: f64| #![trigger f_le(cs[cs.len() - 1].mean, v)] f_le(cs[cs.len() - 1].mean, v) && f_le(v, max) ==> f_in(min, v, max)
{
    let n = cs.len() as int;
    lemma_view_range(min, max, cs, n - 1);
    assert forall|v: f64| #![trigger f_le(cs[n - 1].mean, v)] f_le(cs[n - 1].mean, v) && f_le(v, max) implies f_in(min, v, max) by {
        axiom_f64_le_trans(min, cs[n - 1].mean, v);
    }
}
proof fn lemma_pp_lt(cs: Seq<Centroid>, v: f64, r: int, k: int)
  requires 0 <= k <= r <= cs.len(), forall|j: int| 0 <= j < r ==> f_lt(#[trigger] cs[j].mean, v), forall|j: int| r <= j < cs.len() ==> !f_lt(#[trigger] cs[j].mean, v)
  ensures pp_lt(cs, v, k) == r
  decreases r - k
{ if k < r { lemma_pp_lt(cs, v, r, k + 1); } }
proof fn lemma_pp_gt(cs: Seq<Centroid>, v: f64, r: int, k: int)
  requires 0 <= k <= r <= cs.len(), forall|j: int| 0 <= j < r ==> !f_gt(#[trigger] cs[j].mean, v), forall|j: int| r <= j < cs.len() ==> f_gt(#[trigger] cs[j].mean, v)
  ensures pp_gt(cs, v, k) == r
  decreases r - k
{ if k < r { lemma_pp_gt(cs, v, r, k + 1); } }
// a sorted slice is partitioned by `mean < v` and by `mean > v` (only order axioms)
proof fn lemma_sorted_partitioned(cs: Seq<Centroid>, v: f64)
  requires means_sorted(cs)
  ensures forall|i: int, j: int| 0 <= i <= j < cs.len() && f_lt(#[trigger] cs[j].mean, v) ==> f_lt(#[trigger] cs[i].mean, v),
          forall|i: int, j: int| 0 <= i <= j < cs.len() && f_gt(#[trigger] cs[i].mean, v) ==> f_gt(#[trigger] cs[j].mean, v)
{
    reveal(means_sorted);
    assert forall|i: int, j: int| 0 <= i <= j < cs.len() && f_lt(#[trigger] cs[j].mean, v) implies f_lt(#[trigger] cs[i].mean, v) by {
        axiom_f64_le_lt_trans(cs[i].mean, cs[j].mean, v);
    }
    assert forall|i: int, j: int| 0 <= i <= j < cs.len() && f_gt(#[trigger] cs[i].mean, v) implies f_gt(#[trigger] cs[j].mean, v) by {
        axiom_f64_cmp_flip(v, cs[i].mean);
        axiom_f64_lt_le_trans(v, cs[i].mean, cs[j].mean);
        axiom_f64_cmp_flip(v, cs[j].mean);
    }
}
// `.binary_search_by(|c| centroid_lower_bound(c, value)).unwrap_or_else(identity)`: the comparator never answers Equal, so the result is the
// partition point of `mean < value` (standard contract of binary_search_by on a slice partitioned by the comparator). The body is the original expression.
#[verifier::external_body] fn vx_lower_bound(cs: &[Centroid], value: f64) -> (r: usize)
  requires forall|i: int, j: int| 0 <= i <= j < cs@.len() && f_lt(#[trigger] cs@[j].mean, value) ==> f_lt(#[trigger] cs@[i].mean, value)
  ensures r <= cs@.len(), forall|j: int| 0 <= j < r ==> f_lt(#[trigger] cs@[j].mean, value), forall|j: int| r <= j < cs@.len() ==> !f_lt(#[trigger] cs@[j].mean, value)
{ cs.binary_search_by(|c| centroid_lower_bound(c, value)).unwrap_or_else(identity) }
#[verifier::external_body] fn vx_upper_bound(cs: &[Centroid], value: f64) -> (r: usize)
  requires forall|i: int, j: int| 0 <= i <= j < cs@.len() && f_gt(#[trigger] cs@[i].mean, value) ==> f_gt(#[trigger] cs@[j].mean, value)
  ensures r <= cs@.len(), forall|j: int| 0 <= j < r ==> !f_gt(#[trigger] cs@[j].mean, value), forall|j: int| r <= j < cs@.len() ==> f_gt(#[trigger] cs@[j].mean, value)
{ cs.binary_search_by(|c| centroid_upper_bound(c, value)).unwrap_or_else(identity) }

// ================= integer skeleton: weights =================
spec fn wsum(cs: Seq<Centroid>) -> int decreases cs.len() {
    if cs.len() == 0 { 0 } else { wsum(cs.drop_last()) + cs.last().weight.get() }
}
proof fn lemma_wsum_push(cs: Seq<Centroid>, c: Centroid)
  ensures wsum(cs.push(c)) == wsum(cs) + c.weight.get()
{
    assert(cs.push(c).drop_last() =~= cs);
}
proof fn lemma_wsum_append(a: Seq<Centroid>, b: Seq<Centroid>)
  ensures wsum(a + b) == wsum(a) + wsum(b)
  decreases b.len()
{
    if b.len() == 0 { assert(a + b =~= a); }
    else {
        assert((a + b).drop_last() =~= a + b.drop_last());
        lemma_wsum_append(a, b.drop_last());
    }
}
proof fn lemma_wsum_nonneg(a: Seq<Centroid>)
  ensures wsum(a) >= 0
  decreases a.len()
{
    if a.len() > 0 { lemma_wsum_nonneg(a.drop_last()); }
}
proof fn lemma_wsum_remove(a: Seq<Centroid>, j: int)
  requires 0 <= j < a.len()
  ensures wsum(a) == wsum(a.remove(j)) + a[j].weight.get()
{
    let l = a.subrange(0, j); let r = a.subrange(j + 1, a.len() as int);
    assert(a =~= l.push(a[j]) + r);
    assert(a.remove(j) =~= l + r);
    lemma_wsum_append(l.push(a[j]), r);
    lemma_wsum_append(l, r);
    lemma_wsum_push(l, a[j]);
}
proof fn lemma_wsum_update(a: Seq<Centroid>, j: int, c: Centroid)
  requires 0 <= j < a.len()
  ensures wsum(a.update(j, c)) == wsum(a) - a[j].weight.get() + c.weight.get()
{
    lemma_wsum_remove(a, j);
    lemma_wsum_remove(a.update(j, c), j);
    assert(a.update(j, c).remove(j) =~= a.remove(j));
}
proof fn lemma_wsum_elem(a: Seq<Centroid>, j: int)
  requires 0 <= j < a.len()
  ensures a[j].weight.get() <= wsum(a)
{
    lemma_wsum_remove(a, j); lemma_wsum_nonneg(a.remove(j));
}
// the weight sum depends only on the multiset of centroids (sorting keeps it)
proof fn lemma_wsum_perm(a: Seq<Centroid>, b: Seq<Centroid>)
  requires a.to_multiset() == b.to_multiset()
  ensures wsum(a) == wsum(b)
  decreases a.len()
{
    a.to_multiset_ensures(); b.to_multiset_ensures();
    if a.len() == 0 {
        if b.len() > 0 { assert(b.to_multiset().count(b[0]) > 0); assert(a.to_multiset().count(b[0]) == 0); }
    } else {
        let x = a.last();
        assert(a.to_multiset().count(x) > 0) by { assert(a[a.len() - 1] == x); }
        assert(b.contains(x));
        let j = choose|j: int| 0 <= j < b.len() && b[j] == x;
        lemma_wsum_remove(b, j);
        assert(a.drop_last() =~= a.remove(a.len() - 1));
        assert(a.remove(a.len() - 1).to_multiset() =~= a.to_multiset().remove(x));
        assert(b.remove(j).to_multiset() =~= b.to_multiset().remove(x));
        lemma_wsum_perm(a.drop_last(), b.remove(j));
    }
}
proof fn lemma_wsum_reverse(a: Seq<Centroid>)
  ensures wsum(a.reverse()) == wsum(a)
  decreases a.len()
{
    if a.len() > 0 {
        let r = a.reverse();
        assert(r =~= seq![a.last()] + a.drop_last().reverse());
        lemma_wsum_append(seq![a.last()], a.drop_last().reverse());
        lemma_wsum_reverse(a.drop_last());
        lemma_wsum_push(Seq::<Centroid>::empty(), a.last());
        assert(seq![a.last()] =~= Seq::<Centroid>::empty().push(a.last()));
    } else { assert(a.reverse() =~= a); }
}
proof fn lemma_wsum_tail(a: Seq<Centroid>, i: int)
  requires 0 <= i < a.len()
  ensures wsum(a.subrange(i, a.len() as int)) == a[i].weight.get() + wsum(a.subrange(i + 1, a.len() as int))
{
    let t = a.subrange(i, a.len() as int);
    lemma_wsum_remove(t, 0);
    assert(t.remove(0) =~= a.subrange(i + 1, a.len() as int));
}
spec fn cap_of_k(k: u16) -> int { k * 2 + (if k < 30 { 30int } else { 10int }) }

impl Centroid {
    fn add ( & mut self , other : Centroid ) requires old ( self ) . weight . get ( ) + other . weight . get ( ) <= W53 , f_finite ( old ( self ) . mean ) , f_finite ( other . mean ) ensures
/*@C10.add_mean_between*/ forall | rev : bool | ole ( old ( self ) . mean , other . mean , rev ) ==> ole ( old ( self ) . mean , final ( self ) . mean , rev ) && ole ( final ( self ) . mean , other . mean , rev ) ,
/*@C10.add_weight_exact*/ final ( self ) . weight . get ( ) == old ( self ) . weight . get ( ) + other . weight . get ( ) ,
/*@C10.add_mean_reference*/ final ( self ) . mean == add_mean_spec ( old ( self ) . mean , old ( self ) . weight . get ( ) , other . mean , other . weight . get ( ) ) ,
/*@C17.td.add_mean_finite*/ f_finite ( final ( self ) . mean ) {
proof {
axiom_float_total ( ) ;
axiom_f64_ops_deterministic ( ) ;
}
let ( self_weight , other_weight ) = ( self . weight ( ) , other . weight ( ) ) ;
let total_weight = self_weight + other_weight ;
self . weight = self . weight . checked_add ( other . weight . get ( ) ) . expect ( "" ) ;
let ( self_mean , other_mean ) = ( self . mean , other . mean ) ;
proof {
axiom_float_total_at ( self_mean , other_mean ) ;
}
let ratio_other = other_weight / total_weight ;
let delta = other_mean - self_mean ;
proof {
axiom_float_total_at ( other_mean , ratio_other ) ;
}
self . mean = if delta . is_finite ( ) {
delta . mul_add ( ratio_other , self_mean ) }
else {
let ratio_self = self_weight / total_weight ;
self_mean . mul_add ( ratio_self , other_mean * ratio_other ) }
;
proof {
axiom_add_mean_finite ( old ( self ) . mean , old ( self ) . weight . get ( ) , other . mean , other . weight . get ( ) ) ;
axiom_add_mean_between ( old ( self ) . mean , old ( self ) . weight . get ( ) , other . mean , other . weight . get ( ) ) ;
}
assert (
/*@C17.td.add_mean_finite*/ f_finite ( self . mean ) ) ;
debug_assert! ( self . mean . is_finite ( ) ) ;
}




    fn weight ( & self ) -> ( r : f64 ) ensures r == cw ( * self ) {
vx_u64_as_f64 ( self . weight . get ( ) ) }







}
fn centroid_cmp ( a : & Centroid , b : & Centroid ) -> ( r : Ordering ) requires ! f_is_nan ( a . mean ) , ! f_is_nan ( b . mean ) ensures
/*@C10.centroid_cmp_is_mean_order*/ a . mean . partial_cmp_spec ( & b . mean ) == Some ( r ) {
proof {
axiom_f64_ops_deterministic ( ) ;
axiom_f64_cmp_total ( a . mean , b . mean ) ;
}
match a . mean . partial_cmp ( & b . mean ) {
Some ( order ) => order , None => unreachable! ( ) , }
}


fn centroid_lower_bound ( c : & Centroid , value : f64 ) -> ( r : Ordering ) ensures
/*@C10.lower_bound_comparator*/ r == ( if f_lt ( c . mean , value ) {
Ordering :: Less }
else {
Ordering :: Greater }
) {
proof {
axiom_f64_ops_deterministic ( ) ;
}
if c . mean < value {
Ordering :: Less }
else {
Ordering :: Greater }
}




fn centroid_upper_bound ( c : & Centroid , value : f64 ) -> ( r : Ordering ) ensures
/*@C10.upper_bound_comparator*/ r == ( if f_gt ( c . mean , value ) {
Ordering :: Greater }
else {
Ordering :: Less }
) {
proof {
axiom_f64_ops_deterministic ( ) ;
}
if c . mean > value {
Ordering :: Greater }
else {
Ordering :: Less }
}




fn weighted_average ( x1 : f64 , w1 : f64 , x2 : f64 , w2 : f64 ) -> ( r : f64 ) ensures
/*@C10.weighted_average*/ r == wavg ( x1 , w1 , x2 , w2 ) ,
/*@C10.weighted_average_in_range*/ f_le ( x1 , x2 ) ==> f_le ( x1 , r ) && f_le ( r , x2 ) && ! f_is_nan ( r ) {
proof {
axiom_float_total ( ) ;
axiom_f64_ops_deterministic ( ) ;
}
// x1 <= x2 at every call site; rounding must not push the result outside [x1, x2]
let x = ( x1 * w1 + x2 * w2 ) / ( w1 + w2 ) ;
proof {
if f_le ( x1 , x2 ) {
axiom_f64_cmp_total ( x1 , x2 ) ;
let t = f_min ( x , x2 ) ;
axiom_f64_min_max ( x , x2 ) ;
axiom_f64_min_max ( t , x1 ) ;
axiom_f64_max_lub ( t , x1 , x2 ) ;
axiom_f64_cmp_total ( x1 , f_max ( t , x1 ) ) ;
}
}
x . min ( x2 ) . max ( x1 ) }




fn check_split_points ( split_points : & [ f64 ] ) ensures
/*@C10.split_points_validated*/ sp_valid ( split_points @ ) , {
let len = split_points . len ( ) ;
if len == 1 && split_points [ 0 ] . is_nan ( ) {
vx_documented_unreachable ( ) ;
}
let mut vx_n1 = 0 ;
let vx_end1 = len . saturating_sub ( 1 ) ;
while vx_n1 < vx_end1 invariant
/*@C10.split_points_any_length*/ vx_end1 == ( if len == 0 {
0int }
else {
len - 1 }
) , len == split_points @ . len ( ) , vx_n1 <= vx_end1 ,
/*@C10.split_points_validated*/ forall | i : int | 0 <= i < vx_n1 ==> f_lt ( # [ trigger ] split_points @ [ i ] , split_points @ [ i + 1 ] ) , decreases vx_end1 - vx_n1 {
let i = vx_n1 ;
vx_n1 += 1 ;
proof {
axiom_f64_cmp_deterministic ( ) ;
}
if split_points [ i ] < split_points [ i + 1 ] {
continue ;
}
vx_documented_unreachable ( ) ;
}
}








impl Default for TDigestMut {
    fn default ( ) -> ( r : Self ) ensures
/*@C10.default_k*/ r . is_default ( ) {
TDigestMut :: new ( DEFAULT_K ) }





}

impl TDigestMut {
    spec fn cfg_ok(&self) -> bool { self.k >= 10 && self.centroids_capacity == cap_of_k(self.k) }
    spec fn total(&self) -> int { self.centroids_weight + self.buffer@.len() }
    spec fn wf(&self) -> bool {
        &&& self.cfg_ok()
        &&& self.buffer@.len() <= self.centroids_capacity * 4
        &&& wsum(self.centroids@) == self.centroids_weight
        &&& self.total() <= W53
        &&& means_finite(self.centroids@) && values_finite(self.buffer@)
        &&& self.ordered()
    }
    // the centroid list is sorted by mean and bracketed by min / max: what rank / quantile / cdf / pmf rely on
    spec fn ordered(&self) -> bool { means_sorted(self.centroids@) && bracket(self.min, self.max, self.centroids@) }
    spec fn empty(&self) -> bool { self.centroids@.len() == 0 && self.buffer@.len() == 0 }
    spec fn same_cfg(&self, o: &TDigestMut) -> bool { self.k == o.k && self.centroids_capacity == o.centroids_capacity }

    fn make ( k : u16 , reverse_merge : bool , min : f64 , max : f64 , mut centroids : Vec < Centroid > , centroids_weight : u64 , mut buffer : Vec < f64 > , ) -> ( r : Self ) ensures
/*@C10.make.k_validated*/ k >= 10 , r . cfg_ok ( ) , r . k == k , r . centroids @ == centroids @ , r . buffer @ == buffer @ , r . centroids_weight == centroids_weight , r . reverse_merge == reverse_merge , r . min == min , r . max == max , {
vx_documented_panic ( k >= 10 ) ;
assert (
/*@C10.make.k_validated*/ k >= 10 ) ;
let fudge = if k < 30 {
30 }
else {
10 }
;
let centroids_capacity = ( k as usize * 2 ) + fudge ;
centroids . reserve ( centroids_capacity ) ;
buffer . reserve ( centroids_capacity * BUFFER_MULTIPLIER ) ;
TDigestMut {
k , reverse_merge , min , max , centroids , centroids_weight , centroids_capacity , buffer , }
}








    fn update ( & mut self , value : f64 ) requires old ( self ) . wf ( ) , old ( self ) . total ( ) < W53 ensures
/*@C10.update_keeps_invariant*/ final ( self ) . wf ( ) , final ( self ) . same_cfg ( old ( self ) ) ,
/*@C10.nonfinite_ignored*/ ! f_finite ( value ) ==> * final ( self ) == * old ( self ) ,
/*@C10.total_weight_counts_finite*/ f_finite ( value ) ==> final ( self ) . total ( ) == old ( self ) . total ( ) + 1 ,
/*@C10.buffer_bound*/ final ( self ) . buffer @ . len ( ) <= final ( self ) . centroids_capacity * 4 , {
if value . is_nan ( ) || value . is_infinite ( ) {
return ;
}
if self . buffer . len ( ) == self . centroids_capacity * BUFFER_MULTIPLIER {
self . compress ( ) ;
}
let ghost m0 = self . min ;
let ghost x0 = self . max ;
let ghost b0 = self . buffer @ ;
self . buffer . push ( value ) ;
self . min = self . min . min ( value ) ;
self . max = self . max . max ( value ) ;
proof {
lemma_values_push ( b0 , value ) ;
if self . centroids @ . len ( ) >= 1 {
let cs = self . centroids @ ;
axiom_f64_cmp_total ( m0 , cs [ 0 ] . mean ) ;
axiom_f64_cmp_total ( cs [ cs . len ( ) - 1 ] . mean , x0 ) ;
axiom_f64_min_max ( m0 , value ) ;
axiom_f64_min_max ( x0 , value ) ;
axiom_f64_le_trans ( self . min , m0 , cs [ 0 ] . mean ) ;
axiom_f64_le_trans ( cs [ cs . len ( ) - 1 ] . mean , x0 , self . max ) ;
}
}
}








    fn is_empty ( & self ) -> ( r : bool ) ensures r == ( self . centroids @ . len ( ) == 0 && self . buffer @ . len ( ) == 0 ) {
self . centroids . is_empty ( ) && self . buffer . is_empty ( ) }









    // what `Default::default()` gives (closed: the ensures of a trait method must be visible to every caller)
    pub closed spec fn is_default(&self) -> bool { self.wf() && self.empty() && self.k == 200 && self.total() == 0 }

    // verified in unit td_codec (against the serialized image); here only the integer facts the wrappers need
    #[verifier::external_body]
    fn new(k: u16) -> (r: Self)
      requires k >= 10
      ensures r.wf(), r.empty(), r.k == k, r.total() == 0
    { unimplemented!() }

    fn try_new ( k : u16 ) -> ( r : Result < Self , Error > ) ensures
/*@C10.try_new_k_check*/ r is Ok <==> k >= 10 ,
/*@C10.new_empty*/ r matches Ok ( t ) ==> t . wf ( ) && t . empty ( ) && t . k == k && t . total ( ) == 0 , {
if k < 10 {
return Err ( Error :: invalid_argument ( format! ( "k must be at least 10, got {k}" ) ) ) ;
}
proof {
assert ( wsum ( Seq :: < Centroid > :: empty ( ) ) == 0 ) ;
lemma_sorted_empty ( Seq :: < Centroid > :: empty ( ) ) ;
lemma_values_empty ( Seq :: < f64 > :: empty ( ) ) ;
}
assert (
/*@C17.td.make_k_established*/ k >= 10 ) ;
Ok ( Self :: make ( k , false , vx_f64_infinity ( ) , vx_f64_neg_infinity ( ) , vec! [ ] , 0 , vec! [ ] , ) ) }







    fn k ( & self ) -> ( r : u16 ) ensures
/*@C10.k_getter*/ r == self . k {
self . k }







    fn rank ( & mut self , value : f64 ) -> ( r : Option < f64 > ) requires old ( self ) . wf ( ) , ensures
/*@C10.rank_value_validated*/ ! f_is_nan ( value ) , final ( self ) . wf ( ) , final ( self ) . same_cfg ( old ( self ) ) , final ( self ) . total ( ) == old ( self ) . total ( ) ,
/*@C10.rank_shape*/ r is None <==> old ( self ) . empty ( ) ,
/*@C10.rank_single_value*/ ( ! old ( self ) . empty ( ) && ! f_lt ( value , old ( self ) . min ) && ! f_gt ( value , old ( self ) . max ) && old ( self ) . centroids @ . len ( ) + old ( self ) . buffer @ . len ( ) == 1 ) ==> r == Some ( 0.5f64 ) ,
/*@C10.rank_delegates*/ ( ! old ( self ) . empty ( ) && ! f_lt ( value , old ( self ) . min ) && ! f_gt ( value , old ( self ) . max ) && old ( self ) . centroids @ . len ( ) + old ( self ) . buffer @ . len ( ) != 1 ) ==> r == view_rank_spec ( final ( self ) . min , final ( self ) . max , final ( self ) . centroids @ , final ( self ) . centroids_weight , value ) , {
proof {
axiom_f64_cmp_deterministic ( ) ;
}
vx_documented_panic ( ! value . is_nan ( ) ) ;
if self . is_empty ( ) {
return None ;
}
if value < self . min {
return Some ( 0.0 ) ;
}
if value > self . max {
return Some ( 1.0 ) ;
}
proof {
axiom_centroid_vec_len ( & self . centroids ) ;
}
if self . centroids . len ( ) + self . buffer . len ( ) == 1 {
return Some ( 0.5 ) ;
}
self . view ( ) . rank ( value ) }







    fn quantile ( & mut self , rank : f64 ) -> ( r : Option < f64 > ) requires old ( self ) . wf ( ) , ensures
/*@C10.quantile_rank_validated*/ f_in_unit ( rank ) , final ( self ) . wf ( ) , final ( self ) . same_cfg ( old ( self ) ) , final ( self ) . total ( ) == old ( self ) . total ( ) ,
/*@C10.quantile_shape*/ r is None <==> old ( self ) . empty ( ) ,
/*@C10.quantile_delegates*/ ! old ( self ) . empty ( ) ==> r == view_quantile_spec ( final ( self ) . min , final ( self ) . max , final ( self ) . centroids @ , final ( self ) . centroids_weight , rank ) ,
/*@C10.quantile_in_range_except_tail_formulas*/ ( ! old ( self ) . empty ( ) && ! q_in_tail ( final ( self ) . centroids @ , final ( self ) . centroids_weight , rank ) ) ==> ( r matches Some ( v ) && f_in ( final ( self ) . min , v , final ( self ) . max ) ) , {
vx_documented_panic ( vx_in_unit_interval ( & rank ) ) ;
if self . is_empty ( ) {
return None ;
}
self . view ( ) . quantile ( rank ) }







    fn min_value ( & self ) -> ( r : Option < f64 > ) ensures r is None <==> self . empty ( ) , r matches Some ( v ) ==> v == self . min {
if self . is_empty ( ) {
None }
else {
Some ( self . min ) }
}








    fn max_value ( & self ) -> ( r : Option < f64 > ) ensures r is None <==> self . empty ( ) , r matches Some ( v ) ==> v == self . max {
if self . is_empty ( ) {
None }
else {
Some ( self . max ) }
}








    fn total_weight ( & self ) -> ( r : u64 ) requires self . total ( ) <= u64 :: MAX ensures
/*@C10.total_weight*/ r == self . centroids_weight + self . buffer @ . len ( ) {
self . centroids_weight + self . buffer . len ( ) as u64 }








    fn merge ( & mut self , other : & TDigestMut ) requires old ( self ) . wf ( ) , other . wf ( ) , old ( self ) . total ( ) + other . total ( ) <= W53 ensures final ( self ) . wf ( ) , final ( self ) . same_cfg ( old ( self ) ) ,
/*@C10.merge_total_weight*/ final ( self ) . total ( ) == old ( self ) . total ( ) + other . total ( ) , {
if other . is_empty ( ) {
proof {
assert ( other . centroids @ =~= Seq :: < Centroid > :: empty ( ) ) ;
}
return ;
}
proof {
axiom_centroid_vec_len ( & self . centroids ) ;
axiom_centroid_vec_len ( & other . centroids ) ;
}
let mut tmp = Vec :: with_capacity ( self . centroids . len ( ) + self . buffer . len ( ) + other . centroids . len ( ) + other . buffer . len ( ) , ) ;
proof {
lemma_sorted_empty ( tmp @ ) ;
}
let mut vx_i1 = 0 ;
while vx_i1 < self . buffer . len ( ) invariant vx_i1 <= self . buffer @ . len ( ) , tmp @ . len ( ) == vx_i1 , values_finite ( self . buffer @ ) , means_finite ( tmp @ ) ,
/*@C10.merge_weight_argument*/ wsum ( tmp @ ) == vx_i1 , decreases self . buffer @ . len ( ) - vx_i1 {
let v = self . buffer [ vx_i1 ] ;
let ghost t0 = tmp @ ;
tmp . push ( Centroid {
mean : v , weight : DEFAULT_WEIGHT , }
) ;
proof {
lemma_wsum_push ( t0 , tmp @ . last ( ) ) ;
lemma_values_at ( self . buffer @ , vx_i1 as int ) ;
lemma_means_push ( t0 , tmp @ . last ( ) ) ;
assert ( tmp @ =~= t0 . push ( tmp @ . last ( ) ) ) ;
}
vx_i1 += 1 ;
}
let mut vx_i2 = 0 ;
while vx_i2 < other . buffer . len ( ) invariant vx_i2 <= other . buffer @ . len ( ) , tmp @ . len ( ) == self . buffer @ . len ( ) + vx_i2 , values_finite ( other . buffer @ ) , means_finite ( tmp @ ) ,
/*@C10.merge_weight_argument*/ wsum ( tmp @ ) == self . buffer @ . len ( ) + vx_i2 , decreases other . buffer @ . len ( ) - vx_i2 {
let v = other . buffer [ vx_i2 ] ;
let ghost t0 = tmp @ ;
tmp . push ( Centroid {
mean : v , weight : DEFAULT_WEIGHT , }
) ;
proof {
lemma_wsum_push ( t0 , tmp @ . last ( ) ) ;
lemma_values_at ( other . buffer @ , vx_i2 as int ) ;
lemma_means_push ( t0 , tmp @ . last ( ) ) ;
assert ( tmp @ =~= t0 . push ( tmp @ . last ( ) ) ) ;
}
vx_i2 += 1 ;
}
let mut vx_i3 = 0 ;
while vx_i3 < other . centroids . len ( ) invariant vx_i3 <= other . centroids @ . len ( ) , tmp @ . len ( ) == self . buffer @ . len ( ) + other . buffer @ . len ( ) + vx_i3 , means_finite ( other . centroids @ ) , means_finite ( tmp @ ) ,
/*@C10.merge_weight_argument*/ wsum ( tmp @ ) == self . buffer @ . len ( ) + other . buffer @ . len ( ) + wsum ( other . centroids @ . take ( vx_i3 as int ) ) , decreases other . centroids @ . len ( ) - vx_i3 {
let c = other . centroids [ vx_i3 ] ;
proof {
lemma_wsum_push ( tmp @ , c ) ;
assert ( other . centroids @ . take ( vx_i3 + 1 ) . drop_last ( ) =~= other . centroids @ . take ( vx_i3 as int ) ) ;
lemma_means_at ( other . centroids @ , vx_i3 as int ) ;
lemma_means_push ( tmp @ , c ) ;
}
tmp . push ( c ) ;
vx_i3 += 1 ;
}
proof {
assert ( other . centroids @ . take ( other . centroids @ . len ( ) as int ) =~= other . centroids @ ) ;
}
self . do_merge ( tmp , self . buffer . len ( ) as u64 + other . total_weight ( ) ) }









    fn view ( & mut self ) -> ( r : TDigestView < '_ > ) requires old ( self ) . wf ( ) ensures r . centroids @ == final ( self ) . centroids @ , r . centroids_weight == final ( self ) . centroids_weight , r . min == final ( self ) . min , r . max == final ( self ) . max , old ( self ) . buffer @ . len ( ) == 0 ==> * final ( self ) == * old ( self ) , final ( self ) . wf ( ) , final ( self ) . same_cfg ( old ( self ) ) , final ( self ) . total ( ) == old ( self ) . total ( ) , final ( self ) . buffer @ . len ( ) == 0 , ! old ( self ) . empty ( ) ==> final ( self ) . centroids @ . len ( ) >= 1 , {
self . compress ( ) ;
TDigestView {
min : self . min , max : self . max , centroids : & self . centroids , centroids_weight : self . centroids_weight , }
}








    fn cdf ( & mut self , split_points : & [ f64 ] ) -> ( r : Option < Vec < f64 >> ) requires old ( self ) . wf ( ) , ensures
/*@C10.split_points_validated*/ sp_valid ( split_points @ ) , final ( self ) . wf ( ) , final ( self ) . total ( ) == old ( self ) . total ( ) ,
/*@C10.cdf_shape*/ r is None <==> old ( self ) . empty ( ) ,
/*@C10.cdf_pmf_len*/ r matches Some ( v ) ==> v @ . len ( ) == split_points @ . len ( ) + 1 , {
check_split_points ( split_points ) ;
if self . is_empty ( ) {
return None ;
}
self . view ( ) . cdf ( split_points ) }








    fn pmf ( & mut self , split_points : & [ f64 ] ) -> ( r : Option < Vec < f64 >> ) requires old ( self ) . wf ( ) , ensures
/*@C10.split_points_validated*/ sp_valid ( split_points @ ) , final ( self ) . wf ( ) , final ( self ) . total ( ) == old ( self ) . total ( ) ,
/*@C10.pmf_shape*/ r is None <==> old ( self ) . empty ( ) ,
/*@C10.cdf_pmf_len*/ r matches Some ( v ) ==> v @ . len ( ) == split_points @ . len ( ) + 1 , {
check_split_points ( split_points ) ;
if self . is_empty ( ) {
return None ;
}
self . view ( ) . pmf ( split_points ) }








    fn is_single_value ( & self ) -> ( r : bool ) requires self . total ( ) <= u64 :: MAX ensures r == ( self . total ( ) == 1 ) {
self . total_weight ( ) == 1 }








    fn compress ( & mut self ) requires old ( self ) . wf ( ) ensures final ( self ) . wf ( ) , final ( self ) . same_cfg ( old ( self ) ) ,
/*@C10.compress_keeps_total*/ final ( self ) . total ( ) == old ( self ) . total ( ) ,
/*@C10.compress_empties_buffer*/ final ( self ) . buffer @ . len ( ) == 0 , old ( self ) . buffer @ . len ( ) == 0 ==> * final ( self ) == * old ( self ) , ! old ( self ) . empty ( ) ==> final ( self ) . centroids @ . len ( ) >= 1 , {
if self . buffer . is_empty ( ) {
return ;
}
proof {
axiom_centroid_vec_len ( & self . centroids ) ;
}
let mut tmp = Vec :: with_capacity ( self . buffer . len ( ) + self . centroids . len ( ) ) ;
proof {
lemma_sorted_empty ( tmp @ ) ;
}
let mut vx_i1 = 0 ;
while vx_i1 < self . buffer . len ( ) invariant vx_i1 <= self . buffer @ . len ( ) , tmp @ . len ( ) == vx_i1 , values_finite ( self . buffer @ ) , means_finite ( tmp @ ) ,
/*@C10.compress_weight_argument*/ wsum ( tmp @ ) == vx_i1 , decreases self . buffer @ . len ( ) - vx_i1 {
let v = self . buffer [ vx_i1 ] ;
let ghost t0 = tmp @ ;
tmp . push ( Centroid {
mean : v , weight : DEFAULT_WEIGHT , }
) ;
proof {
lemma_wsum_push ( t0 , tmp @ . last ( ) ) ;
lemma_values_at ( self . buffer @ , vx_i1 as int ) ;
lemma_means_push ( t0 , tmp @ . last ( ) ) ;
assert ( tmp @ =~= t0 . push ( tmp @ . last ( ) ) ) ;
}
vx_i1 += 1 ;
}
self . do_merge ( tmp , self . buffer . len ( ) as u64 ) }








    fn do_merge ( & mut self , mut buffer : Vec < Centroid > , weight : u64 ) requires old ( self ) . cfg_ok ( ) , wsum ( old ( self ) . centroids @ ) == old ( self ) . centroids_weight , buffer @ . len ( ) >= 1 , wsum ( buffer @ ) == weight , old ( self ) . centroids_weight + weight <= W53 , means_finite ( old ( self ) . centroids @ ) , means_finite ( buffer @ ) , ensures final ( self ) . cfg_ok ( ) , final ( self ) . same_cfg ( old ( self ) ) ,
/*@C10.merge_means_finite*/ means_finite ( final ( self ) . centroids @ ) , values_finite ( final ( self ) . buffer @ ) ,
/*@C10.merge_keeps_sorted*/ means_sorted ( final ( self ) . centroids @ ) ,
/*@C10.merge_brackets*/ bracket ( final ( self ) . min , final ( self ) . max , final ( self ) . centroids @ ) ,
/*@C10.centroids_weight_adds*/ final ( self ) . centroids_weight == old ( self ) . centroids_weight + weight ,
/*@C10.weights_conserved*/ wsum ( final ( self ) . centroids @ ) == final ( self ) . centroids_weight ,
/*@C10.buffer_cleared*/ final ( self ) . buffer @ . len ( ) == 0 , 1 <= final ( self ) . centroids @ . len ( ) <= buffer @ . len ( ) + old ( self ) . centroids @ . len ( ) ,
/*@C10.min_is_extreme*/ final ( self ) . min == f_min ( old ( self ) . min , final ( self ) . centroids @ [ 0 ] . mean ) ,
/*@C10.max_is_extreme*/ final ( self ) . max == f_max ( old ( self ) . max , final ( self ) . centroids @ [ final ( self ) . centroids @ . len ( ) - 1 ] . mean ) , {
let ghost b0 = buffer @ ;
let ghost c0 = self . centroids @ ;
proof {
lemma_wsum_append ( b0 , c0 ) ;
lemma_means_append ( b0 , c0 ) ;
}
vx_extend_take ( & mut buffer , & mut self . centroids ) ;
let ghost b1 = buffer @ ;
let ghost rev = self . reverse_merge ;
vx_sort_by_centroid_cmp ( & mut buffer ) ;
proof {
lemma_wsum_perm ( buffer @ , b1 ) ;
lemma_perm_finite ( buffer @ , b1 ) ;
lemma_sorted_dir ( buffer @ ) ;
}
if self . reverse_merge {
proof {
lemma_wsum_reverse ( buffer @ ) ;
lemma_finite_reverse ( buffer @ ) ;
lemma_dir_sorted_reverse ( buffer @ , false ) ;
}
buffer . reverse ( ) ;
}
self . centroids_weight += weight ;
let mut num_centroids = 0 ;
let len = buffer . len ( ) ;
proof {
lemma_wsum_push ( Seq :: < Centroid > :: empty ( ) , buffer @ [ 0 ] ) ;
lemma_wsum_tail ( buffer @ , 0 ) ;
assert ( buffer @ . subrange ( 0 , len as int ) =~= buffer @ ) ;
assert ( self . centroids @ . push ( buffer @ [ 0 ] ) =~= seq ! [ buffer @ [ 0 ] ] ) ;
lemma_means_at ( buffer @ , 0 ) ;
lemma_finite_le_refl ( buffer @ [ 0 ] . mean ) ;
lemma_dir_single ( buffer @ [ 0 ] , rev ) ;
lemma_sorted_empty ( self . centroids @ ) ;
lemma_means_push ( self . centroids @ , buffer @ [ 0 ] ) ;
}
self . centroids . push ( buffer [ 0 ] ) ;
num_centroids += 1 ;
let mut current = 1 ;
let mut weight_so_far = 0. ;
while current < len invariant len == buffer @ . len ( ) , 1 <= current <= len , num_centroids == self . centroids @ . len ( ) , 1 <= num_centroids <= current , self . cfg_ok ( ) , self . same_cfg ( old ( self ) ) ,
/*@C10.centroids_weight_adds*/ self . centroids_weight == old ( self ) . centroids_weight + weight , self . buffer == old ( self ) . buffer , self . reverse_merge == old ( self ) . reverse_merge , rev == self . reverse_merge , self . min == old ( self ) . min , self . max == old ( self ) . max , self . centroids_weight <= W53 ,
/*@C10.merge_means_finite*/ means_finite ( buffer @ ) , means_finite ( self . centroids @ ) ,
/*@C10.merge_keeps_sorted*/ dir_sorted ( buffer @ , rev ) , dir_sorted ( self . centroids @ , rev ) , ole ( self . centroids @ [ num_centroids - 1 ] . mean , buffer @ [ current - 1 ] . mean , rev ) ,
/*@C10.weights_conserved*/ wsum ( self . centroids @ ) + wsum ( buffer @ . subrange ( current as int , len as int ) ) == self . centroids_weight , decreases len - current {
proof {
axiom_float_total ( ) ;
}
let c = buffer [ current ] ;
let proposed_weight = self . centroids [ num_centroids - 1 ] . weight ( ) + c . weight ( ) ;
let mut add_this = false ;
if ( current != 1 ) && ( current != ( len - 1 ) ) {
let centroids_weight = self . centroids_weight as f64 ;
let q0 = weight_so_far / centroids_weight ;
let q2 = ( weight_so_far + proposed_weight ) / centroids_weight ;
let normalizer = normalizer ( 2.0 * self . k as f64 , centroids_weight ) ;
add_this = proposed_weight <= ( centroids_weight * max ( q0 , normalizer ) . min ( max ( q2 , normalizer ) ) ) ;
}
proof {
lemma_wsum_tail ( buffer @ , current as int ) ;
lemma_wsum_nonneg ( buffer @ . subrange ( current + 1 , len as int ) ) ;
lemma_wsum_elem ( self . centroids @ , num_centroids - 1 ) ;
lemma_wsum_remove ( self . centroids @ , num_centroids - 1 ) ;
lemma_wsum_nonneg ( self . centroids @ . remove ( num_centroids - 1 ) ) ;
}
let ghost cs = self . centroids @ ;
proof {
lemma_means_at ( buffer @ , current as int ) ;
lemma_means_at ( cs , num_centroids - 1 ) ;
lemma_dir_at ( buffer @ , rev , current - 1 , current as int ) ;
assert ( ole ( buffer @ [ current - 1 ] . mean , c . mean , rev ) ) ;
lemma_ole_trans ( cs [ num_centroids - 1 ] . mean , buffer @ [ current - 1 ] . mean , c . mean , rev ) ;
}
if add_this {
self . centroids [ num_centroids - 1 ] . add ( c ) ;
proof {
let m = self . centroids @ [ num_centroids - 1 ] ;
lemma_wsum_update ( cs , num_centroids - 1 , m ) ;
assert ( self . centroids @ =~= cs . update ( num_centroids - 1 , m ) ) ;
lemma_finite_le_refl ( m . mean ) ;
assert ( ole ( cs [ num_centroids - 1 ] . mean , m . mean , rev ) && ole ( m . mean , c . mean , rev ) ) ;
lemma_update_last_sorted ( cs , m , rev ) ;
lemma_means_update ( cs , num_centroids - 1 , m ) ;
}
}
else {
weight_so_far = weight_so_far + self . centroids [ num_centroids - 1 ] . weight ( ) ;
self . centroids . push ( c ) ;
num_centroids += 1 ;
proof {
lemma_wsum_push ( cs , c ) ;
lemma_finite_le_refl ( c . mean ) ;
lemma_push_sorted ( cs , c , rev ) ;
lemma_means_push ( cs , c ) ;
}
}
current += 1 ;
}
proof {
assert ( buffer @ . subrange ( len as int , len as int ) =~= Seq :: < Centroid > :: empty ( ) ) ;
}
if self . reverse_merge {
proof {
lemma_wsum_reverse ( self . centroids @ ) ;
lemma_finite_reverse ( self . centroids @ ) ;
lemma_dir_sorted_reverse ( self . centroids @ , true ) ;
}
self . centroids . reverse ( ) ;
}
proof {
lemma_sorted_dir ( self . centroids @ ) ;
lemma_means_at ( self . centroids @ , 0 ) ;
lemma_means_at ( self . centroids @ , num_centroids - 1 ) ;
axiom_f64_min_max ( self . min , self . centroids @ [ 0 ] . mean ) ;
axiom_f64_min_max ( self . max , self . centroids @ [ num_centroids - 1 ] . mean ) ;
}
self . min = self . min . min ( self . centroids [ 0 ] . mean ) ;
self . max = self . max . max ( self . centroids [ num_centroids - 1 ] . mean ) ;
self . reverse_merge = ! self . reverse_merge ;
self . buffer . clear ( ) ;
proof {
lemma_values_empty ( self . buffer @ ) ;
}
}







}


impl TDigest {
    spec fn wf(&self) -> bool {
        self.k >= 10 && wsum(self.centroids@) == self.centroids_weight && self.centroids_weight <= W53 && means_finite(self.centroids@)
        && means_sorted(self.centroids@) && bracket(self.min, self.max, self.centroids@)
    }

    fn total_weight ( & self ) -> ( r : u64 ) ensures
/*@C10.total_weight*/ r == self . centroids_weight {
self . centroids_weight }








    fn view ( & self ) -> ( r : TDigestView < '_ > ) ensures r . centroids @ == self . centroids @ , r . centroids_weight == self . centroids_weight , r . min == self . min , r . max == self . max {
TDigestView {
min : self . min , max : self . max , centroids : & self . centroids , centroids_weight : self . centroids_weight , }
}








    fn cdf ( & self , split_points : & [ f64 ] ) -> ( r : Option < Vec < f64 >> ) requires self . wf ( ) ensures
/*@C10.split_points_validated*/ sp_valid ( split_points @ ) ,
/*@C10.cdf_shape*/ r is None <==> self . centroids @ . len ( ) == 0 ,
/*@C10.cdf_pmf_len*/ r matches Some ( v ) ==> v @ . len ( ) == split_points @ . len ( ) + 1 , {
self . view ( ) . cdf ( split_points ) }








    fn pmf ( & self , split_points : & [ f64 ] ) -> ( r : Option < Vec < f64 >> ) requires self . wf ( ) ensures
/*@C10.split_points_validated*/ sp_valid ( split_points @ ) ,
/*@C10.pmf_shape*/ r is None <==> self . centroids @ . len ( ) == 0 ,
/*@C10.cdf_pmf_len*/ r matches Some ( v ) ==> v @ . len ( ) == split_points @ . len ( ) + 1 , {
self . view ( ) . pmf ( split_points ) }








    fn k ( & self ) -> ( r : u16 ) ensures
/*@C10.k_getter*/ r == self . k {
self . k }







    fn is_empty ( & self ) -> ( r : bool ) ensures
/*@C10.frozen_is_empty*/ r == ( self . centroids @ . len ( ) == 0 ) {
self . centroids . is_empty ( ) }







    fn min_value ( & self ) -> ( r : Option < f64 > ) ensures r is None <==> self . centroids @ . len ( ) == 0 , r matches Some ( v ) ==> v == self . min {
if self . is_empty ( ) {
None }
else {
Some ( self . min ) }
}







    fn max_value ( & self ) -> ( r : Option < f64 > ) ensures r is None <==> self . centroids @ . len ( ) == 0 , r matches Some ( v ) ==> v == self . max {
if self . is_empty ( ) {
None }
else {
Some ( self . max ) }
}







    fn rank ( & self , value : f64 ) -> ( r : Option < f64 > ) requires self . wf ( ) ensures
/*@C10.rank_value_validated*/ ! f_is_nan ( value ) ,
/*@C10.rank_shape*/ r is None <==> self . centroids @ . len ( ) == 0 ,
/*@C10.rank_delegates*/ r == view_rank_spec ( self . min , self . max , self . centroids @ , self . centroids_weight , value ) {
vx_documented_panic ( ! value . is_nan ( ) ) ;
self . view ( ) . rank ( value ) }







    fn quantile ( & self , rank : f64 ) -> ( r : Option < f64 > ) ensures
/*@C10.quantile_rank_validated*/ f_in_unit ( rank ) ,
/*@C10.quantile_shape*/ r is None <==> self . centroids @ . len ( ) == 0 ,
/*@C10.quantile_delegates*/ r == view_quantile_spec ( self . min , self . max , self . centroids @ , self . centroids_weight , rank ) ,
/*@C10.quantile_in_range_except_tail_formulas*/ ( self . wf ( ) && self . centroids @ . len ( ) > 0 && ! q_in_tail ( self . centroids @ , self . centroids_weight , rank ) ) ==> ( r matches Some ( v ) && f_in ( self . min , v , self . max ) ) {
vx_documented_panic ( vx_in_unit_interval ( & rank ) ) ;
self . view ( ) . quantile ( rank ) }







    fn unfreeze ( self ) -> ( r : TDigestMut ) requires self . wf ( ) ensures r . wf ( ) ,
/*@C10.unfreeze_keeps_total*/ r . total ( ) == self . centroids_weight , r . k == self . k , r . centroids @ == self . centroids @ , {
assert (
/*@C17.td.make_k_established*/ self . k >= 10 ) ;
proof {
lemma_values_empty ( Seq :: < f64 > :: empty ( ) ) ;
}
TDigestMut :: make ( self . k , self . reverse_merge , self . min , self . max , self . centroids , self . centroids_weight , vec! [ ] , ) }







}

impl TDigestView<'_> {
    spec fn wf(&self) -> bool { view_wf(self.min, self.max, self.centroids@) }
    // what the query functions need: nothing of an empty view (they answer None), the view invariant otherwise
    spec fn queryable(&self) -> bool { self.centroids@.len() == 0 || self.wf() }

    fn rank ( & self , value : f64 ) -> ( r : Option < f64 > ) requires ! f_is_nan ( value ) , self . queryable ( ) ensures
/*@C10.rank_shape*/ r is None <==> self . centroids @ . len ( ) == 0 ,
/*@C10.rank_reference*/ r == view_rank_spec ( self . min , self . max , self . centroids @ , self . centroids_weight , value ) {
proof {
axiom_float_total ( ) ;
axiom_f64_ops_deterministic ( ) ;
}
let ghost cs = self . centroids @ ;
debug_assert! ( ! value . is_nan ( ) ) ;
if self . centroids . is_empty ( ) {
return None ;
}
if value < self . min {
return Some ( 0.0 ) ;
}
if value > self . max {
return Some ( 1.0 ) ;
}
if self . centroids . len ( ) == 1 {
return Some ( 0.5 ) ;
}
let centroids_weight = vx_u64_as_f64 ( self . centroids_weight ) ;
let num_centroids = self . centroids . len ( ) ;
let first_mean = self . centroids [ 0 ] . mean ;
proof {
axiom_float_total_at ( first_mean , self . min ) ;
}
if value < first_mean {
if first_mean - self . min > 0. {
return Some ( if value == self . min {
0.5 / centroids_weight }
else {
( 1. + ( ( ( value - self . min ) / ( first_mean - self . min ) ) * ( ( self . centroids [ 0 ] . weight ( ) / 2. ) - 1. ) ) ) / centroids_weight }
) ;
}
return Some ( 0. ) ;
}
let last_mean = self . centroids [ num_centroids - 1 ] . mean ;
proof {
axiom_float_total_at ( last_mean , self . max ) ;
}
if value > last_mean {
if self . max - last_mean > 0. {
return Some ( if value == self . max {
1. - ( 0.5 / centroids_weight ) }
else {
1.0 - ( ( 1.0 + ( ( ( self . max - value ) / ( self . max - last_mean ) ) * ( ( self . centroids [ num_centroids - 1 ] . weight ( ) / 2. ) - 1. ) ) ) / centroids_weight ) }
) ;
}
return Some ( 1. ) ;
}
proof {
lemma_sorted_partitioned ( cs , value ) ;
}
let mut lower = vx_lower_bound ( self . centroids , value ) ;
proof {
lemma_pp_lt ( cs , value , lower as int , 0 ) ;
axiom_f64_cmp_flip ( cs [ num_centroids - 1 ] . mean , value ) ;
}
assert! ( lower != num_centroids ) ;
let mut upper = vx_upper_bound ( self . centroids , value ) ;
proof {
lemma_pp_gt ( cs , value , upper as int , 0 ) ;
axiom_f64_cmp_flip ( value , cs [ 0 ] . mean ) ;
}
assert! ( upper != 0 ) ;
let ghost lo0 = lower as int ;
let ghost up0 = upper as int ;
assert (
/*@C10.rank_reference*/ lo0 == pp_lt ( cs , value , 0 ) ) ;
assert (
/*@C10.rank_reference*/ up0 == pp_gt ( cs , value , 0 ) ) ;
if value < self . centroids [ lower ] . mean {
lower -= 1 ;
}
if ( upper == num_centroids ) || ( self . centroids [ upper - 1 ] . mean >= value ) {
upper -= 1 ;
}
assert (
/*@C10.rank_reference*/ lower == rank_lower ( cs , value ) ) ;
assert (
/*@C10.rank_reference*/ upper == rank_upper ( cs , value ) ) ;
let mut weight_below = 0. ;
let mut i = 0 ;
while i < lower invariant i <= lower , lower < num_centroids , num_centroids == self . centroids @ . len ( ) , cs == self . centroids @ ,
/*@C10.rank_reference*/ fsum ( cs , i as int , lower as int , weight_below ) == fsum ( cs , 0 , lower as int , 0.0f64 ) , decreases lower - i {
proof {
axiom_float_total ( ) ;
axiom_f64_ops_deterministic ( ) ;
}
weight_below = weight_below + self . centroids [ i ] . weight ( ) ;
i += 1 ;
}
weight_below = weight_below + self . centroids [ lower ] . weight ( ) / 2. ;
let mut weight_delta = 0. ;
let ghost i0 = i as int ;
while i < upper invariant i0 <= i , i0 < upper ==> i <= upper , upper < num_centroids , num_centroids == self . centroids @ . len ( ) , cs == self . centroids @ ,
/*@C10.rank_reference*/ fsum ( cs , i as int , upper as int , weight_delta ) == fsum ( cs , i0 , upper as int , 0.0f64 ) , decreases upper - i {
proof {
axiom_float_total ( ) ;
axiom_f64_ops_deterministic ( ) ;
}
weight_delta = weight_delta + self . centroids [ i ] . weight ( ) ;
i += 1 ;
}
weight_delta = weight_delta - self . centroids [ lower ] . weight ( ) / 2. ;
weight_delta = weight_delta + self . centroids [ upper ] . weight ( ) / 2. ;
proof {
axiom_float_total_at ( cs [ lower as int ] . mean , value ) ;
axiom_float_total_at ( cs [ lower as int ] . mean , cs [ upper as int ] . mean ) ;
}
Some ( if self . centroids [ upper ] . mean - self . centroids [ lower ] . mean > 0. {
( weight_below + ( weight_delta * ( value - self . centroids [ lower ] . mean ) / ( self . centroids [ upper ] . mean - self . centroids [ lower ] . mean ) ) ) / centroids_weight }
else {
( weight_below + weight_delta / 2. ) / centroids_weight }
, ) }




    fn quantile ( & self , rank : f64 ) -> ( r : Option < f64 > ) requires f_in_unit ( rank ) ensures
/*@C10.quantile_shape*/ r is None <==> self . centroids @ . len ( ) == 0 ,
/*@C10.quantile_reference*/ r == view_quantile_spec ( self . min , self . max , self . centroids @ , self . centroids_weight , rank ) ,
/*@C10.quantile_in_range_except_tail_formulas*/ ( self . wf ( ) && ! q_in_tail ( self . centroids @ , self . centroids_weight , rank ) ) ==> ( r matches Some ( v ) && f_in ( self . min , v , self . max ) ) {
proof {
axiom_float_total ( ) ;
axiom_f64_ops_deterministic ( ) ;
}
let ghost cs = self . centroids @ ;
proof {
if self . wf ( ) {
lemma_view_range ( self . min , self . max , cs , 0 ) ;
lemma_last_to_max_in_range ( self . min , self . max , cs ) ;
}
}
debug_assert! ( vx_in_unit_interval ( & rank ) ) ;
if self . centroids . is_empty ( ) {
return None ;
}
if self . centroids . len ( ) == 1 {
return Some ( self . centroids [ 0 ] . mean ) ;
}
let centroids_weight = vx_u64_as_f64 ( self . centroids_weight ) ;
let num_centroids = self . centroids . len ( ) ;
let weight = rank * centroids_weight ;
if weight < 1. {
return Some ( self . min ) ;
}
if weight > centroids_weight - 1. {
return Some ( self . max ) ;
}
let first_weight = self . centroids [ 0 ] . weight ( ) ;
proof {
axiom_float_total_at ( cs [ 0 ] . mean , self . min ) ;
axiom_float_total_at ( cs [ num_centroids - 1 ] . mean , self . max ) ;
}
if first_weight > 1. && weight < first_weight / 2. {
return Some ( self . min + ( ( ( weight - 1. ) / ( ( first_weight / 2. ) - 1. ) ) * ( self . centroids [ 0 ] . mean - self . min ) ) , ) ;
}
let last_weight = self . centroids [ num_centroids - 1 ] . weight ( ) ;
if last_weight > 1. && ( centroids_weight - weight <= last_weight / 2. ) {
return Some ( self . max - ( ( ( centroids_weight - weight - 1. ) / ( ( last_weight / 2. ) - 1. ) ) * ( self . max - self . centroids [ num_centroids - 1 ] . mean ) ) , ) ;
}
let mut weight_so_far = first_weight / 2. ;
let ghost ref_q = q_walk ( self . max , cs , centroids_weight , weight , 0 , weight_so_far ) ;
for i in 0 .. ( num_centroids - 1 ) invariant num_centroids == self . centroids @ . len ( ) , num_centroids >= 2 , cs == self . centroids @ ,
/*@C10.quantile_reference*/ view_quantile_spec ( self . min , self . max , cs , self . centroids_weight , rank ) == Some ( ref_q ) ,
/*@C10.quantile_reference*/ q_walk ( self . max , cs , centroids_weight , weight , i as int , weight_so_far ) == ref_q , {
proof {
axiom_float_total ( ) ;
axiom_f64_ops_deterministic ( ) ;
}
let dw = ( self . centroids [ i ] . weight ( ) + self . centroids [ i + 1 ] . weight ( ) ) / 2. ;
proof {
if self . wf ( ) {
lemma_view_range ( self . min , self . max , cs , i as int ) ;
lemma_view_range ( self . min , self . max , cs , i + 1 ) ;
lemma_between_in_range ( self . min , self . max , cs , i as int ) ;
}
}
if weight_so_far + dw > weight {
let mut left_weight = 0. ;
if self . centroids [ i ] . weight . get ( ) == 1 {
if weight - weight_so_far < 0.5 {
return Some ( self . centroids [ i ] . mean ) ;
}
left_weight = 0.5 ;
}
let mut right_weight = 0. ;
if self . centroids [ i + 1 ] . weight . get ( ) == 1 {
if weight_so_far + dw - weight <= 0.5 {
return Some ( self . centroids [ i + 1 ] . mean ) ;
}
right_weight = 0.5 ;
}
let w1 = weight - weight_so_far - left_weight ;
let w2 = weight_so_far + dw - weight - right_weight ;
return Some ( weighted_average ( self . centroids [ i ] . mean , w2 , self . centroids [ i + 1 ] . mean , w1 , ) ) ;
}
weight_so_far = weight_so_far + dw ;
}
let w1 = weight - ( centroids_weight ) - ( ( self . centroids [ num_centroids - 1 ] . weight ( ) ) / 2. ) ;
let w2 = ( self . centroids [ num_centroids - 1 ] . weight ( ) / 2. ) - w1 ;
Some ( weighted_average ( self . centroids [ num_centroids - 1 ] . mean , w1 , self . max , w2 , ) ) }




    fn pmf ( & self , split_points : & [ f64 ] ) -> ( r : Option < Vec < f64 >> ) requires self . queryable ( ) ensures
/*@C10.split_points_validated*/ sp_valid ( split_points @ ) ,
/*@C10.pmf_shape*/ r is None <==> self . centroids @ . len ( ) == 0 ,
/*@C10.cdf_pmf_len*/ r matches Some ( v ) ==> v @ . len ( ) == split_points @ . len ( ) + 1 , {
let mut buckets = self . cdf ( split_points ) ? ;
let mut vx_n1 = buckets . len ( ) ;
let vx_lo1 = 1 ;
while vx_n1 > vx_lo1 invariant buckets @ . len ( ) == split_points @ . len ( ) + 1 , vx_n1 <= buckets @ . len ( ) , vx_lo1 >= 1 , decreases vx_n1 {
vx_n1 -= 1 ;
let i = vx_n1 ;
proof {
axiom_float_total ( ) ;
}
buckets [ i ] = buckets [ i ] - buckets [ i - 1 ] ;
}
Some ( buckets ) }








    fn cdf ( & self , split_points : & [ f64 ] ) -> ( r : Option < Vec < f64 >> ) requires self . queryable ( ) ensures
/*@C10.split_points_validated*/ sp_valid ( split_points @ ) ,
/*@C10.cdf_shape*/ r is None <==> self . centroids @ . len ( ) == 0 ,
/*@C10.cdf_pmf_len*/ r matches Some ( v ) ==> v @ . len ( ) == split_points @ . len ( ) + 1 , {
check_split_points ( split_points ) ;
if self . centroids . is_empty ( ) {
return None ;
}
proof {
axiom_f64_slice_len ( split_points ) ;
}
let mut ranks = Vec :: with_capacity ( split_points . len ( ) + 1 ) ;
let mut vx_i1 = 0 ;
while vx_i1 < split_points . len ( ) invariant vx_i1 <= split_points @ . len ( ) , ranks @ . len ( ) == vx_i1 , self . centroids @ . len ( ) > 0 , self . queryable ( ) , split_points @ . len ( ) == 1 ==> ! f_is_nan ( split_points @ [ 0 ] ) , forall | i : int | 0 <= i < split_points @ . len ( ) - 1 ==> f_lt ( # [ trigger ] split_points @ [ i ] , split_points @ [ i + 1 ] ) , decreases split_points @ . len ( ) - vx_i1 {
let p = split_points [ vx_i1 ] ;
proof {
if split_points @ . len ( ) > 1 {
if vx_i1 + 1 < split_points @ . len ( ) {
axiom_lt_not_nan ( split_points @ [ vx_i1 as int ] , split_points @ [ vx_i1 + 1 ] ) ;
}
else {
axiom_lt_not_nan ( split_points @ [ vx_i1 - 1 ] , split_points @ [ vx_i1 as int ] ) ;
}
}
}
match self . rank ( p ) {
Some ( rank ) => ranks . push ( rank ) , None => unreachable! ( ) , }
vx_i1 += 1 ;
}
ranks . push ( 1.0 ) ;
Some ( ranks ) }







}
}
fn main(){}
