#![feature(allocator_api)]
use vstd::prelude::*;
use std::io;
use std::io::Cursor;
use std::io::Read;
verus! {
global size_of usize == 8;
pub assume_specification<T, A: std::alloc::Allocator> [std::vec::Vec::<T, A>::into_boxed_slice] (v: std::vec::Vec<T, A>) -> (r: std::boxed::Box<[T], A>)
  ensures r@ == v@;
// u64::div_ceil (std leaf)
pub assume_specification [ u64::div_ceil ] (a: u64, b: u64) -> (r: u64) requires b > 0 ensures r == (a + b - 1) / (b as int);

// =====================================================================================================================
// Little-endian byte codecs: interpreted on both sides, the round trip is a lemma (no axiom); same definitions as hll_codec8
// =====================================================================================================================
spec fn le16_bytes(n: u16) -> Seq<u8> { seq![(n & 0xff) as u8, ((n >> 8) & 0xff) as u8] }
spec fn le32_bytes(n: u32) -> Seq<u8> { seq![(n & 0xff) as u8, ((n >> 8) & 0xff) as u8, ((n >> 16) & 0xff) as u8, ((n >> 24) & 0xff) as u8] }
spec fn le64_bytes(n: u64) -> Seq<u8> { le32_bytes((n & 0xffff_ffff) as u32) + le32_bytes((n >> 32) as u32) }
spec fn le16_val(b: Seq<u8>) -> u16 { (b[0] as u16) | ((b[1] as u16) << 8) }
spec fn le32_val(b: Seq<u8>) -> u32 { (b[0] as u32) | ((b[1] as u32) << 8) | ((b[2] as u32) << 16) | ((b[3] as u32) << 24) }
spec fn le64_val(b: Seq<u8>) -> u64 { (le32_val(b.subrange(0, 4)) as u64) | ((le32_val(b.subrange(4, 8)) as u64) << 32) }
// two's complement reading of a 32-bit field
spec fn i32_bits(n: i32) -> u32 { if n >= 0 { n as u32 } else { (n + 0x1_0000_0000) as u32 } }
spec fn i32_of_bits(u: u32) -> i32 { if u < 0x8000_0000 { u as i32 } else { (u - 0x1_0000_0000) as i32 } }

proof fn lemma_le16_roundtrip(n: u16) ensures le16_val(le16_bytes(n)) == n, le16_bytes(n).len() == 2 {
    let b0 = (n & 0xff) as u8; let b1 = ((n >> 8) & 0xff) as u8;
    assert((b0 as u16) | ((b1 as u16) << 8) == n) by (bit_vector) requires b0 == (n & 0xff) as u8, b1 == ((n >> 8) & 0xff) as u8;
}
proof fn lemma_le32_roundtrip(n: u32) ensures le32_val(le32_bytes(n)) == n, le32_bytes(n).len() == 4 {
    let b0 = (n & 0xff) as u8; let b1 = ((n >> 8) & 0xff) as u8; let b2 = ((n >> 16) & 0xff) as u8; let b3 = ((n >> 24) & 0xff) as u8;
    assert((b0 as u32) | ((b1 as u32) << 8) | ((b2 as u32) << 16) | ((b3 as u32) << 24) == n) by (bit_vector)
      requires b0 == (n & 0xff) as u8, b1 == ((n >> 8) & 0xff) as u8, b2 == ((n >> 16) & 0xff) as u8, b3 == ((n >> 24) & 0xff) as u8;
}
proof fn lemma_le64_roundtrip(n: u64) ensures le64_val(le64_bytes(n)) == n, le64_bytes(n).len() == 8 {
    let lo = (n & 0xffff_ffff) as u32; let hi = (n >> 32) as u32;
    lemma_le32_roundtrip(lo); lemma_le32_roundtrip(hi);
    assert(le64_bytes(n).subrange(0, 4) =~= le32_bytes(lo));
    assert(le64_bytes(n).subrange(4, 8) =~= le32_bytes(hi));
    assert((lo as u64) | ((hi as u64) << 32) == n) by (bit_vector) requires lo == (n & 0xffff_ffff) as u32, hi == (n >> 32) as u32;
}

// std leaves (R4 rewrites of uN::from_le_bytes / n.to_le_bytes())
#[verifier::external_body] fn vx_u16_from_le_bytes(b: [u8; 2]) -> (r: u16) ensures r == le16_val(b@) { u16::from_le_bytes(b) }
#[verifier::external_body] fn vx_u32_from_le_bytes(b: [u8; 4]) -> (r: u32) ensures r == le32_val(b@) { u32::from_le_bytes(b) }
#[verifier::external_body] fn vx_i32_from_le_bytes(b: [u8; 4]) -> (r: i32) ensures r == i32_of_bits(le32_val(b@)) { i32::from_le_bytes(b) }
#[verifier::external_body] fn vx_u64_from_le_bytes(b: [u8; 8]) -> (r: u64) ensures r == le64_val(b@) { u64::from_le_bytes(b) }
#[verifier::external_body] fn vx_u16_to_le_bytes(n: u16) -> (r: [u8; 2]) ensures r@ == le16_bytes(n) { n.to_le_bytes() }
#[verifier::external_body] fn vx_u32_to_le_bytes(n: u32) -> (r: [u8; 4]) ensures r@ == le32_bytes(n) { n.to_le_bytes() }
#[verifier::external_body] fn vx_i32_to_le_bytes(n: i32) -> (r: [u8; 4]) ensures r@ == le32_bytes(i32_bits(n)) { n.to_le_bytes() }
#[verifier::external_body] fn vx_u64_to_le_bytes(n: u64) -> (r: [u8; 8]) ensures r@ == le64_bytes(n) { n.to_le_bytes() }

// a list of u64 words in an image, and reading word i of a payload (same pair as the theta / coupon list codecs)
spec fn enc_u64s(s: Seq<u64>) -> Seq<u8> decreases s.len() { if s.len() == 0 { Seq::empty() } else { enc_u64s(s.drop_last()) + le64_bytes(s.last()) } }
// (off = where the list starts in the image p)
spec fn dec_u64_at(p: Seq<u8>, off: int, i: int) -> u64 { le64_val(p.subrange(off + 8 * i, off + 8 * i + 8)) }
spec fn dec_u64s(p: Seq<u8>, off: int, n: int) -> Seq<u64> { Seq::new(n as nat, |i: int| dec_u64_at(p, off, i)) }
proof fn lemma_enc_u64s_len(s: Seq<u64>) ensures enc_u64s(s).len() == 8 * s.len() decreases s.len() {
    if s.len() > 0 { lemma_enc_u64s_len(s.drop_last()); lemma_le64_roundtrip(s.last()); }
}
proof fn lemma_enc_u64s_push(s: Seq<u64>, x: u64) ensures enc_u64s(s.push(x)) == enc_u64s(s) + le64_bytes(x) {
    assert(s.push(x).drop_last() =~= s);
}
// C11 at spec level for word lists: decoding the encoded list gives the list back, whatever precedes and follows it
proof fn lemma_dec_enc_u64s(head: Seq<u8>, s: Seq<u64>, tail: Seq<u8>, i: int)
  requires 0 <= i < s.len()
  ensures dec_u64_at(head + enc_u64s(s) + tail, head.len() as int, i) == s[i]
  decreases s.len()
{
    lemma_enc_u64s_len(s); lemma_enc_u64s_len(s.drop_last()); lemma_le64_roundtrip(s.last());
    let e = head + enc_u64s(s) + tail;
    if i == s.len() - 1 {
        assert(e.subrange(head.len() + 8 * i, head.len() + 8 * i + 8) =~= le64_bytes(s.last()));
    } else {
        lemma_dec_enc_u64s(head, s.drop_last(), le64_bytes(s.last()) + tail, i);
        assert(head + enc_u64s(s.drop_last()) + (le64_bytes(s.last()) + tail) =~= e);
    }
}
proof fn lemma_dec_enc_u64s_all(head: Seq<u8>, s: Seq<u64>, tail: Seq<u8>)
  ensures dec_u64s(head + enc_u64s(s) + tail, head.len() as int, s.len() as int) == s
{
    assert forall|i: int| 0 <= i < s.len() implies dec_u64_at(head + enc_u64s(s) + tail, head.len() as int, i) == s[i] by { lemma_dec_enc_u64s(head, s, tail, i); }
    assert(dec_u64s(head + enc_u64s(s) + tail, head.len() as int, s.len() as int) =~= s);
}

// =====================================================================================================================
// popcount and the bit-count part of the filter invariant: the definitions of unit bloom_core
// =====================================================================================================================
pub uninterp spec fn pc64(w: u64) -> nat;
pub assume_specification [ u64::count_ones ] (w: u64) -> (r: u32) ensures r == pc64(w), r <= 64;
#[verifier::external_body] proof fn axiom_pc_zero() ensures pc64(0) == 0 {}
#[verifier::external_body] proof fn axiom_pc_set_bit(w: u64, b: u64) requires b < 64, w & (1u64 << b) == 0 ensures pc64(w | (1u64 << b)) == pc64(w) + 1 {}
#[verifier::external_body] proof fn axiom_pc_not(w: u64) ensures pc64(!w) == 64 - pc64(w), pc64(w) <= 64 {}
spec fn total_pc(ws: Seq<u64>) -> nat decreases ws.len() { if ws.len() == 0 { 0 } else { total_pc(ws.drop_last()) + pc64(ws.last()) } }
proof fn lemma_total_le(ws: Seq<u64>)
  ensures total_pc(ws) <= 64 * ws.len()
  decreases ws.len()
{
    if ws.len() > 0 { lemma_total_le(ws.drop_last()); axiom_pc_not(ws.last()); }
}
proof fn lemma_total_zero(ws: Seq<u64>)
  requires forall|k: int| 0 <= k < ws.len() ==> ws[k] == 0
  ensures total_pc(ws) == 0
  decreases ws.len()
{
    if ws.len() > 0 { lemma_total_zero(ws.drop_last()); axiom_pc_zero(); }
}

// a word with some bit set has a positive popcount (from the set-bit axiom; as in bloom_core)
proof fn lemma_pc_pos(w: u64, b: u64)
  requires b < 64, (w >> b) & 1 == 1
  ensures pc64(w) >= 1
{
    let w1 = w & !(1u64 << b);
    assert(b < 64 ==> (w & !(1u64 << b)) & (1u64 << b) == 0) by (bit_vector);
    assert(b < 64 && (w >> b) & 1 == 1 ==> (w & !(1u64 << b)) | (1u64 << b) == w) by (bit_vector);
    axiom_pc_set_bit(w1, b);
}
proof fn lemma_find_bit(w: u64, b: u64) -> (c: u64)
  requires b < 64, (w >> b) != 0
  ensures c < 64, (w >> c) & 1 == 1
  decreases 64 - b
{
    if (w >> b) & 1 == 1 { b } else {
        assert(b < 63 && (w >> ((b + 1) as u64)) != 0) by (bit_vector) requires b < 64, (w >> b) != 0, (w >> b) & 1 != 1;
        lemma_find_bit(w, (b + 1) as u64)
    }
}
// total popcount 0  ==>  every word is 0
proof fn lemma_total_zero_conv(ws: Seq<u64>)
  requires total_pc(ws) == 0
  ensures ws == zeros(ws.len() as int)
  decreases ws.len()
{
    if ws.len() > 0 {
        lemma_total_zero_conv(ws.drop_last());
        let w = ws.last();
        if w != 0 { assert(w >> 0 == w) by (bit_vector); let c = lemma_find_bit(w, 0); lemma_pc_pos(w, c); }
        assert(ws =~= ws.drop_last().push(w));
    }
    assert(ws =~= zeros(ws.len() as int));
}

// =====================================================================================================================
// error / io shims
// =====================================================================================================================
#[verifier::external_type_specification]
#[verifier::external_body]
pub struct ExIoError(std::io::Error);

struct Error { k: u8 }
impl Error {
    // error.rs constructors: only "an Error" is known
    #[verifier::external_body] fn deserial(msg: impl Into<String>) -> Self { Error { k: 2 } }
    #[verifier::external_body] fn invalid_family(expected: u8, actual: u8, name: &'static str) -> Self { Error { k: 3 } }
}
trait VxIo<T> { fn vx_io(self, tag: &'static str) -> Result<T, Error>; }
impl<T> VxIo<T> for Result<T, std::io::Error> {
  // R2: `.map_err(insufficient_data(tag))`
  #[verifier::external_body]
  fn vx_io(self, tag: &'static str) -> (r: Result<T, Error>)
    ensures self matches Ok(v) ==> r == Ok::<T, Error>(v), self is Err ==> r is Err
  { unimplemented!() }
}

// C14 allocation contract (DESIGN.md, C14 / R8): an allocation made while parsing is covered by bytes that are known to be present,
// up to what a validated configuration field implies:  n * size <= 16 * input_len + CONFIG_MAX.
// Bloom: a full image carries its bit array, so nothing beyond the input is granted (CONFIG_MAX = 0); an EMPTY image denotes numLongs
// zero words without carrying them - that expansion is the format's own (numLongs is a positive Java int), CONFIG_MAX = 8 * (2^31 - 1).
spec const BLOOM_CONFIG_MAX_EMPTY: int = 8 * 0x7fff_ffffint;
// `vec![0u64; n]` in the parser
#[verifier::external_body]
fn vx_alloc_vec(x: u64, n: usize, Ghost(budget): Ghost<(int, int)>) -> (r: Vec<u64>)    // budget = (input_len, CONFIG_MAX)
  requires /*@C14.bloom.alloc_bounded*/ n * 8 <= 16 * budget.0 + budget.1
  ensures r@.len() == n, forall|i: int| 0 <= i < n ==> r@[i] == x
{ vec![x; n] }
// R15: `bit_array.iter().map(|w| w.count_ones() as u64).sum()`
#[verifier::external_body]
fn vx_sum_count_ones(s: &Box<[u64]>) -> (r: u64)
  requires s@.len() <= 0x7fff_ffff
  ensures r == total_pc(s@)
{ s.iter().map(|w| w.count_ones() as u64).sum() }
// `ensure_preamble_longs_in_range(lo..=hi, actual)` (codec/assert.rs; RangeInclusive has no spec view)
#[verifier::external_body]
fn vx_ensure_preamble_longs_in_range(lo: u8, hi: u8, actual: u8) -> (r: Result<(), Error>)
  ensures r is Ok <==> lo <= actual <= hi
{ if (lo..=hi).contains(&actual) { Ok(()) } else { Err(Error { k: 2 }) } }

// =====================================================================================================================
// codec/encode.rs: SketchBytes, real bodies, view = the bytes written so far
// =====================================================================================================================
struct SketchBytes {
    bytes: Vec<u8>,
}

impl SketchBytes {
    spec fn view(&self) -> Seq<u8> { self.bytes@ }

    fn with_capacity(capacity: usize) -> (r: Self) ensures r@ == Seq::<u8>::empty() {
        Self {
            bytes: Vec::with_capacity(capacity),
        }
    }

    fn into_bytes(self) -> (r: Vec<u8>) ensures r@ == self@ {
        self.bytes
    }

    fn write(&mut self, buf: &[u8]) ensures final(self)@ == old(self)@ + buf@ {
        self.bytes.extend_from_slice(buf);
    }

    fn write_u8(&mut self, n: u8) ensures final(self)@ == old(self)@.push(n) {
        self.bytes.push(n);
    }

    fn write_u16_le(&mut self, n: u16) ensures final(self)@ == old(self)@ + le16_bytes(n) {
        self.write(&vx_u16_to_le_bytes(n));
    }

    fn write_u32_le(&mut self, n: u32) ensures final(self)@ == old(self)@ + le32_bytes(n) {
        self.write(&vx_u32_to_le_bytes(n));
    }

    fn write_i32_le(&mut self, n: i32) ensures final(self)@ == old(self)@ + le32_bytes(i32_bits(n)) {
        self.write(&vx_i32_to_le_bytes(n));
    }

    fn write_u64_le(&mut self, n: u64) ensures final(self)@ == old(self)@ + le64_bytes(n) {
        self.write(&vx_u64_to_le_bytes(n));
    }
}

// =====================================================================================================================
// codec/decode.rs: SketchSlice; the std Cursor is abstracted by (data(), pos()): the slice and the number of bytes consumed.
// A read of N bytes is Ok and advances by N iff pos + N <= len, else Err.
// read_exact (std::io::Read on Cursor<&[u8]>) is the only assumed leaf; the read_* are real bodies.
// =====================================================================================================================
#[verifier::external_body]
struct SketchSlice<'a> {
    slice: Cursor<&'a [u8]>,
}

impl SketchSlice<'_> {
    uninterp spec fn data(&self) -> Seq<u8>;
    uninterp spec fn pos(&self) -> nat;
    // the N bytes at the cursor
    spec fn at(&self, n: int) -> Seq<u8> { self.data().subrange(self.pos() as int, self.pos() + n) }
    spec fn has(&self, n: int) -> bool { self.pos() + n <= self.data().len() }
    spec fn advanced(&self, o: &Self, n: int) -> bool { self.data() == o.data() && self.pos() == o.pos() + n }

    #[verifier::external_body]
    fn new(slice: &[u8]) -> (r: SketchSlice<'_>) ensures r.data() == slice@, r.pos() == 0 {
        unimplemented!()
    }

    #[verifier::external_body]
    fn read_exact(&mut self, buf: &mut [u8]) -> (r: io::Result<()>)
      ensures
        old(self).has(old(buf)@.len() as int) ==> (r is Ok && final(buf)@ == old(self).at(old(buf)@.len() as int) && final(self).advanced(old(self), old(buf)@.len() as int)),
        !old(self).has(old(buf)@.len() as int) ==> r is Err,
        final(buf)@.len() == old(buf)@.len(),
        final(self).data() == old(self).data(),
    {
        unimplemented!()
    }

    fn read_u8(&mut self) -> (r: io::Result<u8>)
      ensures
        old(self).has(1) ==> (r matches Ok(v) && v == old(self).data()[old(self).pos() as int] && final(self).advanced(old(self), 1)),
        !old(self).has(1) ==> r is Err,
        final(self).data() == old(self).data(),
    {
        let mut buf = [0u8; 1];
        self.read_exact(&mut buf)?;
        Ok(buf[0])
    }

    fn read_u16_le(&mut self) -> (r: io::Result<u16>)
      ensures
        old(self).has(2) ==> (r matches Ok(v) && v == le16_val(old(self).at(2)) && final(self).advanced(old(self), 2)),
        !old(self).has(2) ==> r is Err,
        final(self).data() == old(self).data(),
    {
        let mut buf = [0u8; 2];
        self.read_exact(&mut buf)?;
        Ok(vx_u16_from_le_bytes(buf))
    }

    fn read_u32_le(&mut self) -> (r: io::Result<u32>)
      ensures
        old(self).has(4) ==> (r matches Ok(v) && v == le32_val(old(self).at(4)) && final(self).advanced(old(self), 4)),
        !old(self).has(4) ==> r is Err,
        final(self).data() == old(self).data(),
    {
        let mut buf = [0u8; 4];
        self.read_exact(&mut buf)?;
        Ok(vx_u32_from_le_bytes(buf))
    }

    fn read_i32_le(&mut self) -> (r: io::Result<i32>)
      ensures
        old(self).has(4) ==> (r matches Ok(v) && v == i32_of_bits(le32_val(old(self).at(4))) && final(self).advanced(old(self), 4)),
        !old(self).has(4) ==> r is Err,
        final(self).data() == old(self).data(),
    {
        let mut buf = [0u8; 4];
        self.read_exact(&mut buf)?;
        Ok(vx_i32_from_le_bytes(buf))
    }

    fn read_u64_le(&mut self) -> (r: io::Result<u64>)
      ensures
        old(self).has(8) ==> (r matches Ok(v) && v == le64_val(old(self).at(8)) && final(self).advanced(old(self), 8)),
        !old(self).has(8) ==> r is Err,
        final(self).data() == old(self).data(),
    {
        let mut buf = [0u8; 8];
        self.read_exact(&mut buf)?;
        Ok(vx_u64_from_le_bytes(buf))
    }
}

// =====================================================================================================================
// codec/family.rs, codec/assert.rs
// =====================================================================================================================
struct Family {
    id: u8,
    name: &'static str,
    min_pre_longs: u8,
    max_pre_longs: u8,
}

impl Family {
    const BLOOMFILTER: Family = Family {
        id: 21,
        name: "BLOOMFILTER",
        min_pre_longs: 3,
        max_pre_longs: 4,
    };

    fn validate_id(&self, family_id: u8) -> (r: Result<(), Error>) ensures r is Ok <==> family_id == self.id {
        if family_id != self.id {
            Err(Error::invalid_family(self.id, family_id, self.name))
        } else {
            Ok(())
        }
    }
}

fn ensure_serial_version_is(expected: u8, actual: u8) -> (r: Result<(), Error>) ensures r is Ok <==> expected == actual {
    if expected == actual {
        Ok(())
    } else {
        Err(Error::deserial(format!(
            "unsupported serial version: expected {expected}, got {actual}"
        )))
    }
}

// =====================================================================================================================
// FORMAT SPEC (DESIGN.md Appendix A, "Bloom"; family 21, serVer 1).  Written from the published layout, not from the Rust code.
//   0 preLongs (3 empty, 4) | 1 serVer=1 | 2 famID=21 | 3 flags: bit2 EMPTY | 4-5 numHashes u16 | 6-7 unused | 8-15 seed u64
//   16-19 numLongs i32 | 20-23 unused | 24-31 numBitsSet u64 (all ones = dirty, the reader recounts) | 32.. bit array, numLongs u64 words
//   An EMPTY image stops at byte 24 and denotes numLongs all-zero words.
// =====================================================================================================================
// the abstract content of a Bloom filter: configuration and the bit array (the number of set bits is a function of the array)
ghost struct BloomImg {
    seed: u64,
    num_hashes: u16,
    words: Seq<u64>,
}
spec const DIRTY: u64 = 0xffff_ffff_ffff_ffff;
spec fn zeros(n: int) -> Seq<u64> { Seq::new(n as nat, |i: int| 0u64) }
// configurations the format can express (numHashes is a positive Java short, numLongs a positive Java int)
spec fn img_ok(v: BloomImg) -> bool { 1 <= v.num_hashes <= 0x7fff && 1 <= v.words.len() <= 0x7fff_ffff }
spec fn bloom_head(pre_longs: u8, flags: u8, v: BloomImg) -> Seq<u8> {
    seq![pre_longs, 1u8, 21u8, flags] + le16_bytes(v.num_hashes) + le16_bytes(0) + le64_bytes(v.seed) + le32_bytes(v.words.len() as u32) + le32_bytes(0)
}
// the spec ENCODER, any writer.  EMPTY variant (only for an all-zero array):
spec fn enc_bloom_empty(v: BloomImg) -> Seq<u8> { bloom_head(3, 4, v) }
// full variant; `stored` is the numBitsSet field: the count, or DIRTY (Java/C++ writers of a direct/updatable array whose count is stale)
spec fn enc_bloom_full(v: BloomImg, stored: u64) -> Seq<u8> { bloom_head(4, 0, v) + le64_bytes(stored) + enc_u64s(v.words) }
// the variant this crate writes
spec fn enc_bloom(v: BloomImg) -> Seq<u8> { if total_pc(v.words) == 0 { enc_bloom_empty(v) } else { enc_bloom_full(v, total_pc(v.words) as u64) } }

// the spec DECODER: header fields ...
spec fn hdr_empty(b: Seq<u8>) -> bool { b[3] & 4 != 0 }
spec fn hdr_num_hashes(b: Seq<u8>) -> u16 { le16_val(b.subrange(4, 6)) }
spec fn hdr_seed(b: Seq<u8>) -> u64 { le64_val(b.subrange(8, 16)) }
spec fn hdr_num_longs(b: Seq<u8>) -> u32 { le32_val(b.subrange(16, 20)) }
spec fn hdr_stored(b: Seq<u8>) -> u64 { le64_val(b.subrange(24, 32)) }
spec fn dec_words(b: Seq<u8>) -> Seq<u64> { if hdr_empty(b) { zeros(hdr_num_longs(b) as int) } else { dec_u64s(b, 32, hdr_num_longs(b) as int) } }
spec fn dec_bloom(b: Seq<u8>) -> BloomImg { BloomImg { seed: hdr_seed(b), num_hashes: hdr_num_hashes(b), words: dec_words(b) } }
// ... what every reader checks before touching the payload
spec fn bloom_header_ok(b: Seq<u8>) -> bool {
    &&& b.len() >= 24 && b[1] == 1 && b[2] == 21 && 3 <= b[0] <= 4
    &&& 1 <= hdr_num_hashes(b) <= 0x7fff
    &&& 1 <= hdr_num_longs(b) <= 0x7fff_ffff
    &&& !hdr_empty(b) ==> b.len() >= 32 + 8 * hdr_num_longs(b)
}
// ... and the images a conforming writer can produce: preLongs agrees with the EMPTY flag; the stored count is DIRTY or the count
spec fn valid_bloom_image(b: Seq<u8>) -> bool {
    &&& bloom_header_ok(b)
    &&& hdr_empty(b) ==> b[0] == 3
    &&& !hdr_empty(b) ==> b[0] == 4 && (hdr_stored(b) == DIRTY || hdr_stored(b) == total_pc(dec_words(b)))
}

proof fn lemma_bloom_head(pre_longs: u8, flags: u8, v: BloomImg, tail: Seq<u8>)
  requires img_ok(v), 3 <= pre_longs <= 4, flags == 0 || flags == 4
  ensures ({ let b = bloom_head(pre_longs, flags, v) + tail;
     &&& bloom_head(pre_longs, flags, v).len() == 24
     &&& b[0] == pre_longs && b[1] == 1 && b[2] == 21 && hdr_empty(b) == (flags == 4)
     &&& hdr_num_hashes(b) == v.num_hashes && hdr_seed(b) == v.seed && hdr_num_longs(b) == v.words.len() })
{
    let b = bloom_head(pre_longs, flags, v) + tail;
    lemma_le16_roundtrip(v.num_hashes); lemma_le16_roundtrip(0); lemma_le64_roundtrip(v.seed); lemma_le32_roundtrip(v.words.len() as u32); lemma_le32_roundtrip(0);
    assert(b.subrange(4, 6) =~= le16_bytes(v.num_hashes));
    assert(b.subrange(8, 16) =~= le64_bytes(v.seed));
    assert(b.subrange(16, 20) =~= le32_bytes(v.words.len() as u32));
    assert(b[3] == flags);
    assert(0u8 & 4 == 0 && 4u8 & 4 != 0) by (bit_vector);
}
// C11 at spec level (lemma L): the spec decoder inverts the spec encoder on every variant, and every encoded image is valid
proof fn lemma_bloom_roundtrip_empty(v: BloomImg)
  requires img_ok(v), v.words == zeros(v.words.len() as int)
  ensures /*@C11.bloom.spec_roundtrip_empty*/ valid_bloom_image(enc_bloom_empty(v)) && dec_bloom(enc_bloom_empty(v)) == v, enc_bloom_empty(v).len() == 24
{
    lemma_bloom_head(3, 4, v, Seq::empty());
    assert(bloom_head(3, 4, v) + Seq::<u8>::empty() =~= enc_bloom_empty(v));
}
proof fn lemma_bloom_roundtrip_full(v: BloomImg, stored: u64)
  requires img_ok(v), stored == DIRTY || stored == total_pc(v.words)
  ensures /*@C11.bloom.spec_roundtrip_full*/ valid_bloom_image(enc_bloom_full(v, stored)) && dec_bloom(enc_bloom_full(v, stored)) == v,
    enc_bloom_full(v, stored).len() == 32 + 8 * v.words.len(), hdr_stored(enc_bloom_full(v, stored)) == stored, !hdr_empty(enc_bloom_full(v, stored)),
{
    let b = enc_bloom_full(v, stored);
    let tail = le64_bytes(stored) + enc_u64s(v.words);
    lemma_bloom_head(4, 0, v, tail);
    assert(bloom_head(4, 0, v) + tail =~= b);
    lemma_le64_roundtrip(stored); lemma_enc_u64s_len(v.words);
    assert(b.subrange(24, 32) =~= le64_bytes(stored));
    let h32 = bloom_head(4, 0, v) + le64_bytes(stored);
    assert(b =~= h32 + enc_u64s(v.words) + Seq::<u8>::empty());
    lemma_dec_enc_u64s_all(h32, v.words, Seq::empty());
}

// =====================================================================================================================
// bloom/sketch.rs
// =====================================================================================================================
const SERIAL_VERSION: u8 = 1;
const EMPTY_FLAG_MASK: u8 = 1 << 2;

struct BloomFilter {
    seed: u64,
    num_hashes: u16,
    num_bits_set: u64,
    bit_array: Box<[u64]>,
}

impl BloomFilter {
    // the invariant of unit bloom_core
    spec fn wf(&self) -> bool {
        &&& 1 <= self.bit_array@.len() <= 0x7fff_ffff
        &&& self.num_hashes >= 1
        &&& self.num_bits_set == total_pc(self.bit_array@)
    }
    // the builder's bound on the number of hash functions (BloomFilterBuilder::MAX_NUM_HASHES = i16::MAX)
    spec fn wf_k(&self) -> bool { self.num_hashes <= 0x7fff }
    spec fn img(&self) -> BloomImg { BloomImg { seed: self.seed, num_hashes: self.num_hashes, words: self.bit_array@ } }

    fn is_empty(&self) -> (r: bool) ensures r == (self.num_bits_set == 0) {
        self.num_bits_set == 0
    }

    fn serialize(&self) -> (r: Vec<u8>)
      requires self.wf(),
      ensures
        /*@C12.bloom.image*/ r@ == enc_bloom(self.img()),
        /*@C18.bloom.size*/ r@.len() == (if total_pc(self.bit_array@) == 0 { 24 } else { 32 + 8 * self.bit_array@.len() }),
    {
        let is_empty = self.is_empty();
        let preamble_longs = if is_empty {
            Family::BLOOMFILTER.min_pre_longs
        } else {
            Family::BLOOMFILTER.max_pre_longs
        };

        let capacity = 8 * preamble_longs as usize
            + if is_empty {
                0
            } else {
                self.bit_array.len() * 8
            };
        let mut bytes = SketchBytes::with_capacity(capacity);

        // Preamble
        bytes.write_u8(preamble_longs); // Byte 0
        bytes.write_u8(SERIAL_VERSION); // Byte 1
        bytes.write_u8(Family::BLOOMFILTER.id); // Byte 2
        proof { assert(1u8 << 2 == 4u8) by (bit_vector); }
        bytes.write_u8(if is_empty { EMPTY_FLAG_MASK } else { 0 }); // Byte 3: flags
        bytes.write_u16_le(self.num_hashes); // Bytes 4-5
        bytes.write_u16_le(0); // Bytes 6-7: unused

        bytes.write_u64_le(self.seed);

        // Bit array capacity is stored as number of 64-bit words (int32) + unused padding (uint32).
        let num_longs = self.bit_array.len() as i32;
        bytes.write_i32_le(num_longs);
        bytes.write_u32_le(0); // unused
        let ghost v = self.img();
        proof {
            assert(/*@C12.bloom.image*/ bytes@ =~= bloom_head(preamble_longs, if is_empty { 4u8 } else { 0u8 }, v));
        }

        if !is_empty {
            bytes.write_u64_le(self.num_bits_set);
            let ghost head = bytes@;

            // Bit array
            let mut vx_i1 = 0;
            while vx_i1 < self.bit_array.len()
              invariant vx_i1 <= self.bit_array@.len(),
                /*@C12.bloom.image*/ bytes@ == head + enc_u64s(self.bit_array@.take(vx_i1 as int)),
              decreases self.bit_array@.len() - vx_i1
            {
                let word = self.bit_array[vx_i1];
                bytes.write_u64_le(word);
                proof {
                    assert(self.bit_array@.take(vx_i1 as int + 1) =~= self.bit_array@.take(vx_i1 as int).push(word));
                    lemma_enc_u64s_push(self.bit_array@.take(vx_i1 as int), word);
                    assert(head + enc_u64s(self.bit_array@.take(vx_i1 as int)) + le64_bytes(word) =~= head + (enc_u64s(self.bit_array@.take(vx_i1 as int)) + le64_bytes(word)));
                }
                vx_i1 += 1;
            }
            proof {
                assert(self.bit_array@.take(self.bit_array@.len() as int) =~= self.bit_array@);
                assert(/*@C12.bloom.image*/ bytes@ =~= enc_bloom_full(v, self.num_bits_set));
                lemma_enc_u64s_len(self.bit_array@);
            }
        }

        bytes.into_bytes()
    }

    fn deserialize(bytes: &[u8]) -> (r: Result<Self, Error>)
      ensures
        /*@C13.bloom.accepts*/ valid_bloom_image(bytes@) ==> r is Ok,
        /*@C13.bloom.config*/ r matches Ok(f) ==> f.seed == hdr_seed(bytes@) && f.num_hashes == hdr_num_hashes(bytes@),
        /*@C13.bloom.words*/ r matches Ok(f) ==> f.bit_array@ == dec_words(bytes@),
        /*@C13.bloom.view*/ r matches Ok(f) ==> f.img() == dec_bloom(bytes@),
        /*@C13.bloom.count_empty*/ r matches Ok(f) ==> hdr_empty(bytes@) ==> f.num_bits_set == 0 && f.num_bits_set == total_pc(f.bit_array@),
        /*@C13.bloom.count_dirty*/ r matches Ok(f) ==> !hdr_empty(bytes@) && hdr_stored(bytes@) == DIRTY ==> f.num_bits_set == total_pc(f.bit_array@),
        /*@C13.bloom.count_stored*/ r matches Ok(f) ==> valid_bloom_image(bytes@) && !hdr_empty(bytes@) && hdr_stored(bytes@) != DIRTY ==> f.num_bits_set == hdr_stored(bytes@),
        /*@C13.bloom.wf*/ valid_bloom_image(bytes@) ==> (r matches Ok(f) && f.wf() && f.wf_k()),
        /*@C14.bloom.rejects*/ r is Ok ==> bloom_header_ok(bytes@),
        /*@C14.bloom.wf_shape*/ r matches Ok(f) ==> 1 <= f.bit_array@.len() <= 0x7fff_ffff && 1 <= f.num_hashes <= 0x7fff,
        /*@C14.bloom.wf_count*/ r matches Ok(f) ==> f.num_bits_set == total_pc(f.bit_array@),
        /*@C09.bloom.count_after_deserialize*/ r matches Ok(f) ==> f.num_bits_set == total_pc(f.bit_array@),
    {
        let mut cursor = SketchSlice::new(bytes);
        let ghost b = bytes@;

        // Read preamble
        let preamble_longs = cursor
            .read_u8()
            .vx_io("preamble_longs")?;
        let serial_version = cursor
            .read_u8()
            .vx_io("serial_version")?;
        let family_id = cursor.read_u8().vx_io("family_id")?;

        // Byte 3: flags byte (directly after family_id)
        let flags = cursor.read_u8().vx_io("flags")?;

        // Validate
        Family::BLOOMFILTER.validate_id(family_id)?;
        ensure_serial_version_is(SERIAL_VERSION, serial_version)?;
        vx_ensure_preamble_longs_in_range(
            Family::BLOOMFILTER.min_pre_longs, Family::BLOOMFILTER.max_pre_longs,
            preamble_longs)?;

        proof { assert(1u8 << 2 == 4u8) by (bit_vector); assert((flags & 4 == 4) == (flags & 4 != 0)) by (bit_vector); }
        let is_empty = (flags & EMPTY_FLAG_MASK) != 0;

        // Bytes 4-5: num_hashes (u16)
        let num_hashes = cursor
            .read_u16_le()
            .vx_io("num_hashes")?;
        if num_hashes == 0 || num_hashes > i16::MAX as u16 {
            return Err(Error::deserial(format!(
                "invalid num_hashes: expected [1, {}], got {}",
                i16::MAX,
                num_hashes
            )));
        }
        // Bytes 6-7: unused (u16)
        let _unused = cursor
            .read_u16_le()
            .vx_io("unused_header")?;
        let seed = cursor.read_u64_le().vx_io("seed")?;

        // Bit array capacity is stored as number of 64-bit words (int32) + unused padding (uint32).
        let num_longs = cursor
            .read_i32_le()
            .vx_io("num_longs")?;
        let _unused = cursor.read_u32_le().vx_io("unused")?;

        if num_longs <= 0 {
            return Err(Error::deserial(format!(
                "invalid num_longs: expected at least 1, got {}",
                num_longs
            )));
        }

        let num_words = num_longs as usize;
        let mut bit_array = vx_alloc_vec(0u64, num_words, Ghost((b.len() as int, if is_empty { BLOOM_CONFIG_MAX_EMPTY } else { 0int }))).into_boxed_slice();
        let num_bits_set;

        if is_empty {
            num_bits_set = 0;
            proof {
                assert(bit_array@ =~= zeros(num_words as int));
                lemma_total_zero(bit_array@);
            }
        } else {
            let raw_num_bits_set = cursor
                .read_u64_le()
                .vx_io("num_bits_set")?;

            let mut vx_i1 = 0;
            while vx_i1 < bit_array.len()
              invariant vx_i1 <= num_words, bit_array@.len() == num_words, b == bytes@, b.len() >= 32, num_words <= 0x7fff_ffff,
                cursor.data() == b, cursor.pos() == 32 + 8 * vx_i1,
                /*@C13.bloom.words*/ forall|j: int| 0 <= j < vx_i1 ==> bit_array@[j] == dec_u64_at(b, 32, j),
                b.len() >= 32 + 8 * vx_i1,
                /*@C13.bloom.accepts*/ valid_bloom_image(b) ==> b.len() >= 32 + 8 * num_words,
              decreases num_words - vx_i1
            {
                let word = &mut bit_array[vx_i1];
                *word = cursor
                    .read_u64_le()
                    .vx_io("bit_array")?;
                vx_i1 += 1;
            }
            proof { assert(bit_array@ =~= dec_u64s(b, 32, num_words as int)); }

            // Handle "dirty" state: 0xFFFFFFFFFFFFFFFF indicates bits need recounting
            const DIRTY_BITS_VALUE: u64 = 0xFFFFFFFFFFFFFFFF;
            if raw_num_bits_set == DIRTY_BITS_VALUE {
                num_bits_set = vx_sum_count_ones(&bit_array);
            } else {
                proof { lemma_total_le(bit_array@); }
                let raw_num_words_set = raw_num_bits_set.div_ceil(64) as usize;
                if raw_num_words_set > num_words {
                    return Err(Error::deserial(format!(
                        "invalid num_bits_set: expected <= {}, got {}",
                        num_words * 64,
                        raw_num_bits_set
                    )));
                }
                num_bits_set = raw_num_bits_set;
            }
        }

        Ok(BloomFilter {
            seed,
            num_hashes,
            num_bits_set,
            bit_array,
        })
    }
}

// =====================================================================================================================
// C11 over both contracts: a verified client that serializes and parses back.  Not real code; it exists so that Verus composes the
// two contracts with lemma L.
// =====================================================================================================================
fn c11_roundtrip_bloom(a: &BloomFilter) -> (f: BloomFilter)
  requires a.wf(), a.wf_k(),
  ensures /*@C11.bloom.roundtrip*/ f.img() == a.img(), /*@C11.bloom.count*/ f.num_bits_set == a.num_bits_set, /*@C11.bloom.wf*/ f.wf() && f.wf_k(),
{
    let img = a.serialize();
    proof {
        let v = a.img();
        if total_pc(v.words) == 0 {
            lemma_total_zero_conv(v.words);
            lemma_bloom_roundtrip_empty(v);
        } else {
            lemma_total_le(v.words);
            lemma_bloom_roundtrip_full(v, total_pc(v.words) as u64);
        }
    }
    let r = BloomFilter::deserialize(img.as_slice());
    match r {
        Ok(f) => f,
        Err(_) => { proof { assert(false); } c11_unreachable() }
    }
}
#[verifier::external_body] fn c11_unreachable() -> BloomFilter requires false { unreachable!() }

}
fn main(){}
