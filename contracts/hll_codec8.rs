#![feature(allocator_api)]
use vstd::prelude::*;
use vstd::arithmetic::power2::*;
use std::io;
use std::io::Cursor;
use std::io::Read;
verus! {
global size_of usize == 8;
pub assume_specification<T, A: std::alloc::Allocator> [std::vec::Vec::<T, A>::into_boxed_slice] (v: std::vec::Vec<T, A>) -> (r: std::boxed::Box<[T], A>)
  ensures r@ == v@;

// =====================================================================================================================
// Little-endian byte codecs: interpreted on both sides, the round trip is a lemma (no axiom)
// =====================================================================================================================
spec fn le32_bytes(n: u32) -> Seq<u8> { seq![(n & 0xff) as u8, ((n >> 8) & 0xff) as u8, ((n >> 16) & 0xff) as u8, ((n >> 24) & 0xff) as u8] }
spec fn le64_bytes(n: u64) -> Seq<u8> { le32_bytes((n & 0xffff_ffff) as u32) + le32_bytes((n >> 32) as u32) }
spec fn le32_val(b: Seq<u8>) -> u32 { (b[0] as u32) | ((b[1] as u32) << 8) | ((b[2] as u32) << 16) | ((b[3] as u32) << 24) }
spec fn le64_val(b: Seq<u8>) -> u64 { (le32_val(b.subrange(0, 4)) as u64) | ((le32_val(b.subrange(4, 8)) as u64) << 32) }

proof fn lemma_le32_roundtrip(n: u32) ensures le32_val(le32_bytes(n)) == n, le32_bytes(n).len() == 4 {
    let b0 = (n & 0xff) as u8; let b1 = ((n >> 8) & 0xff) as u8; let b2 = ((n >> 16) & 0xff) as u8; let b3 = ((n >> 24) & 0xff) as u8;
    assert((b0 as u32) | ((b1 as u32) << 8) | ((b2 as u32) << 16) | ((b3 as u32) << 24) == n) by (bit_vector)
      requires b0 == (n & 0xff) as u8, b1 == ((n >> 8) & 0xff) as u8, b2 == ((n >> 16) & 0xff) as u8, b3 == ((n >> 24) & 0xff) as u8;
}
proof fn lemma_le64_roundtrip(n: u64) ensures le64_val(le64_bytes(n)) == n, le64_bytes(n).len() == 8 {
    let lo = (n & 0xffff_ffff) as u32; let hi = (n >> 32) as u32;
    lemma_le32_roundtrip(lo); lemma_le32_roundtrip(hi);
    assert(le64_bytes(n).subrange(0, 4) =~= le32_bytes(lo));
    assert(le64_bytes(n).subrange(4, 8) =~= le32_bytes(hi));
    assert((lo as u64) | ((hi as u64) << 32) == n) by (bit_vector) requires lo == (n & 0xffff_ffff) as u32, hi == (n >> 32) as u32;
}
// floats travel as their bit patterns; the only fact used is that from_bits/to_bits is the identity on bit patterns
uninterp spec fn f64_bits(x: f64) -> u64;
uninterp spec fn f64_of_bits(b: u64) -> f64;
#[verifier::external_body] proof fn axiom_f64_bits_roundtrip(b: u64) ensures f64_bits(f64_of_bits(b)) == b {}
#[verifier::external_body] proof fn axiom_f64_of_bits_roundtrip(x: f64) ensures f64_of_bits(f64_bits(x)) == x {}

// std leaves (R4 rewrites of uN::from_le_bytes / n.to_le_bytes())
#[verifier::external_body] fn vx_u32_from_le_bytes(b: [u8; 4]) -> (r: u32) ensures r == le32_val(b@) { u32::from_le_bytes(b) }
#[verifier::external_body] fn vx_f64_from_le_bytes(b: [u8; 8]) -> (r: f64) ensures r == f64_of_bits(le64_val(b@)) { f64::from_le_bytes(b) }
#[verifier::external_body] fn vx_u32_to_le_bytes(n: u32) -> (r: [u8; 4]) ensures r@ == le32_bytes(n) { n.to_le_bytes() }
#[verifier::external_body] fn vx_f64_to_le_bytes(n: f64) -> (r: [u8; 8]) ensures r@ == le64_bytes(f64_bits(n)) { n.to_le_bytes() }

// =====================================================================================================================
// error / io shims
// =====================================================================================================================
#[verifier::external_type_specification]
#[verifier::external_body]
pub struct ExIoError(std::io::Error);

struct Error { k: u8 }
trait VxIo<T> { fn vx_io(self, tag: &'static str) -> Result<T, Error>; }
impl<T> VxIo<T> for Result<T, std::io::Error> {
  // R2: `.map_err(insufficient_data(tag))`
  #[verifier::external_body]
  fn vx_io(self, tag: &'static str) -> (r: Result<T, Error>)
    ensures self matches Ok(v) ==> r == Ok::<T, Error>(v), self is Err ==> r is Err
  { unimplemented!() }
}

// the largest register array a valid lg_k (<= 21) permits: 2^21 bytes
spec const MAX_REG_BYTES: usize = 0x20_0000;
// `vec![0u8; n]` in the parsers: the allocation bound of C14 is the precondition
#[verifier::external_body]
fn vx_zeroed_u8(n: usize) -> (r: Vec<u8>)
  requires /*@C14.hll.alloc_bounded*/ n <= MAX_REG_BYTES
  ensures r@.len() == n, forall|i: int| 0 <= i < n ==> r@[i] == 0u8
{ vec![0u8; n] }

// =====================================================================================================================
// codec/encode.rs: SketchBytes, real bodies, view = the bytes written so far
// =====================================================================================================================
struct SketchBytes {
    bytes: Vec<u8>,
}

impl SketchBytes {
    spec fn view(&self) -> Seq<u8> { self.bytes@ }

    fn with_capacity(capacity: usize) -> (r: Self) ensures r@ == Seq::<u8>::empty() {
        Self {
            bytes: Vec::with_capacity(capacity),
        }
    }

    fn into_bytes(self) -> (r: Vec<u8>) ensures r@ == self@ {
        self.bytes
    }

    fn write(&mut self, buf: &[u8]) ensures final(self)@ == old(self)@ + buf@ {
        self.bytes.extend_from_slice(buf);
    }

    fn write_u8(&mut self, n: u8) ensures final(self)@ == old(self)@.push(n) {
        self.bytes.push(n);
    }

    fn write_u32_le(&mut self, n: u32) ensures final(self)@ == old(self)@ + le32_bytes(n) {
        self.write(&vx_u32_to_le_bytes(n));
    }

    fn write_f64_le(&mut self, n: f64) ensures final(self)@ == old(self)@ + le64_bytes(f64_bits(n)) {
        self.write(&vx_f64_to_le_bytes(n));
    }
}

// =====================================================================================================================
// codec/decode.rs: SketchSlice; the std Cursor is abstracted by rem() = the bytes not yet consumed.
// read_exact (std::io::Read on Cursor<&[u8]>) is the only assumed leaf; read_u8 / read_u32_le / read_f64_le are real bodies.
// =====================================================================================================================
#[verifier::external_body]
struct SketchSlice<'a> {
    slice: Cursor<&'a [u8]>,
}

impl SketchSlice<'_> {
    uninterp spec fn rem(&self) -> Seq<u8>;

    #[verifier::external_body]
    fn new(slice: &[u8]) -> (r: SketchSlice<'_>) ensures r.rem() == slice@ {
        unimplemented!()
    }

    #[verifier::external_body]
    fn read_exact(&mut self, buf: &mut [u8]) -> (r: io::Result<()>)
      ensures
        old(self).rem().len() >= old(buf)@.len() ==> (r is Ok && final(buf)@ == old(self).rem().take(old(buf)@.len() as int) && final(self).rem() == old(self).rem().skip(old(buf)@.len() as int)),
        old(self).rem().len() < old(buf)@.len() ==> r is Err,
        final(buf)@.len() == old(buf)@.len(),
    {
        unimplemented!()
    }

    fn read_u8(&mut self) -> (r: io::Result<u8>)
      ensures
        old(self).rem().len() >= 1 ==> (r matches Ok(v) && v == old(self).rem()[0] && final(self).rem() == old(self).rem().skip(1)),
        old(self).rem().len() < 1 ==> r is Err,
    {
        let mut buf = [0u8; 1];
        self.read_exact(&mut buf)?;
        Ok(buf[0])
    }

    fn read_u32_le(&mut self) -> (r: io::Result<u32>)
      ensures
        old(self).rem().len() >= 4 ==> (r matches Ok(v) && v == le32_val(old(self).rem().take(4)) && final(self).rem() == old(self).rem().skip(4)),
        old(self).rem().len() < 4 ==> r is Err,
    {
        let mut buf = [0u8; 4];
        self.read_exact(&mut buf)?;
        Ok(vx_u32_from_le_bytes(buf))
    }

    fn read_f64_le(&mut self) -> (r: io::Result<f64>)
      ensures
        old(self).rem().len() >= 8 ==> (r matches Ok(v) && v == f64_of_bits(le64_val(old(self).rem().take(8))) && final(self).rem() == old(self).rem().skip(8)),
        old(self).rem().len() < 8 ==> r is Err,
    {
        let mut buf = [0u8; 8];
        self.read_exact(&mut buf)?;
        Ok(vx_f64_from_le_bytes(buf))
    }
}

// =====================================================================================================================
// hll/serialization.rs, codec/family.rs: constants and the mode byte (taken from /repo every run)
// =====================================================================================================================
const SERIAL_VERSION: u8 = 1;
const OUT_OF_ORDER_FLAG_MASK: u8 = 16;
const HLL_PREINTS: u8 = 10;
const HLL_PREAMBLE_SIZE: usize = 40;
const CUR_MODE_HLL: u8 = 2;
const TGT_HLL8: u8 = 2;

struct Family {
    id: u8,
    name: &'static str,
    min_pre_longs: u8,
    max_pre_longs: u8,
}

impl Family {
    const HLL: Family = Family {
        id: 7,
        name: "HLL",
        min_pre_longs: 1,
        max_pre_longs: 1,
    };
}

fn encode_mode_byte(cur_mode: u8, tgt_type: u8) -> (r: u8) ensures r == (cur_mode & 0x3) | ((tgt_type & 0x3) << 2) {
    proof {
        let a = cur_mode; let b = tgt_type;
        assert(a & 0x3 == a % 4 && b & 0x3 == b % 4 && (b & 0x3) << 2 == (b % 4) * 4 && (b % 4) * 4 <= 12 && (a & 0x3) | ((b & 0x3) << 2) == ((b & 0x3) << 2) | (a & 0x3)) by (bit_vector);
    }
    (cur_mode & 0x3) | ((tgt_type & 0x3) << 2)
}

// =====================================================================================================================
// hll/estimator.rs: accessors are real bodies; `new` is float code, by contract
// =====================================================================================================================
struct HipEstimator {
    hip_accum: f64,
    kxq0: f64,
    kxq1: f64,
    out_of_order: bool,
}

impl HipEstimator {
    #[verifier::external_body]
    fn new(lg_config_k: u8) -> (r: Self)
      requires lg_config_k < 32
      ensures !r.out_of_order
    { unimplemented!() }

    fn hip_accum(&self) -> (r: f64) ensures r == self.hip_accum {
        self.hip_accum
    }

    fn kxq0(&self) -> (r: f64) ensures r == self.kxq0 {
        self.kxq0
    }

    fn kxq1(&self) -> (r: f64) ensures r == self.kxq1 {
        self.kxq1
    }

    fn is_out_of_order(&self) -> (r: bool) ensures r == self.out_of_order {
        self.out_of_order
    }

    fn set_out_of_order(&mut self, ooo: bool)
      ensures final(self).out_of_order == ooo, final(self).kxq0 == old(self).kxq0, final(self).kxq1 == old(self).kxq1,
              !ooo ==> final(self).hip_accum == old(self).hip_accum,
              ooo ==> final(self).hip_accum == 0.0f64,
    {
        self.out_of_order = ooo;
        if ooo {
            self.hip_accum = 0.0;
        }
    }

    fn set_hip_accum(&mut self, value: f64)
      ensures final(self).hip_accum == value, final(self).kxq0 == old(self).kxq0, final(self).kxq1 == old(self).kxq1, final(self).out_of_order == old(self).out_of_order
    {
        self.hip_accum = value;
    }

    fn set_kxq0(&mut self, value: f64)
      ensures final(self).kxq0 == value, final(self).hip_accum == old(self).hip_accum, final(self).kxq1 == old(self).kxq1, final(self).out_of_order == old(self).out_of_order
    {
        self.kxq0 = value;
    }

    fn set_kxq1(&mut self, value: f64)
      ensures final(self).kxq1 == value, final(self).hip_accum == old(self).hip_accum, final(self).kxq0 == old(self).kxq0, final(self).out_of_order == old(self).out_of_order
    {
        self.kxq1 = value;
    }
}

// =====================================================================================================================
// FORMAT SPEC (DESIGN.md Appendix A, "HLL"), HLL mode images.  Written from the published layout, not from the Rust code.
//   0 preInts=10 | 1 serVer=1 | 2 famID=7 | 3 lgK | 4 lgArr (unused: 0) | 5 flags: COMPACT 8, OUT_OF_ORDER 16 | 6 curMin | 7 mode: curMode(2) | tgt<<2
//   8 hipAccum f64 | 16 kxq0 f64 | 24 kxq1 f64 | 32 curMinCount u32 | 36 auxCount u32 | 40 register bytes, ALWAYS present
// =====================================================================================================================
// the abstract content of an HLL8 / HLL6 array-mode sketch (floats as bit patterns)
ghost struct HllArr {
    lg_k: u8,
    ooo: bool,
    hip: u64,
    kxq0: u64,
    kxq1: u64,
    num_zeros: u32,
    regs: Seq<u8>,      // the register section of the image
}
spec fn pow2k(l: u8) -> int { pow2(l as nat) as int }
spec fn hll_flags(compact: bool, ooo: bool) -> u8 { ((if compact { 8int } else { 0int }) + (if ooo { 16int } else { 0int })) as u8 }
spec fn hll_mode_byte(cur_mode: u8, tgt: u8) -> u8 { (cur_mode as int + 4 * (tgt as int)) as u8 }
// the spec ENCODER: any writer (Java, C++, this crate); `compact` is a flag Java/C++ may set, it never changes the array section
spec fn enc_hll_arr(tgt: u8, compact: bool, v: HllArr) -> Seq<u8> {
    seq![10u8, 1u8, 7u8, v.lg_k, 0u8, hll_flags(compact, v.ooo), 0u8, hll_mode_byte(2, tgt)]
      + le64_bytes(v.hip) + le64_bytes(v.kxq0) + le64_bytes(v.kxq1) + le32_bytes(v.num_zeros) + le32_bytes(0) + v.regs
}
spec fn enc_hll8(v: HllArr) -> Seq<u8> { enc_hll_arr(2, false, v) }
// the spec DECODER: header fields of an image ...
spec fn hdr_lg_k(img: Seq<u8>) -> u8 { img[3] }
spec fn hdr_compact(img: Seq<u8>) -> bool { img[5] & 8 != 0 }
spec fn hdr_ooo(img: Seq<u8>) -> bool { img[5] & 16 != 0 }
spec fn hdr_cur_mode(img: Seq<u8>) -> u8 { img[7] & 3 }
spec fn hdr_tgt(img: Seq<u8>) -> u8 { (img[7] >> 2) & 3 }
// ... and of the payload p = img.skip(8) (where HllSketch::deserialize hands the cursor to the array parsers)
spec fn valid_hll_arr_payload(p: Seq<u8>, nregbytes: int) -> bool { p.len() >= 32 + nregbytes }
spec fn dec_hip_bits(p: Seq<u8>) -> u64 { le64_val(p.subrange(0, 8)) }
spec fn dec_kxq0_bits(p: Seq<u8>) -> u64 { le64_val(p.subrange(8, 16)) }
spec fn dec_kxq1_bits(p: Seq<u8>) -> u64 { le64_val(p.subrange(16, 24)) }
spec fn dec_num_zeros(p: Seq<u8>) -> u32 { le32_val(p.subrange(24, 28)) }
spec fn dec_regs(p: Seq<u8>, nregbytes: int) -> Seq<u8> { p.subrange(32, 32 + nregbytes) }
spec fn dec_hll_arr(p: Seq<u8>, lg_k: u8, ooo: bool, nregbytes: int) -> HllArr {
    HllArr { lg_k, ooo, hip: dec_hip_bits(p), kxq0: dec_kxq0_bits(p), kxq1: dec_kxq1_bits(p), num_zeros: dec_num_zeros(p), regs: dec_regs(p, nregbytes) }
}
spec fn count_zeros(s: Seq<u8>) -> nat decreases s.len() { if s.len() == 0 { 0 } else { count_zeros(s.drop_last()) + (if s.last() == 0 { 1nat } else { 0nat }) } }

// C11 at spec level: the spec decoder inverts the spec encoder, whatever the COMPACT flag
proof fn lemma_hll_arr_roundtrip(tgt: u8, compact: bool, v: HllArr)
  requires tgt <= 2
  ensures ({ let img = enc_hll_arr(tgt, compact, v); let p = img.skip(8);
     &&& img.len() == 40 + v.regs.len()
     &&& img[0] == 10 && img[1] == 1 && img[2] == 7
     &&& hdr_lg_k(img) == v.lg_k &&& hdr_compact(img) == compact &&& hdr_ooo(img) == v.ooo &&& hdr_cur_mode(img) == 2 &&& hdr_tgt(img) == tgt
     &&& valid_hll_arr_payload(p, v.regs.len() as int)
     &&& dec_hll_arr(p, v.lg_k, v.ooo, v.regs.len() as int) == v })
{
    let img = enc_hll_arr(tgt, compact, v); let p = img.skip(8);
    lemma_le64_roundtrip(v.hip); lemma_le64_roundtrip(v.kxq0); lemma_le64_roundtrip(v.kxq1); lemma_le32_roundtrip(v.num_zeros); lemma_le32_roundtrip(0);
    assert(p.subrange(0, 8) =~= le64_bytes(v.hip));
    assert(p.subrange(8, 16) =~= le64_bytes(v.kxq0));
    assert(p.subrange(16, 24) =~= le64_bytes(v.kxq1));
    assert(p.subrange(24, 28) =~= le32_bytes(v.num_zeros));
    assert(dec_regs(p, v.regs.len() as int) =~= v.regs);
    let f = hll_flags(compact, v.ooo); let m = hll_mode_byte(2, tgt);
    assert(img[5] == f && img[7] == m);
    assert((f == 0 || f == 8 || f == 16 || f == 24) ==> ((f & 8 != 0) == (f == 8 || f == 24)) && ((f & 16 != 0) == (f == 16 || f == 24))) by (bit_vector);
    assert((m == 2 ==> (m & 3 == 2) && ((m >> 2) & 3 == 0)) && (m == 6 ==> (m & 3 == 2) && ((m >> 2) & 3 == 1)) && (m == 10 ==> (m & 3 == 2) && ((m >> 2) & 3 == 2))) by (bit_vector);
}

// =====================================================================================================================
// hll/array8.rs
// =====================================================================================================================
struct Array8 {
    lg_config_k: u8,
    bytes: Box<[u8]>,
    num_zeros: u32,
    estimator: HipEstimator,
}

impl Array8 {
    // abstract view: register i IS bytes[i]
    spec fn aview(&self) -> HllArr {
        HllArr { lg_k: self.lg_config_k, ooo: self.estimator.out_of_order, hip: f64_bits(self.estimator.hip_accum), kxq0: f64_bits(self.estimator.kxq0),
                 kxq1: f64_bits(self.estimator.kxq1), num_zeros: self.num_zeros, regs: self.bytes@ }
    }
    // the part of the invariant the codec needs
    spec fn wf_shape(&self) -> bool { 4 <= self.lg_config_k <= 21 && self.bytes@.len() == pow2k(self.lg_config_k) }
    // what update / merge / estimate rely on (update: `num_zeros -= 1` when a zero register is hit; rebuild_cached_values: `1u64 << val`;
    // get_bitmap_estimate: `k - num_unhit`)
    spec fn wf_num_zeros(&self) -> bool { self.num_zeros == count_zeros(self.bytes@) }
    spec fn wf_reg_range(&self) -> bool { forall|i: int| 0 <= i < self.bytes@.len() ==> #[trigger] self.bytes@[i] <= 63 }
    spec fn wf_ooo_hip(&self) -> bool { self.estimator.out_of_order ==> self.estimator.hip_accum == 0.0f64 }
    spec fn wf(&self) -> bool { self.wf_shape() && self.wf_num_zeros() && self.wf_reg_range() && self.wf_ooo_hip() }

    fn deserialize(
        mut cursor: SketchSlice,
        lg_config_k: u8,
        _compact: bool,
        ooo: bool,
    ) -> (r: Result<Self, Error>)
      requires 4 <= lg_config_k <= 21,      // validated by HllSketch::deserialize before dispatch; the BYTES are arbitrary
      ensures
        /*@C13.hll8.accepts*/ valid_hll_arr_payload(cursor.rem(), pow2k(lg_config_k)) ==> r is Ok,
        /*@C14.hll8.rejects_truncated*/ !valid_hll_arr_payload(cursor.rem(), pow2k(lg_config_k)) ==> r is Err,
        /*@C13.hll8.lg_k*/ r matches Ok(a) ==> a.lg_config_k == lg_config_k,
        /*@C13.hll8.regs*/ r matches Ok(a) ==> a.bytes@ == dec_regs(cursor.rem(), pow2k(lg_config_k)),
        /*@C13.hll8.num_zeros*/ r matches Ok(a) ==> a.num_zeros == dec_num_zeros(cursor.rem()),
        /*@C13.hll8.ooo*/ r matches Ok(a) ==> a.estimator.out_of_order == ooo,
        /*@C13.hll8.kxq*/ r matches Ok(a) ==> f64_bits(a.estimator.kxq0) == dec_kxq0_bits(cursor.rem()) && f64_bits(a.estimator.kxq1) == dec_kxq1_bits(cursor.rem()),
        /*@C13.hll8.hip*/ r matches Ok(a) ==> !ooo ==> f64_bits(a.estimator.hip_accum) == dec_hip_bits(cursor.rem()),
        // out-of-order images: the HIP accumulator is meaningless and is normalised to 0.0 (set_out_of_order)
        /*@C13.hll8.view*/ r matches Ok(a) ==> a.aview() == (HllArr { hip: if ooo { f64_bits(0.0f64) } else { dec_hip_bits(cursor.rem()) }, ..dec_hll_arr(cursor.rem(), lg_config_k, ooo, pow2k(lg_config_k)) }),
        /*@C14.hll8.wf_shape*/ r matches Ok(a) ==> a.wf_shape(),
        /*@C14.hll8.wf_ooo_hip*/ r matches Ok(a) ==> a.wf_ooo_hip(),
        /*@C14.hll8.wf_num_zeros*/ r matches Ok(a) ==> a.wf_num_zeros(),
        /*@C14.hll8.wf_reg_range*/ r matches Ok(a) ==> a.wf_reg_range(),
    {
        proof { lemma2_to64(); lemma_shl_k(lg_config_k); }
        let k = 1usize << lg_config_k;
        let ghost p0 = cursor.rem();

        // Read HIP estimator values from preamble
        let hip_accum = cursor
            .read_f64_le()
            .vx_io("hip_accum")?;
        let kxq0 = cursor.read_f64_le().vx_io("kxq0")?;
        let kxq1 = cursor.read_f64_le().vx_io("kxq1")?;

        // Read num_at_cur_min (for Array8, this is num_zeros since cur_min=0)
        let num_zeros = cursor
            .read_u32_le()
            .vx_io("num_zeros")?;
        let _aux_count = cursor
            .read_u32_le()
            .vx_io("aux_count")?; // always 0

        // Read byte array from offset HLL_BYTE_ARR_START
        let mut data = vx_zeroed_u8(k);
        // the register array is present in compact images too (the flag only changes the Hll4 aux layout)
        cursor
            .read_exact(&mut data)
            .vx_io("data")?;

        // Create estimator and restore state
        let mut estimator = HipEstimator::new(lg_config_k);
        estimator.set_hip_accum(hip_accum);
        estimator.set_kxq0(kxq0);
        estimator.set_kxq1(kxq1);
        estimator.set_out_of_order(ooo);
        proof {
            axiom_f64_bits_roundtrip(le64_val(p0.subrange(0, 8)));
            axiom_f64_bits_roundtrip(le64_val(p0.subrange(8, 16)));
            axiom_f64_bits_roundtrip(le64_val(p0.subrange(16, 24)));
            assert(p0.take(8) =~= p0.subrange(0, 8));
            assert(p0.skip(8).take(8) =~= p0.subrange(8, 16));
            assert(p0.skip(8).skip(8).take(8) =~= p0.subrange(16, 24));
            assert(p0.skip(8).skip(8).skip(8).take(4) =~= p0.subrange(24, 28));
            assert(p0.skip(8).skip(8).skip(8).skip(4).skip(4).take(pow2k(lg_config_k)) =~= dec_regs(p0, pow2k(lg_config_k)));
        }

        Ok(Self {
            lg_config_k,
            bytes: data.into_boxed_slice(),
            num_zeros,
            estimator,
        })
    }

    fn serialize(&self, lg_config_k: u8) -> (r: Vec<u8>)
      requires self.wf_shape(), lg_config_k == self.lg_config_k
      ensures
        /*@C12.hll8.image*/ r@ == enc_hll8(self.aview()),
        /*@C18.hll8.size*/ r@.len() == 40 + pow2k(lg_config_k),
    {
        proof { lemma_shl_k32(lg_config_k); }
        let k = 1 << lg_config_k;
        let total_size = HLL_PREAMBLE_SIZE + k as usize;
        let mut bytes = SketchBytes::with_capacity(total_size);

        // Write standard header
        bytes.write_u8(HLL_PREINTS);
        bytes.write_u8(SERIAL_VERSION);
        bytes.write_u8(Family::HLL.id);
        bytes.write_u8(lg_config_k);
        bytes.write_u8(0); // unused for HLL mode

        // Write flags
        let mut flags = 0u8;
        if self.estimator.is_out_of_order() {
            flags |= OUT_OF_ORDER_FLAG_MASK;
        }
        bytes.write_u8(flags);

        // cur_min is always 0 for Array8
        bytes.write_u8(0);

        // Mode byte: HLL mode with HLL8 type
        bytes.write_u8(encode_mode_byte(CUR_MODE_HLL, TGT_HLL8));
        proof { assert((2u8 & 0x3) | ((2u8 & 0x3) << 2) == 10u8) by (bit_vector); assert(0u8 | 16u8 == 16u8) by (bit_vector); }

        // Write HIP estimator values
        bytes.write_f64_le(self.estimator.hip_accum());
        bytes.write_f64_le(self.estimator.kxq0());
        bytes.write_f64_le(self.estimator.kxq1());

        // Write num_at_cur_min (num_zeros for Array8)
        bytes.write_u32_le(self.num_zeros);

        // Write aux_count (always 0 for Array8)
        bytes.write_u32_le(0);

        // Write byte array
        bytes.write(&self.bytes);

        proof {
            assert(bytes@ =~= enc_hll8(self.aview()));
            lemma_hll_arr_roundtrip(2, false, self.aview());
        }
        bytes.into_bytes()
    }
}


// =====================================================================================================================
// hll/array6.rs: 6-bit registers packed little-endian: register i occupies bits [6i, 6i+6) of the register section, which has
// 3k/4 + 1 bytes (Java hll6ArrBytes)
// =====================================================================================================================
const VAL_MASK_6: u16 = 0x3F;
const TGT_HLL6: u8 = 1;
spec fn le16_val(b: Seq<u8>) -> u16 { (b[0] as u16) | ((b[1] as u16) << 8) }
#[verifier::external_body] fn vx_u16_from_le_bytes(b: [u8; 2]) -> (r: u16) ensures r == le16_val(b@) { u16::from_le_bytes(b) }
spec fn enc_hll6(v: HllArr) -> Seq<u8> { enc_hll_arr(1, false, v) }
spec fn nreg6(l: u8) -> int { 3 * pow2k(l) / 4 + 1 }
// the format's definition of register i of an HLL6 register section
spec fn hll6_reg(regs: Seq<u8>, i: int) -> u8 {
    let j = (6 * i) / 8; let sh = ((6 * i) % 8) as u16;
    (((((regs[j] as u16) | ((regs[j + 1] as u16) << 8)) >> sh) & 0x3f)) as u8
}
spec fn count_zeros6(regs: Seq<u8>, n: int) -> nat decreases n { if n <= 0 { 0 } else { count_zeros6(regs, n - 1) + (if hll6_reg(regs, n - 1) == 0 { 1nat } else { 0nat }) } }

struct Array6 {
    lg_config_k: u8,
    bytes: Box<[u8]>,
    num_zeros: u32,
    estimator: HipEstimator,
}

fn num_bytes_for_k(k: u32) -> (r: usize)
  requires k <= 0x20_0000
  ensures r == 3 * (k as int) / 4 + 1
{
    proof { let k3 = (k * 3) as u32; assert((k3 >> 2) == k3 / 4) by (bit_vector); }
    (((k * 3) >> 2) + 1) as usize
}

impl Array6 {
    spec fn aview(&self) -> HllArr {
        HllArr { lg_k: self.lg_config_k, ooo: self.estimator.out_of_order, hip: f64_bits(self.estimator.hip_accum), kxq0: f64_bits(self.estimator.kxq0),
                 kxq1: f64_bits(self.estimator.kxq1), num_zeros: self.num_zeros, regs: self.bytes@ }
    }
    spec fn wf_shape(&self) -> bool { 4 <= self.lg_config_k <= 21 && self.bytes@.len() == nreg6(self.lg_config_k) }
    spec fn wf_num_zeros(&self) -> bool { self.num_zeros == count_zeros6(self.bytes@, pow2k(self.lg_config_k)) }
    spec fn wf_ooo_hip(&self) -> bool { self.estimator.out_of_order ==> self.estimator.hip_accum == 0.0f64 }
    spec fn wf(&self) -> bool { self.wf_shape() && self.wf_num_zeros() && self.wf_ooo_hip() }

    fn get_raw(&self, slot: u32) -> (r: u8)
      requires self.wf_shape(), slot < pow2k(self.lg_config_k)
      ensures /*@C12.hll6.reg_layout*/ r == hll6_reg(self.bytes@, slot as int), r <= 63
    {
        proof { lemma_shl_k(self.lg_config_k); }
        let start_bit = slot * 6;
        let byte_idx = (start_bit >> 3) as usize; // Divide by 8
        let shift = (start_bit & 7) as u8; // Mod 8
        proof {
            assert(start_bit <= 0xc0_0000 ==> (start_bit >> 3) == start_bit / 8 && (start_bit & 7) == start_bit % 8) by (bit_vector);
        }

        // Read 2 bytes as u16 (little-endian)
        let two_bytes = vx_u16_from_le_bytes([self.bytes[byte_idx], self.bytes[byte_idx + 1]]);
        proof {
            let a = self.bytes@[(slot * 6 / 8) as int]; let b = self.bytes@[(slot * 6 / 8) as int + 1];
            assert([a, b]@ =~= seq![a, b]);
            assert(shift < 8 ==> ((two_bytes >> shift) & 0x3f) == ((two_bytes >> (shift as u16)) & 0x3f) && ((two_bytes >> shift) & 0x3f) <= 63) by (bit_vector);
            assert((two_bytes >> shift) & 0x3f == 0x3f & (two_bytes >> shift)) by (bit_vector);
        }

        // Extract 6 bits at the shift position
        ((two_bytes >> shift) & VAL_MASK_6) as u8
    }

    fn get(&self, slot: u32) -> (r: u8)
      requires self.wf_shape(), slot < pow2k(self.lg_config_k)
      ensures /*@C12.hll6.reg_layout*/ r == hll6_reg(self.bytes@, slot as int), r <= 63
    {
        self.get_raw(slot)
    }

    fn deserialize(
        mut cursor: SketchSlice,
        lg_config_k: u8,
        _compact: bool,
        ooo: bool,
    ) -> (r: Result<Self, Error>)
      requires 4 <= lg_config_k <= 21,      // validated by HllSketch::deserialize before dispatch; the BYTES are arbitrary
      ensures
        /*@C13.hll6.accepts*/ valid_hll_arr_payload(cursor.rem(), nreg6(lg_config_k)) ==> r is Ok,
        /*@C14.hll6.rejects_truncated*/ !valid_hll_arr_payload(cursor.rem(), nreg6(lg_config_k)) ==> r is Err,
        /*@C13.hll6.lg_k*/ r matches Ok(a) ==> a.lg_config_k == lg_config_k,
        /*@C13.hll6.regs*/ r matches Ok(a) ==> a.bytes@ == dec_regs(cursor.rem(), nreg6(lg_config_k)),
        /*@C13.hll6.num_zeros*/ r matches Ok(a) ==> a.num_zeros == dec_num_zeros(cursor.rem()),
        /*@C13.hll6.ooo*/ r matches Ok(a) ==> a.estimator.out_of_order == ooo,
        /*@C13.hll6.kxq*/ r matches Ok(a) ==> f64_bits(a.estimator.kxq0) == dec_kxq0_bits(cursor.rem()) && f64_bits(a.estimator.kxq1) == dec_kxq1_bits(cursor.rem()),
        /*@C13.hll6.hip*/ r matches Ok(a) ==> !ooo ==> f64_bits(a.estimator.hip_accum) == dec_hip_bits(cursor.rem()),
        /*@C13.hll6.view*/ r matches Ok(a) ==> a.aview() == (HllArr { hip: if ooo { f64_bits(0.0f64) } else { dec_hip_bits(cursor.rem()) }, ..dec_hll_arr(cursor.rem(), lg_config_k, ooo, nreg6(lg_config_k)) }),
        /*@C14.hll6.wf_shape*/ r matches Ok(a) ==> a.wf_shape(),
        /*@C14.hll6.wf_ooo_hip*/ r matches Ok(a) ==> a.wf_ooo_hip(),
        /*@C14.hll6.wf_num_zeros*/ r matches Ok(a) ==> a.wf_num_zeros(),
    {
        proof { lemma_shl_k32u(lg_config_k); }
        let k = 1 << lg_config_k;
        let num_bytes = num_bytes_for_k(k);
        let ghost p0 = cursor.rem();

        // Read HIP estimator values from preamble
        let hip_accum = cursor
            .read_f64_le()
            .vx_io("hip_accum")?;
        let kxq0 = cursor.read_f64_le().vx_io("kxq0")?;
        let kxq1 = cursor.read_f64_le().vx_io("kxq1")?;

        // Read num_at_cur_min (for Array6, this is num_zeros since cur_min=0)
        let num_zeros = cursor
            .read_u32_le()
            .vx_io("num_zeros")?;
        let _aux_count = cursor
            .read_u32_le()
            .vx_io("aux_count")?; // always 0

        // Read packed byte array from offset HLL_BYTE_ARR_START
        let mut data = vx_zeroed_u8(num_bytes);
        // the register array is present in compact images too (the flag only changes the Hll4 aux layout)
        cursor
            .read_exact(&mut data)
            .vx_io("data")?;

        // Create estimator and restore state
        let mut estimator = HipEstimator::new(lg_config_k);
        estimator.set_hip_accum(hip_accum);
        estimator.set_kxq0(kxq0);
        estimator.set_kxq1(kxq1);
        estimator.set_out_of_order(ooo);
        proof {
            axiom_f64_bits_roundtrip(le64_val(p0.subrange(0, 8)));
            axiom_f64_bits_roundtrip(le64_val(p0.subrange(8, 16)));
            axiom_f64_bits_roundtrip(le64_val(p0.subrange(16, 24)));
            assert(p0.take(8) =~= p0.subrange(0, 8));
            assert(p0.skip(8).take(8) =~= p0.subrange(8, 16));
            assert(p0.skip(8).skip(8).take(8) =~= p0.subrange(16, 24));
            assert(p0.skip(8).skip(8).skip(8).take(4) =~= p0.subrange(24, 28));
            assert(p0.skip(8).skip(8).skip(8).skip(4).skip(4).take(nreg6(lg_config_k)) =~= dec_regs(p0, nreg6(lg_config_k)));
        }

        Ok(Self {
            lg_config_k,
            bytes: data.into_boxed_slice(),
            num_zeros,
            estimator,
        })
    }

    fn serialize(&self, lg_config_k: u8) -> (r: Vec<u8>)
      requires self.wf_shape(), lg_config_k == self.lg_config_k
      ensures
        /*@C12.hll6.image*/ r@ == enc_hll6(self.aview()),
        /*@C18.hll6.size*/ r@.len() == 40 + 3 * pow2k(lg_config_k) / 4 + 1,
    {
        proof { lemma_shl_k32u(lg_config_k); }
        let k = 1 << lg_config_k;
        let num_bytes = num_bytes_for_k(k);
        let total_size = HLL_PREAMBLE_SIZE + num_bytes;
        let mut bytes = SketchBytes::with_capacity(total_size);

        // Write standard header
        bytes.write_u8(HLL_PREINTS);
        bytes.write_u8(SERIAL_VERSION);
        bytes.write_u8(Family::HLL.id);
        bytes.write_u8(lg_config_k);
        bytes.write_u8(0); // unused for HLL mode

        // Write flags
        let mut flags = 0u8;
        if self.estimator.is_out_of_order() {
            flags |= OUT_OF_ORDER_FLAG_MASK;
        }
        bytes.write_u8(flags);

        // cur_min is always 0 for Array6
        bytes.write_u8(0);

        // Mode byte: HLL mode with HLL6 type
        bytes.write_u8(encode_mode_byte(CUR_MODE_HLL, TGT_HLL6));
        proof { assert((2u8 & 0x3) | ((1u8 & 0x3) << 2) == 6u8) by (bit_vector); assert(0u8 | 16u8 == 16u8) by (bit_vector); }

        // Write HIP estimator values
        bytes.write_f64_le(self.estimator.hip_accum());
        bytes.write_f64_le(self.estimator.kxq0());
        bytes.write_f64_le(self.estimator.kxq1());

        // Write num_at_cur_min (num_zeros for Array6)
        bytes.write_u32_le(self.num_zeros);

        // Write aux_count (always 0 for Array6)
        bytes.write_u32_le(0);

        // Write packed byte array
        bytes.write(&self.bytes);

        proof {
            assert(bytes@ =~= enc_hll6(self.aview()));
            lemma_hll_arr_roundtrip(1, false, self.aview());
        }
        bytes.into_bytes()
    }
}

proof fn lemma_shl_k32u(l: u8)
  requires 4 <= l <= 21
  ensures (1u32 << l) > 0, (1u32 << l) <= 0x20_0000, (1u32 << l) == pow2k(l)
{
    assert(4 <= l <= 21 ==> (1u32 << l) > 0 && (1u32 << l) <= 0x20_0000 && (1u32 << l) as usize == (1usize << l)) by (bit_vector);
    lemma_shl_k(l);
}

proof fn lemma_shl_k32(l: u8)
  requires 4 <= l <= 21
  ensures (1i32 << l) > 0, (1i32 << l) <= 0x20_0000, (1i32 << l) == pow2k(l)
{
    assert(4 <= l <= 21 ==> (1i32 << l) > 0 && (1i32 << l) <= 0x20_0000 && (1i32 << l) as usize == (1usize << l)) by (bit_vector);
    lemma_shl_k(l);
}
proof fn lemma_shl_k(l: u8)
  requires 4 <= l <= 21
  ensures (1usize << l) == pow2(l as nat), pow2(l as nat) <= 0x20_0000, pow2(l as nat) % 4 == 0
{
    assert(4 <= l <= 21 ==> (1usize << l) % 4 == 0) by (bit_vector);
    lemma2_to64();
    lemma_pow2_strictly_increases(l as nat, 22);
    vstd::bits::lemma_usize_shl_is_mul(1, l as usize);
    assert((1usize << (l as usize)) == (1usize << l));
}

// =====================================================================================================================
// C11 over both contracts: a verified client that serializes, re-reads the header the way HllSketch::deserialize does and
// hands the cursor to the parser.  Not real code; it exists so that Verus composes the two contracts.
// =====================================================================================================================
fn c11_roundtrip_hll8(a: &Array8) -> (b: Array8)
  requires a.wf(),
  ensures /*@C11.hll8.roundtrip*/ b.aview() == a.aview(), /*@C11.hll8.wf*/ b.wf(),
{
    let img = a.serialize(a.lg_config_k);
    proof { lemma_hll_arr_roundtrip(2, false, a.aview()); }
    let mut cursor = SketchSlice::new(img.as_slice());
    let ghost i0 = cursor.rem();
    let mut hdr: Vec<u8> = Vec::new();
    for n in 0..8usize
      invariant hdr@.len() == n, i0 == img@, i0.len() >= 40, cursor.rem() == i0.skip(n as int), forall|j: int| 0 <= j < n ==> hdr@[j] == #[trigger] i0[j],
    {
        let x = cursor.read_u8();
        proof { assert(i0.skip(n as int).skip(1) =~= i0.skip(n as int + 1)); }
        let v = match x { Ok(v) => v, Err(_) => { proof { assert(false); } 0u8 } };
        hdr.push(v);
    }
    let lg_config_k = hdr[3];
    let compact = (hdr[5] & 8) != 0;
    let ooo = (hdr[5] & OUT_OF_ORDER_FLAG_MASK) != 0;
    let r = Array8::deserialize(cursor, lg_config_k, compact, ooo);
    match r {
        Ok(b) => {
            proof {
            }
            b
        }
        Err(_) => { proof { assert(false); } c11_unreachable() }
    }
}
#[verifier::external_body] fn c11_unreachable() -> Array8 requires false { unreachable!() }

fn c11_roundtrip_hll6(a: &Array6) -> (b: Array6)
  requires a.wf(),
  ensures /*@C11.hll6.roundtrip*/ b.aview() == a.aview(), /*@C11.hll6.wf*/ b.wf(),
{
    let img = a.serialize(a.lg_config_k);
    proof { lemma_hll_arr_roundtrip(1, false, a.aview()); }
    let mut cursor = SketchSlice::new(img.as_slice());
    let ghost i0 = cursor.rem();
    let mut hdr: Vec<u8> = Vec::new();
    for n in 0..8usize
      invariant hdr@.len() == n, i0 == img@, i0.len() >= 40, cursor.rem() == i0.skip(n as int), forall|j: int| 0 <= j < n ==> hdr@[j] == #[trigger] i0[j],
    {
        let x = cursor.read_u8();
        proof { assert(i0.skip(n as int).skip(1) =~= i0.skip(n as int + 1)); }
        let v = match x { Ok(v) => v, Err(_) => { proof { assert(false); } 0u8 } };
        hdr.push(v);
    }
    let lg_config_k = hdr[3];
    let compact = (hdr[5] & 8) != 0;
    let ooo = (hdr[5] & OUT_OF_ORDER_FLAG_MASK) != 0;
    let r = Array6::deserialize(cursor, lg_config_k, compact, ooo);
    match r {
        Ok(b) => b,
        Err(_) => { proof { assert(false); } c11_unreachable6() }
    }
}
#[verifier::external_body] fn c11_unreachable6() -> Array6 requires false { unreachable!() }


// =====================================================================================================================
// REFINEMENT MAPPING for unit hll_dispatch (tools/linkprove.py).  hll_dispatch calls every per-mode parser through a stub
//     T_accepts(payload, fields) ==> r is Ok,      r matches Ok(a) ==> T_parsed(a, payload, fields)
// with T_accepts / T_parsed uninterpreted there.  Here they are DEFINED as the clauses this unit states for the real body
// (one conjunct per tagged clause of `deserialize`; a rejection clause `c ==> r is Err` appears as `!c`), so the stub is implied.
// =====================================================================================================================
spec fn array8_accepts(p: Seq<u8>, lg_k: u8, compact: bool, ooo: bool) -> bool { valid_hll_arr_payload(p, pow2k(lg_k)) }
spec fn array8_parsed(a: Array8, p: Seq<u8>, lg_k: u8, compact: bool, ooo: bool) -> bool {
    &&& valid_hll_arr_payload(p, pow2k(lg_k))
    &&& a.lg_config_k == lg_k
    &&& a.bytes@ == dec_regs(p, pow2k(lg_k))
    &&& a.num_zeros == dec_num_zeros(p)
    &&& a.estimator.out_of_order == ooo
    &&& f64_bits(a.estimator.kxq0) == dec_kxq0_bits(p) && f64_bits(a.estimator.kxq1) == dec_kxq1_bits(p)
    &&& (!ooo ==> f64_bits(a.estimator.hip_accum) == dec_hip_bits(p))
    &&& a.aview() == (HllArr { hip: if ooo { f64_bits(0.0f64) } else { dec_hip_bits(p) }, ..dec_hll_arr(p, lg_k, ooo, pow2k(lg_k)) })
    &&& a.wf_shape() && a.wf_ooo_hip() && a.wf_num_zeros() && a.wf_reg_range()
}
spec fn array6_accepts(p: Seq<u8>, lg_k: u8, compact: bool, ooo: bool) -> bool { valid_hll_arr_payload(p, nreg6(lg_k)) }
spec fn array6_parsed(a: Array6, p: Seq<u8>, lg_k: u8, compact: bool, ooo: bool) -> bool {
    &&& valid_hll_arr_payload(p, nreg6(lg_k))
    &&& a.lg_config_k == lg_k
    &&& a.bytes@ == dec_regs(p, nreg6(lg_k))
    &&& a.num_zeros == dec_num_zeros(p)
    &&& a.estimator.out_of_order == ooo
    &&& f64_bits(a.estimator.kxq0) == dec_kxq0_bits(p) && f64_bits(a.estimator.kxq1) == dec_kxq1_bits(p)
    &&& (!ooo ==> f64_bits(a.estimator.hip_accum) == dec_hip_bits(p))
    &&& a.aview() == (HllArr { hip: if ooo { f64_bits(0.0f64) } else { dec_hip_bits(p) }, ..dec_hll_arr(p, lg_k, ooo, nreg6(lg_k)) })
    &&& a.wf_shape() && a.wf_ooo_hip() && a.wf_num_zeros()
}

// REFINEMENT MAPPING for unit hll_api (tools/linkprove.py): hll_api calls the per-mode writers through stubs
//     requires self.ser_pre() [, lg_config_k == self.lg_config_k]     ensures self.image(lg_config_k, [hll_type,] r@)
// with `ser_pre` / `image` uninterpreted there; here they are the precondition and the conjunction of the clauses proved for the real body.
impl Array8 {
    spec fn ser_pre(&self) -> bool { self.wf_shape() }
    spec fn image(&self, lg: u8, b: Seq<u8>) -> bool { b == enc_hll8(self.aview()) && b.len() == 40 + pow2k(lg) }
}
impl Array6 {
    spec fn ser_pre(&self) -> bool { self.wf_shape() }
    spec fn image(&self, lg: u8, b: Seq<u8>) -> bool { b == enc_hll6(self.aview()) && b.len() == 40 + 3 * pow2k(lg) / 4 + 1 }
}
}
fn main(){}
