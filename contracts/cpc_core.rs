use vstd::prelude::*;
use vstd::iset::*;
use vstd::arithmetic::power2::*;
verus! {
global size_of usize == 8;
const EMPTY: u32 = 0xffff_ffff;

// ---------- PairTable by contract (definitions shared with the cpc_pairtable unit) ----------
struct PairTable {
lg_size : u8 , num_valid_bits : u8 , num_items : u32 , slots : Vec < u32 > , }

spec fn pholds(ss: Seq<u32>, item: u32) -> bool { exists|i: int| 0 <= i < ss.len() && ss[i] == item }
spec fn pdistinct(ss: Seq<u32>) -> bool { forall|i: int, j: int| 0 <= i < ss.len() && 0 <= j < ss.len() && i != j && ss[i] != EMPTY ==> ss[i] != ss[j] }
spec fn pocc(ss: Seq<u32>) -> Set<int> { Set::range(0, ss.len() as int).filter(|i: int| ss[i] != EMPTY) }
pub assume_specification<T> [ Option::<T>::replace ] (o: &mut Option<T>, value: T) -> (r: Option<T>)
  ensures r == *old(o), *final(o) == Some(value);
impl PairTable {
    #[verifier::external_body]
    fn new(lg_size: u8, num_valid_bits: u8) -> (r: Self)
      requires 2 <= lg_size <= 26, lg_size + 1 <= num_valid_bits <= 32
      ensures r.wf(), r.lg_size == lg_size, r.num_valid_bits == num_valid_bits, r.num_items == 0, r.items() =~= ISet::<u32>::empty()
    { unimplemented!() }
    uninterp spec fn wf_rest(&self) -> bool;
    spec fn wf(&self) -> bool { self.wf_rest() && pdistinct(self.slots@) && self.num_items == pocc(self.slots@).len() }
    spec fn items(&self) -> ISet<u32> { ISet::new(|c: u32| c != EMPTY && pholds(self.slots@, c)) }
    fn slots(&self) -> (r: &[u32]) ensures r@ == self.slots@ { &self.slots }
    spec fn room(&self) -> bool { self.lg_size < 26 || 4 * (self.num_items as int + 1) <= 3 * 0x400_0000 }
    #[verifier::external_body]
    fn maybe_insert(&mut self, item: u32) -> (r: bool)
      requires old(self).wf(), item != EMPTY, (item as int) < pow2(old(self).num_valid_bits as nat), old(self).room(),
      ensures final(self).wf(), final(self).num_valid_bits == old(self).num_valid_bits,
        r == !old(self).items().contains(item), final(self).items() == old(self).items().insert(item),
        final(self).num_items == old(self).num_items + (if r { 1u32 } else { 0u32 }),
    { unimplemented!() }
    #[verifier::external_body]
    fn clear(&mut self)
      requires old(self).wf(),
      ensures final(self).wf(), final(self).num_valid_bits == old(self).num_valid_bits, final(self).num_items == 0,
        final(self).items() =~= ISet::<u32>::empty(),
    { unimplemented!() }
}
spec fn dco(lg_k: u8, c: u32) -> int { let k = pow2(lg_k as nat) as int; if 8 * (c as int) < 19 * k { 0 } else { (8 * (c as int) - 19 * k) / (8 * k) } }
#[verifier::external_body]
fn determine_correct_offset(lg_k: u8, num_coupons: u32) -> (r: u8)
  requires 4 <= lg_k <= 26
  ensures dco(lg_k, num_coupons) <= 255 ==> r == dco(lg_k, num_coupons)
{ unimplemented!() }


struct CpcSketch {
lg_k : u8 , seed : u64 , seed_hash : u16 , first_interesting_column : u8 , num_coupons : u32 , surprising_value_table : Option < PairTable > , window_offset : u8 , sliding_window : Vec < u8 > , merge_flag : bool , kxp : f64 , hip_est_accum : f64 , }


spec fn rc(row: int, col: int) -> u32 { ((row as u32) << 6) | (col as u32) }
spec fn bit(x: u64, c: int) -> bool { (x >> (c as u64)) & 1 == 1 }
spec fn bit8(x: u8, c: int) -> bool { (x >> (c as u8)) & 1 == 1 }

impl CpcSketch {
    spec fn k(&self) -> int { pow2(self.lg_k as nat) as int }
    // total (an EMPTY sketch has no table yet: its matrix is all zero); same text as in contracts/cpc_update.rs / cpc_codec.rs
    spec fn tbl(&self) -> ISet<u32> { if self.surprising_value_table is Some { self.surprising_value_table->0.items() } else { ISet::empty() } }
    // the abstract bit matrix, as the paper defines it
    spec fn mbit(&self, row: int, col: int) -> bool {
        let off = self.window_offset as int;
        if self.sliding_window@.len() != 0 && off <= col < off + 8 { bit8(self.sliding_window@[row], col - off) }
        else if col < off { !self.tbl().contains(rc(row, col)) }
        else { self.tbl().contains(rc(row, col)) }
    }
    spec fn wf_matrix(&self) -> bool {
        &&& 4 <= self.lg_k <= 26
        &&& self.window_offset <= 56
        &&& (self.sliding_window@.len() == 0 || self.sliding_window@.len() == self.k())
        &&& self.num_coupons != 0 ==> self.surprising_value_table is Some && self.surprising_value_table->0.wf()
              && (forall|x: u32| #[trigger] self.tbl().contains(x) ==> (x >> 6) < self.k())
              && (self.sliding_window@.len() != 0 ==> forall|x: u32| self.tbl().contains(x) ==> !(self.window_offset <= (x & 63) < self.window_offset + 8))
        &&& self.num_coupons == 0 ==> self.window_offset == 0 && self.sliding_window@.len() == 0
              && (self.surprising_value_table is Some ==> self.tbl() =~= ISet::empty())
    }

    fn surprising_value_table ( & self ) -> ( r : & PairTable ) requires self . surprising_value_table is Some ensures * r == self . surprising_value_table -> 0 {
self . surprising_value_table . as_ref ( ) . expect ( "" ) }





    fn mut_surprising_value_table ( & mut self ) -> ( r : & mut PairTable ) requires old ( self ) . surprising_value_table is Some ensures * r == old ( self ) . surprising_value_table -> 0 , final ( self ) . surprising_value_table == Some ( * final ( r ) ) , final ( self ) . lg_k == old ( self ) . lg_k , final ( self ) . first_interesting_column == old ( self ) . first_interesting_column , final ( self ) . num_coupons == old ( self ) . num_coupons , final ( self ) . window_offset == old ( self ) . window_offset , final ( self ) . sliding_window == old ( self ) . sliding_window , final ( self ) . merge_flag == old ( self ) . merge_flag , final ( self ) . kxp == old ( self ) . kxp , final ( self ) . hip_est_accum == old ( self ) . hip_est_accum , {
self . surprising_value_table . as_mut ( ) . expect ( "" ) }




    #[verifier::external_body]
    fn refresh_kxp(&mut self, bit_matrix: &[u64])
      ensures final(self).lg_k == old(self).lg_k, final(self).first_interesting_column == old(self).first_interesting_column,
              final(self).num_coupons == old(self).num_coupons, final(self).window_offset == old(self).window_offset,
              final(self).sliding_window == old(self).sliding_window, final(self).merge_flag == old(self).merge_flag,
              final(self).surprising_value_table == old(self).surprising_value_table, final(self).hip_est_accum == old(self).hip_est_accum,
    { unimplemented!() }

    spec fn tbl_nvb_ok(&self) -> bool { self.surprising_value_table is Some && self.surprising_value_table->0.num_valid_bits == 6 + self.lg_k }

    fn move_window ( & mut self ) requires old ( self ) . wf_matrix ( ) , old ( self ) . tbl_nvb_ok ( ) , old ( self ) . sliding_window @ . len ( ) == old ( self ) . k ( ) , old ( self ) . window_offset < 56 , old ( self ) . num_coupons != 0 , old ( self ) . lg_k <= 18 , 8 * ( old ( self ) . num_coupons as int ) >= ( 27 + 8 * ( old ( self ) . window_offset as int ) ) * old ( self ) . k ( ) , 8 * ( old ( self ) . num_coupons as int ) < ( 27 + 8 * ( old ( self ) . window_offset as int + 1 ) ) * old ( self ) . k ( ) , ensures final ( self ) . wf_matrix ( ) , final ( self ) . tbl_nvb_ok ( ) , final ( self ) . sliding_window @ . len ( ) == final ( self ) . k ( ) , final ( self ) . window_offset == old ( self ) . window_offset + 1 , final ( self ) . num_coupons == old ( self ) . num_coupons , final ( self ) . lg_k == old ( self ) . lg_k , final ( self ) . merge_flag == old ( self ) . merge_flag , final ( self ) . hip_est_accum == old ( self ) . hip_est_accum , forall | r : int , c : int | 0 <= r < old ( self ) . k ( ) && 0 <= c < 64 ==> final ( self ) . mbit ( r , c ) == old ( self ) . mbit ( r , c ) ,
/*@C05.move_window.matrix*/ final ( self ) . first_interesting_column <= final ( self ) . window_offset , forall | r : int , c : int | 0 <= r < old ( self ) . k ( ) && 0 <= c < final ( self ) . first_interesting_column ==> final ( self ) . mbit ( r , c ) ,
/*@C05.fic*/ {
let new_offset = self . window_offset + 1 ;
debug_assert! ( new_offset <= 56 ) ;
proof {
lemma_dco ( self . lg_k , self . num_coupons , new_offset as int ) ;
}
debug_assert! ( new_offset == determine_correct_offset ( self . lg_k , self . num_coupons ) ) ;
proof {
lemma_shl_us ( self . lg_k ) ;
lemma_k_bound ( self . lg_k ) ;
lemma2_to64 ( ) ;
if self . lg_k < 18 {
lemma_pow2_strictly_increases ( self . lg_k as nat , 18 ) ;
}
}
let k = 1 << self . lg_k ;
let bit_matrix = self . build_bit_matrix ( ) ;
let ghost bm = bit_matrix @ ;
if ( new_offset & 0x7 ) == 0 {
self . refresh_kxp ( & bit_matrix ) ;
}
self . mut_surprising_value_table ( ) . clear ( ) ;
proof {
lemma_masks ( new_offset ) ;
}
let mask_for_clearing_window = ( 0xFF << new_offset ) ^ u64 :: MAX ;
let mask_for_flipping_early_zone = ( 1u64 << new_offset ) - 1 ;
let mut all_surprises_ored = 0u64 ;
proof {
assert forall | c : int | 0 <= c < 64 implies ! bit ( 0u64 , c ) by {
let cc = c as u64 ;
assert ( cc < 64 ==> ! ( ( 0u64 >> cc ) & 1 == 1 ) ) by ( bit_vector ) ;
}
}
for i in 0 .. k invariant self . lg_k == old ( self ) . lg_k , self . num_coupons == old ( self ) . num_coupons , self . window_offset == old ( self ) . window_offset , self . merge_flag == old ( self ) . merge_flag , self . hip_est_accum == old ( self ) . hip_est_accum , self . first_interesting_column == old ( self ) . first_interesting_column , 4 <= self . lg_k <= 18 , k == self . k ( ) , 16 <= k <= 0x4_0000 , bit_matrix @ == bm , bm . len ( ) == k , new_offset == self . window_offset + 1 , new_offset <= 56 , mask_for_clearing_window == ( 0xFFu64 << new_offset ) ^ u64 :: MAX , mask_for_flipping_early_zone == ( ( 1u64 << new_offset ) - 1 ) as u64 , self . sliding_window @ . len ( ) == k , forall | r : int | 0 <= r < i ==> # [ trigger ] self . sliding_window @ [ r ] == ( ( bm [ r ] >> new_offset ) & 0xff ) as u8 , self . tbl_nvb_ok ( ) , self . surprising_value_table -> 0 . wf ( ) , forall | x : u32 | # [ trigger ] self . tbl ( ) . contains ( x ) ==> ( x >> 6 ) < i , forall | r : int , c : int | 0 <= r < k && 0 <= c < 64 ==> self . tbl ( ) . contains ( rc ( r , c ) ) == ( r < i && sp ( bm [ r ] , new_offset , c ) ) , self . surprising_value_table -> 0 . num_items <= 64 * i , forall | r : int , c : int | 0 <= r < i && 0 <= c < 64 && sp ( bm [ r ] , new_offset , c ) ==> bit ( all_surprises_ored , c ) , {
let mut pattern = bit_matrix [ i ] ;
let ghost pre_row = * self ;
self . sliding_window [ i ] = ( ( pattern >> new_offset ) & 0xff ) as u8 ;
proof {
assert ( self . surprising_value_table == pre_row . surprising_value_table ) ;
assert ( self . tbl ( ) == pre_row . tbl ( ) ) ;
assert forall | x : u32 | # [ trigger ] self . tbl ( ) . contains ( x ) implies ( x >> 6 ) < i + 1 by {
assert ( pre_row . tbl ( ) . contains ( x ) ) ;
}
}
pattern &= mask_for_clearing_window ;
pattern ^= mask_for_flipping_early_zone ;
let ghost aso0 = all_surprises_ored ;
all_surprises_ored |= pattern ;
let ghost p0 = pattern ;
let ghost mut lo : int = 0 ;
let ghost mut cnt : int = 0 ;
proof {
assert forall | c : int | 0 <= c < 64 implies bit ( all_surprises_ored , c ) == ( bit ( aso0 , c ) || bit ( p0 , c ) ) by {
lemma_or_bit ( aso0 , p0 , c ) ;
}
}
while pattern != 0 invariant self . lg_k == old ( self ) . lg_k , self . num_coupons == old ( self ) . num_coupons , self . window_offset == old ( self ) . window_offset , self . merge_flag == old ( self ) . merge_flag , self . hip_est_accum == old ( self ) . hip_est_accum , self . first_interesting_column == old ( self ) . first_interesting_column , 4 <= self . lg_k <= 18 , k == self . k ( ) , 16 <= k <= 0x4_0000 , 0 <= i < k , new_offset <= 56 , self . sliding_window @ . len ( ) == k , forall | r : int | 0 <= r < i + 1 ==> # [ trigger ] self . sliding_window @ [ r ] == ( ( bm [ r ] >> new_offset ) & 0xff ) as u8 , self . tbl_nvb_ok ( ) , self . surprising_value_table -> 0 . wf ( ) , p0 == ( bm [ i as int ] & ( ( 0xFFu64 << new_offset ) ^ u64 :: MAX ) ) ^ ( ( ( 1u64 << new_offset ) - 1 ) as u64 ) , forall | x : u32 | # [ trigger ] self . tbl ( ) . contains ( x ) ==> ( x >> 6 ) < i + 1 , forall | r : int , c : int | 0 <= r < k && 0 <= c < 64 ==> self . tbl ( ) . contains ( rc ( r , c ) ) == ( ( r < i && sp ( bm [ r ] , new_offset , c ) ) || ( r == i && bit ( p0 , c ) && ! bit ( pattern , c ) ) ) , forall | c : int | 0 <= c < 64 && bit ( pattern , c ) ==> bit ( p0 , c ) , forall | c : int | 0 <= c < lo ==> ! bit ( pattern , c ) , 0 <= cnt <= lo <= 64 , self . surprising_value_table -> 0 . num_items <= 64 * i + cnt , decreases pattern {
let col = pattern . trailing_zeros ( ) ;
let ghost pprev = pattern ;
proof {
vstd :: std_specs :: bits :: axiom_u64_trailing_zeros ( pattern ) ;
lemma_tz_facts ( pattern , col , lo ) ;
}
pattern ^= 1 << col ;
let row_col = ( ( i as u32 ) << 6 ) | col ;
proof {
lemma_rowcol ( i as int , col as int , self . lg_k ) ;
assert forall | c : int | 0 <= c < 64 implies bit ( pattern , c ) == ( bit ( pprev , c ) != ( c == col ) ) by {
lemma_flip_bit ( pprev , col as u8 , c ) ;
}
lemma_rc_inj ( i as int , col as int , i as int , col as int ) ;
assert ( ! self . tbl ( ) . contains ( row_col ) ) ;
}
let ghost t0 = self . tbl ( ) ;
let is_novel = self . mut_surprising_value_table ( ) . maybe_insert ( row_col ) ;
debug_assert! ( is_novel ) ;
proof {
assert forall | r : int , c : int | 0 <= r < k && 0 <= c < 64 implies self . tbl ( ) . contains ( rc ( r , c ) ) == ( ( r < i && sp ( bm [ r ] , new_offset , c ) ) || ( r == i && bit ( p0 , c ) && ! bit ( pattern , c ) ) ) by {
lemma_rc_inj ( r , c , i as int , col as int ) ;
assert ( t0 . contains ( rc ( r , c ) ) == ( ( r < i && sp ( bm [ r ] , new_offset , c ) ) || ( r == i && bit ( p0 , c ) && ! bit ( pprev , c ) ) ) ) ;
}
assert forall | x : u32 | # [ trigger ] self . tbl ( ) . contains ( x ) implies ( x >> 6 ) < i + 1 by {
if x != row_col {
assert ( t0 . contains ( x ) ) ;
}
}
lo = col as int + 1 ;
cnt = cnt + 1 ;
}
}
proof {
assert forall | c : int | 0 <= c < 64 implies ! bit ( pattern , c ) by {
let cc = c as u64 ;
assert ( cc < 64 ==> ! ( ( 0u64 >> cc ) & 1 == 1 ) ) by ( bit_vector ) ;
}
assert forall | c : int | 0 <= c < 64 implies bit ( p0 , c ) == sp ( bm [ i as int ] , new_offset , c ) by {
}
}
}
let ghost fin = * self ;
self . window_offset = new_offset ;
proof {
vstd :: std_specs :: bits :: axiom_u64_trailing_zeros ( all_surprises_ored ) ;
}
self . first_interesting_column = all_surprises_ored . trailing_zeros ( ) as u8 ;
if self . first_interesting_column > new_offset {
self . first_interesting_column = new_offset ;
}
proof {
let fic = self . first_interesting_column ;
assert forall | r : int , c : int | 0 <= r < k && 0 <= c < 64 implies self . mbit ( r , c ) == old ( self ) . mbit ( r , c ) by {
lemma_sp ( bm [ r ] , new_offset , c ) ;
if new_offset <= c < new_offset + 8 {
lemma_win_bit ( bm [ r ] , new_offset , c ) ;
}
}
assert ( self . surprising_value_table == fin . surprising_value_table ) ;
assert forall | x : u32 | self . tbl ( ) . contains ( x ) implies ! ( self . window_offset <= ( x & 63 ) < self . window_offset + 8 ) by {
assert ( fin . tbl ( ) . contains ( x ) ) ;
lemma_rc ( x ) ;
let r = ( x >> 6 ) as int ;
let c = ( x & 63 ) as int ;
assert ( self . tbl ( ) . contains ( rc ( r , c ) ) ) ;
lemma_sp ( bm [ r ] , new_offset , c ) ;
}
assert forall | r : int , c : int | 0 <= r < k && 0 <= c < fic implies self . mbit ( r , c ) by {
lemma_sp ( bm [ r ] , new_offset , c ) ;
let cc = c as u64 ;
assert ( ! bit ( all_surprises_ored , c ) ) ;
}
assert ( 4 <= self . lg_k <= 26 ) ;
assert ( self . window_offset <= 56 ) ;
assert ( self . sliding_window @ . len ( ) == self . k ( ) ) ;
assert ( self . surprising_value_table is Some && self . surprising_value_table -> 0 . wf ( ) ) ;
assert forall | x : u32 | # [ trigger ] self . tbl ( ) . contains ( x ) implies ( x >> 6 ) < self . k ( ) by {
assert ( fin . tbl ( ) . contains ( x ) ) ;
}
assert ( self . num_coupons != 0 ) ;
}
}





fn promote_sparse_to_windowed ( & mut self ) requires old ( self ) . wf_matrix ( ) , old ( self ) . tbl_nvb_ok ( ) , old ( self ) . sliding_window @ . len ( ) == 0 , old ( self ) . num_coupons != 0 , old ( self ) . window_offset == 0 , old ( self ) . surprising_value_table -> 0 . num_items <= 0x100_0000 , 32 * ( old ( self ) . num_coupons as int ) == 3 * old ( self ) . k ( ) || ( old ( self ) . lg_k == 4 && 32 * ( old ( self ) . num_coupons as int ) > 3 * old ( self ) . k ( ) ) , old ( self ) . num_coupons < 0x400_0000 , ensures final ( self ) . wf_matrix ( ) , final ( self ) . tbl_nvb_ok ( ) , final ( self ) . sliding_window @ . len ( ) == final ( self ) . k ( ) , final ( self ) . window_offset == 0 , final ( self ) . num_coupons == old ( self ) . num_coupons , final ( self ) . lg_k == old ( self ) . lg_k , final ( self ) . merge_flag == old ( self ) . merge_flag , final ( self ) . hip_est_accum == old ( self ) . hip_est_accum , final ( self ) . kxp == old ( self ) . kxp , final ( self ) . first_interesting_column == old ( self ) . first_interesting_column , forall | r : int , c : int | 0 <= r < old ( self ) . k ( ) && 0 <= c < 64 ==> final ( self ) . mbit ( r , c ) == old ( self ) . mbit ( r , c ) ,
/*@C05.promote.matrix*/ {
debug_assert! ( self . window_offset == 0 ) ;
proof {
lemma_shl_us ( self . lg_k ) ;
lemma_k_bound ( self . lg_k ) ;
lemma_shl64 ( self . lg_k ) ;
}
let k = 1 << self . lg_k ;
let c32 = ( self . num_coupons as u64 ) << 5 ;
proof {
let c = self . num_coupons as u64 ;
assert ( c < 0x400_0000 ==> ( c << 5 ) == c * 32 ) by ( bit_vector ) ;
}
debug_assert! ( ( c32 == ( 3 * k ) ) || ( ( self . lg_k == 4 ) && ( c32 > ( 3 * k ) ) ) ) ;
self . sliding_window . resize ( k as usize , 0 ) ;
let old_table = self . surprising_value_table . replace ( PairTable :: new ( 2 , 6 + self . lg_k ) ) . expect ( "" ) ;
let old_slots = old_table . slots ( ) ;
let ghost sv = old_slots @ ;
let ghost t0 = old ( self ) . tbl ( ) ;
proof {
assert ( pocc ( sv . take ( 0 ) ) =~= Set :: < int > :: empty ( ) ) ;
assert forall | c : int | 0 <= c < 8 implies ! bit8 ( 0u8 , c ) by {
let cc = c as u8 ;
assert ( cc < 8 ==> ! ( ( 0u8 >> cc ) & 1 == 1 ) ) by ( bit_vector ) ;
}
}
let mut vx_i1 = 0 ;
while vx_i1 < old_slots . len ( ) invariant old_slots @ == sv , pdistinct ( sv ) , 0 <= vx_i1 <= sv . len ( ) , old_table . num_items == pocc ( sv ) . len ( ) , old_table . num_items <= 0x100_0000 , t0 == ISet :: new ( | c : u32 | c != EMPTY && pholds ( sv , c ) ) , forall | x : u32 | # [ trigger ] t0 . contains ( x ) ==> ( x >> 6 ) < k , self . lg_k == old ( self ) . lg_k , self . num_coupons == old ( self ) . num_coupons , self . window_offset == 0 , 4 <= self . lg_k <= 26 , self . merge_flag == old ( self ) . merge_flag , self . hip_est_accum == old ( self ) . hip_est_accum , self . kxp == old ( self ) . kxp , self . first_interesting_column == old ( self ) . first_interesting_column , k == self . k ( ) , 16 <= k <= 0x400_0000 , self . sliding_window @ . len ( ) == k , self . tbl_nvb_ok ( ) , self . surprising_value_table -> 0 . wf ( ) , self . surprising_value_table -> 0 . num_items <= pocc ( sv . take ( vx_i1 as int ) ) . len ( ) , forall | x : u32 | # [ trigger ] self . tbl ( ) . contains ( x ) ==> ( x >> 6 ) < k && ( x & 63 ) >= 8 , forall | r : int , c : int | 0 <= r < k && 8 <= c < 64 ==> self . tbl ( ) . contains ( rc ( r , c ) ) == ( rc ( r , c ) != EMPTY && pholds ( sv . take ( vx_i1 as int ) , rc ( r , c ) ) ) , forall | r : int , c : int | 0 <= r < k && 0 <= c < 8 ==> bit8 ( self . sliding_window @ [ r ] , c ) == ( rc ( r , c ) != EMPTY && pholds ( sv . take ( vx_i1 as int ) , rc ( r , c ) ) ) , decreases sv . len ( ) - vx_i1 {
let row_col = old_slots [ vx_i1 ] ;
proof {
lemma_pocc_take_step ( sv , vx_i1 as int ) ;
}
if row_col != u32 :: MAX {
let col = ( row_col & 63 ) as u8 ;
proof {
lemma_rc ( row_col ) ;
assert ( pholds ( sv , row_col ) ) ;
assert ( t0 . contains ( row_col ) ) ;
if pholds ( sv . take ( vx_i1 as int ) , row_col ) {
let b = sv . take ( vx_i1 as int ) ;
let t = choose | t : int | 0 <= t < b . len ( ) && b [ t ] == row_col ;
assert ( sv [ t ] == sv [ vx_i1 as int ] ) ;
}
}
if col < 8 {
let row = ( row_col >> 6 ) as usize ;
let ghost wprev = self . sliding_window @ ;
let ghost pre = * self ;
self . sliding_window [ row ] |= 1 << col ;
proof {
assert forall | r : int , c : int | 0 <= r < k && 0 <= c < 8 implies bit8 ( self . sliding_window @ [ r ] , c ) == ( rc ( r , c ) != EMPTY && pholds ( sv . take ( vx_i1 + 1 ) , rc ( r , c ) ) ) by {
lemma_take_step ( sv , vx_i1 as int , rc ( r , c ) ) ;
lemma_rc_inj ( r , c , row as int , col as int ) ;
if r == row as int {
lemma_or_bit8 ( wprev [ r ] , col , c ) ;
}
}
assert forall | r : int , c : int | 0 <= r < k && 8 <= c < 64 implies self . tbl ( ) . contains ( rc ( r , c ) ) == ( rc ( r , c ) != EMPTY && pholds ( sv . take ( vx_i1 + 1 ) , rc ( r , c ) ) ) by {
lemma_take_step ( sv , vx_i1 as int , rc ( r , c ) ) ;
lemma_rc_inj ( r , c , row as int , col as int ) ;
assert ( pre . tbl ( ) . contains ( rc ( r , c ) ) == self . tbl ( ) . contains ( rc ( r , c ) ) ) ;
}
assert forall | x : u32 | # [ trigger ] self . tbl ( ) . contains ( x ) implies ( x >> 6 ) < k && ( x & 63 ) >= 8 by {
assert ( pre . tbl ( ) . contains ( x ) ) ;
}
}
}
else {
proof {
lemma_rowcol26 ( row_col , self . lg_k ) ;
vstd :: set_lib :: lemma_len_subset ( pocc ( sv . take ( vx_i1 as int ) ) , pocc ( sv ) ) ;
assert ( pocc ( sv . take ( vx_i1 as int ) ) . subset_of ( pocc ( sv ) ) ) ;
lemma_rc_inj ( ( row_col >> 6 ) as int , col as int , ( row_col >> 6 ) as int , col as int ) ;
}
let ghost tprev = self . tbl ( ) ;
let is_novel = self . mut_surprising_value_table ( ) . maybe_insert ( row_col ) ;
debug_assert! ( is_novel ) ;
proof {
let row = ( row_col >> 6 ) as int ;
assert forall | r : int , c : int | 0 <= r < k && 8 <= c < 64 implies self . tbl ( ) . contains ( rc ( r , c ) ) == ( rc ( r , c ) != EMPTY && pholds ( sv . take ( vx_i1 + 1 ) , rc ( r , c ) ) ) by {
lemma_take_step ( sv , vx_i1 as int , rc ( r , c ) ) ;
lemma_rc_inj ( r , c , row , col as int ) ;
assert ( tprev . contains ( rc ( r , c ) ) == ( rc ( r , c ) != EMPTY && pholds ( sv . take ( vx_i1 as int ) , rc ( r , c ) ) ) ) ;
}
assert forall | r : int , c : int | 0 <= r < k && 0 <= c < 8 implies bit8 ( self . sliding_window @ [ r ] , c ) == ( rc ( r , c ) != EMPTY && pholds ( sv . take ( vx_i1 + 1 ) , rc ( r , c ) ) ) by {
lemma_take_step ( sv , vx_i1 as int , rc ( r , c ) ) ;
lemma_rc_inj ( r , c , row , col as int ) ;
}
assert forall | x : u32 | # [ trigger ] self . tbl ( ) . contains ( x ) implies ( x >> 6 ) < k && ( x & 63 ) >= 8 by {
if x != row_col {
assert ( tprev . contains ( x ) ) ;
}
}
}
}
}
else {
proof {
let ghost pre = * self ;
assert forall | r : int , c : int | 0 <= r < k && 0 <= c < 64 implies ( rc ( r , c ) != EMPTY && pholds ( sv . take ( vx_i1 + 1 ) , rc ( r , c ) ) ) == ( rc ( r , c ) != EMPTY && pholds ( sv . take ( vx_i1 as int ) , rc ( r , c ) ) ) by {
lemma_take_step ( sv , vx_i1 as int , rc ( r , c ) ) ;
}
}
}
vx_i1 += 1 ;
}
proof {
assert ( sv . take ( sv . len ( ) as int ) =~= sv ) ;
assert forall | r : int , c : int | 0 <= r < k && 0 <= c < 64 implies self . mbit ( r , c ) == old ( self ) . mbit ( r , c ) by {
lemma_rc_inj ( r , c , r , c ) ;
}
assert forall | x : u32 | self . tbl ( ) . contains ( x ) implies ! ( self . window_offset <= ( x & 63 ) < self . window_offset + 8 ) by {
}
}
}






    fn build_bit_matrix ( & self ) -> ( matrix : Vec < u64 > ) requires self . wf_matrix ( ) , self . surprising_value_table is Some , ensures matrix @ . len ( ) == self . k ( ) , forall | r : int , c : int | 0 <= r < self . k ( ) && 0 <= c < 64 ==> bit ( matrix @ [ r ] , c ) == self . mbit ( r , c ) , {
proof {
lemma_shl_us ( self . lg_k ) ;
}
let k = 1 << self . lg_k ;
let offset = self . window_offset ;
debug_assert! ( offset <= 56 ) ;
proof {
lemma_low_mask ( offset ) ;
}
let default_row = ( 1u64 << offset ) - 1 ;
let mut matrix = vec! [ default_row ;
k ] ;
if self . num_coupons == 0 {
proof {
assert forall | r : int , c : int | 0 <= r < self . k ( ) && 0 <= c < 64 implies bit ( matrix @ [ r ] , c ) == self . mbit ( r , c ) by {
lemma_low_mask_bit ( offset , c ) ;
}
}
return matrix ;
}
if ! self . sliding_window . is_empty ( ) {
for i in 0 .. k invariant matrix @ . len ( ) == k , k == self . k ( ) , self . sliding_window @ . len ( ) == k , offset <= 56 , offset == self . window_offset , forall | r : int | 0 <= r < i ==> matrix @ [ r ] == default_row | ( ( self . sliding_window @ [ r ] as u64 ) << offset ) , forall | r : int | i <= r < k ==> matrix @ [ r ] == default_row , {
matrix [ i ] |= ( self . sliding_window [ i ] as u64 ) << offset ;
}
}
let ghost win = self . sliding_window @ . len ( ) != 0 ;
let ghost sw = self . sliding_window @ ;
let ghost m0 = matrix @ ;
assert forall | r : int , c : int | 0 <= r < k && 0 <= c < 64 implies bit ( m0 [ r ] , c ) == ( if win && offset <= c < offset + 8 {
bit8 ( sw [ r ] , c - offset ) }
else {
c < offset }
) by {
lemma_low_mask_bit ( offset , c ) ;
if win {
lemma_window_bit ( default_row , sw [ r ] , offset , c ) ;
}
}
let vx_s2 = self . surprising_value_table ( ) . slots ( ) ;
let ghost sv = vx_s2 @ ;
let mut vx_i2 = 0 ;
while vx_i2 < vx_s2 . len ( ) invariant self . surprising_value_table is Some , matrix @ . len ( ) == k , k == self . k ( ) , vx_s2 @ == sv , sv == self . surprising_value_table -> 0 . slots @ , pdistinct ( sv ) , 0 <= vx_i2 <= sv . len ( ) , forall | x : u32 | # [ trigger ] self . tbl ( ) . contains ( x ) ==> ( x >> 6 ) < self . k ( ) , 4 <= self . lg_k <= 26 , forall | r : int , c : int | 0 <= r < k && 0 <= c < 64 ==> bit ( matrix @ [ r ] , c ) == ( bit ( m0 [ r ] , c ) != ( rc ( r , c ) != EMPTY && pholds ( sv . take ( vx_i2 as int ) , rc ( r , c ) ) ) ) , decreases sv . len ( ) - vx_i2 {
let row_col = vx_s2 [ vx_i2 ] ;
if row_col != u32 :: MAX {
let col = ( row_col & 63 ) as u8 ;
let row = ( row_col >> 6 ) as usize ;
proof {
lemma_rc ( row_col ) ;
assert ( pholds ( sv , row_col ) ) ;
assert ( self . tbl ( ) . contains ( row_col ) ) ;
}
let ghost mprev = matrix @ ;
matrix [ row ] ^= 1 << col ;
proof {
lemma_k_bound ( self . lg_k ) ;
assert forall | r : int , c : int | 0 <= r < k && 0 <= c < 64 implies bit ( matrix @ [ r ] , c ) == ( bit ( m0 [ r ] , c ) != ( rc ( r , c ) != EMPTY && pholds ( sv . take ( vx_i2 + 1 ) , rc ( r , c ) ) ) ) by {
lemma_take_step ( sv , vx_i2 as int , rc ( r , c ) ) ;
lemma_rc_inj ( r , c , row as int , col as int ) ;
if r == row as int {
lemma_flip_bit ( mprev [ r ] , col , c ) ;
}
if rc ( r , c ) == row_col {
if pholds ( sv . take ( vx_i2 as int ) , row_col ) {
let b = sv . take ( vx_i2 as int ) ;
let t = choose | t : int | 0 <= t < b . len ( ) && b [ t ] == row_col ;
assert ( sv [ t ] == sv [ vx_i2 as int ] ) ;
}
}
}
}
}
else {
proof {
lemma_k_bound ( self . lg_k ) ;
assert forall | r : int , c : int | 0 <= r < k && 0 <= c < 64 implies bit ( matrix @ [ r ] , c ) == ( bit ( m0 [ r ] , c ) != ( rc ( r , c ) != EMPTY && pholds ( sv . take ( vx_i2 + 1 ) , rc ( r , c ) ) ) ) by {
lemma_take_step ( sv , vx_i2 as int , rc ( r , c ) ) ;
}
}
}
vx_i2 += 1 ;
}
proof {
assert ( sv . take ( sv . len ( ) as int ) =~= sv ) ;
lemma_k_bound ( self . lg_k ) ;
assert forall | r : int , c : int | 0 <= r < self . k ( ) && 0 <= c < 64 implies bit ( matrix @ [ r ] , c ) == self . mbit ( r , c ) by {
lemma_rc_inj ( r , c , r , c ) ;
if self . tbl ( ) . contains ( rc ( r , c ) ) {
assert ( pholds ( sv , rc ( r , c ) ) ) ;
}
}
}
matrix }



}

proof fn lemma_take_step(sv: Seq<u32>, i: int, x: u32)
  requires 0 <= i < sv.len()
  ensures pholds(sv.take(i + 1), x) == (pholds(sv.take(i), x) || sv[i] == x)
{
    let a = sv.take(i + 1); let b = sv.take(i);
    if pholds(a, x) { let t = choose|t: int| 0 <= t < a.len() && a[t] == x; if t < i { assert(b[t] == x); } }
    if pholds(b, x) { let t = choose|t: int| 0 <= t < b.len() && b[t] == x; assert(a[t] == x); }
    if sv[i] == x { assert(sv.take(i + 1)[i] == x); }
}
proof fn lemma_shl_us(l: u8) requires l <= 26 ensures (1usize << l) == pow2(l as nat), pow2(l as nat) <= 0x400_0000, pow2(l as nat) >= 1 {
    lemma2_to64(); if l < 26 { lemma_pow2_strictly_increases(l as nat, 26); } lemma_pow2_pos(l as nat);
    vstd::bits::lemma_usize_shl_is_mul(1, l as usize);
    assert((1usize << (l as usize)) == (1usize << l));
}
proof fn lemma_k_bound(l: u8) requires 4 <= l <= 26 ensures 16 <= pow2(l as nat) <= 0x400_0000 {
    lemma2_to64(); if l < 26 { lemma_pow2_strictly_increases(l as nat, 26); } if l > 4 { lemma_pow2_strictly_increases(4, l as nat); }
}
proof fn lemma_low_mask(o: u8) requires o <= 56 ensures (1u64 << o) >= 1 { assert(o <= 56 ==> (1u64 << o) >= 1) by (bit_vector); }
proof fn lemma_low_mask_bit(o: u8, c: int) requires o <= 56, 0 <= c < 64 ensures bit(((1u64 << o) - 1) as u64, c) == (c < o) {
    let cc = c as u64;
    assert(o <= 56 && cc < 64 ==> ((((((1u64 << o) - 1) as u64) >> cc) & 1 == 1) == (cc < o as u64))) by (bit_vector);
}
proof fn lemma_window_bit(d: u64, w: u8, o: u8, c: int)
  requires o <= 56, 0 <= c < 64, d == ((1u64 << o) - 1) as u64
  ensures bit(d | ((w as u64) << o), c) == (if o <= c < o + 8 { bit8(w, c - o) } else { c < o })
{
    let cc = c as u64;
    assert(o <= 56 && cc < 64 && d == ((1u64 << o) - 1) as u64 ==>
        ((((d | ((w as u64) << o)) >> cc) & 1 == 1) == (if (o as u64) <= cc && cc < (o as u64) + 8 { (w >> ((cc - o as u64) as u8)) & 1 == 1 } else { cc < o as u64 }))) by (bit_vector);
}
proof fn lemma_flip_bit(x: u64, col: u8, c: int)
  requires col < 64, 0 <= c < 64
  ensures bit(x ^ (1u64 << col), c) == (bit(x, c) != (c == col))
{
    let cc = c as u64;
    assert(col < 64 && cc < 64 ==> ((((x ^ (1u64 << col)) >> cc) & 1 == 1) == (((x >> cc) & 1 == 1) != (cc == col as u64)))) by (bit_vector);
}
proof fn lemma_rc(x: u32)
  ensures rc((x >> 6) as int, (x & 63) as int) == x, (x & 63) < 64
{
    assert((((x >> 6) << 6) | (x & 63)) == x) by (bit_vector);
    assert((x & 63) < 64) by (bit_vector);
}
proof fn lemma_rc_inj(r: int, c: int, r2: int, c2: int)
  requires 0 <= r < 0x400_0000, 0 <= c < 64, 0 <= r2 < 0x400_0000, 0 <= c2 < 64
  ensures (rc(r, c) == rc(r2, c2)) <==> (r == r2 && c == c2), rc(r, c) >> 6 == r, rc(r, c) & 63 == c
{
    let a = r as u32; let b = c as u32; let a2 = r2 as u32; let b2 = c2 as u32;
    assert(a < 0x400_0000 && b < 64 && a2 < 0x400_0000 && b2 < 64 ==> ((((a << 6) | b) == ((a2 << 6) | b2)) <==> (a == a2 && b == b2))) by (bit_vector);
    assert(a < 0x400_0000 && b < 64 ==> (((a << 6) | b) >> 6) == a && (((a << 6) | b) & 63) == b) by (bit_vector);
}

// surprise pattern of a row w.r.t. the new offset
spec fn sp(m: u64, no: u8, c: int) -> bool { bit((m & ((0xFFu64 << no) ^ u64::MAX)) ^ (((1u64 << no) - 1) as u64), c) }
proof fn lemma_sp(m: u64, no: u8, c: int)
  requires no <= 56, 0 <= c < 64
  ensures sp(m, no, c) == (if c < no { !bit(m, c) } else if c < no + 8 { false } else { bit(m, c) })
{
    let cc = c as u64;
    assert(no <= 56 && cc < 64 ==> (((((m & ((0xFFu64 << no) ^ 0xffff_ffff_ffff_ffffu64)) ^ (((1u64 << no) - 1) as u64)) >> cc) & 1 == 1)
        == (if cc < no as u64 { !((m >> cc) & 1 == 1) } else if cc < (no as u64) + 8 { false } else { (m >> cc) & 1 == 1 }))) by (bit_vector);
}
proof fn lemma_win_bit(m: u64, no: u8, c: int)
  requires no <= 56, no <= c < no + 8
  ensures bit8(((m >> no) & 0xff) as u8, c - no) == bit(m, c)
{
    let cc = c as u64;
    assert(no <= 56 && (no as u64) <= cc && cc < (no as u64) + 8 ==>
        ((((((m >> no) & 0xff) as u8) >> ((cc - no as u64) as u8)) & 1 == 1) == ((m >> cc) & 1 == 1))) by (bit_vector);
}
proof fn lemma_masks(no: u8) requires no <= 56 ensures (1u64 << no) >= 1 { assert(no <= 56 ==> (1u64 << no) >= 1) by (bit_vector); }
proof fn lemma_or_bit(a: u64, b: u64, c: int) requires 0 <= c < 64 ensures bit(a | b, c) == (bit(a, c) || bit(b, c)) {
    let cc = c as u64;
    assert(cc < 64 ==> ((((a | b) >> cc) & 1 == 1) == (((a >> cc) & 1 == 1) || ((b >> cc) & 1 == 1)))) by (bit_vector);
}
proof fn lemma_tz_facts(p: u64, col: u32, lo: int)
  requires p != 0, col == vstd::std_specs::bits::u64_trailing_zeros(p), 0 <= lo <= 64, forall|c: int| 0 <= c < lo ==> !bit(p, c)
  ensures col < 64, bit(p, col as int), lo <= col, (p ^ (1u64 << col)) < p, forall|c: int| 0 <= c < col ==> !bit(p, c)
{
    vstd::std_specs::bits::axiom_u64_trailing_zeros(p);
    let cu = col as u64;
    assert(cu < 64 && (p >> cu) & 1 == 1 ==> (p ^ (1u64 << cu)) < p) by (bit_vector);
    assert((1u64 << col) == (1u64 << cu)) by (bit_vector) requires cu == col as u64, col < 64;
    if lo > col { assert(!bit(p, col as int)); }
    assert forall|c: int| 0 <= c < col implies !bit(p, c) by { let j = c as u64; assert((p >> j) & 1 == 0); }
}
proof fn lemma_rowcol(i: int, col: int, lg_k: u8)
  requires 4 <= lg_k <= 18, 0 <= i < pow2(lg_k as nat), 0 <= col < 64
  ensures (((i as u32) << 6) | (col as u32)) == rc(i, col), rc(i, col) != EMPTY, (rc(i, col) as int) < pow2((6 + lg_k) as nat)
{
    lemma2_to64(); lemma_pow2_adds(6, lg_k as nat);
    if lg_k < 18 { lemma_pow2_strictly_increases(lg_k as nat, 18); }
    let a = i as u32; let b = col as u32;
    let kk = pow2(lg_k as nat) as u32;
    assert(a < 0x4_0000 && b < 64 ==> ((a << 6) | b) < 0x100_0000) by (bit_vector);
    assert(a < kk && b < 64 && kk <= 0x4_0000 ==> ((a << 6) | b) < 64 * kk) by (bit_vector);
}
proof fn lemma_dco(lg_k: u8, c: u32, no: int)
  requires 4 <= lg_k <= 26, 1 <= no <= 56, 8 * (c as int) >= (27 + 8 * (no - 1)) * pow2(lg_k as nat), 8 * (c as int) < (27 + 8 * no) * pow2(lg_k as nat)
  ensures dco(lg_k, c) == no
{
    let k = pow2(lg_k as nat) as int; lemma_pow2_pos(lg_k as nat);
    let t = 8 * (c as int) - 19 * k;
    assert((27 + 8 * (no - 1)) * k == 19 * k + no * (8 * k)) by (nonlinear_arith);
    assert((27 + 8 * no) * k == 19 * k + (no + 1) * (8 * k)) by (nonlinear_arith);
    assert(t / (8 * k) == no) by (nonlinear_arith) requires no * (8 * k) <= t, t < (no + 1) * (8 * k), k > 0;
}

proof fn lemma_pocc_take_step(es: Seq<u32>, i: int)
  requires 0 <= i < es.len()
  ensures pocc(es.take(i + 1)).len() == pocc(es.take(i)).len() + (if es[i] != EMPTY { 1int } else { 0int })
{
    let a = es.take(i + 1); let b = es.take(i);
    if es[i] != EMPTY { assert(pocc(a) =~= pocc(b).insert(i)); assert(!pocc(b).contains(i)); }
    else { assert(pocc(a) =~= pocc(b)); }
}
proof fn lemma_or_bit8(w: u8, col: u8, c: int)
  requires col < 8, 0 <= c < 8
  ensures bit8(w | (1u8 << col), c) == (bit8(w, c) || c == col)
{
    let cc = c as u8;
    assert(col < 8 && cc < 8 ==> ((((w | (1u8 << col)) >> cc) & 1 == 1) == (((w >> cc) & 1 == 1) || cc == col))) by (bit_vector);
}
proof fn lemma_shl64(l: u8) requires l <= 26 ensures (1u64 << l) == pow2(l as nat) {
    lemma2_to64(); if l < 26 { lemma_pow2_strictly_increases(l as nat, 26); }
    vstd::bits::lemma_u64_shl_is_mul(1, l as u64);
    assert((1u64 << (l as u64)) == (1u64 << l));
}
proof fn lemma_rowcol26(x: u32, lg_k: u8)
  requires 4 <= lg_k <= 26, (x >> 6) < pow2(lg_k as nat), x != EMPTY
  ensures (x as int) < pow2((6 + lg_k) as nat)
{
    lemma2_to64(); lemma_pow2_adds(6, lg_k as nat);
    lemma_k_bound(lg_k);
    let kk = pow2(lg_k as nat) as u32;
    assert((x >> 6) < kk && kk <= 0x400_0000 ==> (x as u64) < 64 * (kk as u64)) by (bit_vector);
}
}
fn main(){}
