use vstd::prelude::*;
use vstd::arithmetic::power2::*;
verus! {
global size_of usize == 8;
// Unit hll_union (C03, C17): the real functions of hll/union.rs (free kernels, copy_or_downsample, convert_array8_to_type and the
// HllUnion methods update/update_from_array/update_from_list_or_set/merge_array_into_array_gadget/promote_gadget_and_merge_array/
// to_sketch/reset) against the view
//     fold(regs, lg)[i] = max{ regs[j] : j % 2^lg == i },   pmax = register-wise max,
// with Array4/Array6/Array8 BY CONTRACT over uninterpreted views regs()/lg()/ooo()/hip() (their bodies are verified in the units
// hll_array4, hll_array6, hll_array8, hll_array8_merge).
// EXPECTED FAILURES on the current /repo (genuine, replayed defects; the clauses are kept on purpose):
//   /*@C03.flagflow*/      copy_or_downsample: an out-of-order Hll4/Hll6 source (src_lg_k <= tgt_lg_k) is copied through coupons into a
//                          fresh in-order Array8 whose hip_accum is then set to the source's (0 for an out-of-order source) => estimate 0.
//   /*@C03.convert.flag*/  convert_array8_to_type: the Hll6/Hll4 result is built by Array6::new/Array4::new + update() and stays in-order
//                          although the Array8 gadget is out of order (bounds then come from the HIP tables).
// convert_array8_to_type and registers: what the CODE does is conv_regs (Hll6: min(v,63); Hll4: v & 63 because pack_coupon keeps six
// bits); what the PROPERTY needs is "every register kept", which holds exactly when every gadget register is <= 63 (bounded);
// both are stated under /*@C03.convert.regs*/.  (Registers above 63 can only enter through a crafted Hll8 image.)

// ================= coupons (hll/mod.rs) =================
const KEY_BITS_26 : u32 = 26 ;


exec const KEY_MASK_26 : u32 ensures KEY_MASK_26 == 0x3ffffff {
proof {
assert ( ( 1u32 << 26u32 ) - 1 == 0x3ffffff ) by ( bit_vector ) ;
}
( 1 << KEY_BITS_26 ) - 1 }


spec fn cslot(c: u32) -> u32 { c & 0x3ffffff }
spec fn cval(c: u32) -> u8 { (c >> 26) as u8 }
// the slot a coupon addresses in a sketch with 2^lg registers
spec fn slot_of(c: u32, lg: u8) -> int { (cslot(c) as int) % (pow2(lg as nat) as int) }
spec fn low6(v: u8) -> u8 { v & 63 }

fn pack_coupon ( slot : u32 , value : u8 ) -> ( r : u32 ) ensures cslot ( r ) == slot & 0x3ffffff , cval ( r ) == low6 ( value ) {
proof {
assert ( ( ( ( ( value as u32 ) << 26u32 ) | ( slot & 0x3ffffffu32 ) ) & 0x3ffffffu32 ) == ( slot & 0x3ffffffu32 ) ) by ( bit_vector ) ;
assert ( ( ( ( ( ( value as u32 ) << 26u32 ) | ( slot & 0x3ffffffu32 ) ) >> 26u32 ) as u8 ) == ( value & 63u8 ) ) by ( bit_vector ) ;
let g_v = value as u32 ;
let g_s = slot ;
assert ( ( g_v << 26 ) | ( g_s & 0x3ffffff ) == ( g_s & 0x3ffffff ) | ( g_v << 26 ) && g_s & 0x3ffffff == 0x3ffffff & g_s && g_s & 0x3ffffff == g_s % 0x4000000 ) by ( bit_vector ) ;
}
( ( value as u32 ) << KEY_BITS_26 ) | ( slot & KEY_MASK_26 ) }


#[derive(Clone, Copy, PartialEq, Eq, Structural)]
enum HllType {
Hll4 , Hll6 , Hll8 , }


// ================= the abstract view =================
spec fn max8(a: u8, b: u8) -> u8 { if a >= b { a } else { b } }
spec fn zeros(n: nat) -> Seq<u8> { Seq::new(n, |i: int| 0u8) }
// register-wise maximum
spec fn pmax(a: Seq<u8>, b: Seq<u8>) -> Seq<u8> { Seq::new(a.len(), |i: int| max8(a[i], b[i])) }
// max of the source registers j < n with j % k == i  (the registers that fold onto slot i of a k-register sketch)
spec fn foldmax(src: Seq<u8>, k: int, i: int, n: int) -> u8 decreases n {
    if n <= 0 { 0 } else {
        let prev = foldmax(src, k, i, n - 1);
        if (n - 1) % k == i { max8(prev, src[n - 1]) } else { prev }
    }
}
// fold(regs, lg)[i] = max{ regs[j] : j == i mod 2^lg }
spec fn fold(src: Seq<u8>, lg: u8) -> Seq<u8> {
    Seq::new(pow2(lg as nat), |i: int| foldmax(src, pow2(lg as nat) as int, i, src.len() as int))
}
spec fn clamp63(v: u8) -> u8 { if v > 63 { 63u8 } else { v } }
spec fn bounded(r: Seq<u8>) -> bool { forall|i: int| 0 <= i < r.len() ==> #[trigger] r[i] <= 63 }

// fold is what its name says: an upper bound of the class, attained (or 0 for an empty class)
proof fn lemma_foldmax_upper(src: Seq<u8>, k: int, i: int, n: int, j: int)
  requires 0 <= j < n, j % k == i
  ensures src[j] <= foldmax(src, k, i, n)
  decreases n
{
    if j < n - 1 { lemma_foldmax_upper(src, k, i, n - 1, j); }
}
proof fn lemma_foldmax_attained(src: Seq<u8>, k: int, i: int, n: int)
  ensures foldmax(src, k, i, n) == 0 || exists|j: int| 0 <= j < n && j % k == i && #[trigger] src[j] == foldmax(src, k, i, n)
  decreases n
{
    if n > 0 {
        lemma_foldmax_attained(src, k, i, n - 1);
        let p = foldmax(src, k, i, n - 1);
        if p != 0 {
            let j = choose|j: int| 0 <= j < n - 1 && j % k == i && #[trigger] src[j] == p;
            assert(src[j] == p);
        }
        if (n - 1) % k == i { assert(src[n - 1] == src[n - 1]); }
    }
}
// folding to the sketch's own size changes nothing
proof fn lemma_foldmax_id(src: Seq<u8>, k: int, i: int, n: int)
  requires 0 <= i < k, 0 <= n <= k
  ensures foldmax(src, k, i, n) == (if i < n { src[i] } else { 0u8 })
  decreases n
{
    if n > 0 {
        lemma_foldmax_id(src, k, i, n - 1);
        vstd::arithmetic::div_mod::lemma_small_mod((n - 1) as nat, k as nat);
    }
}
proof fn lemma_fold_id(src: Seq<u8>, lg: u8)
  requires src.len() == pow2(lg as nat)
  ensures fold(src, lg) == src
{
    assert forall|i: int| 0 <= i < src.len() implies #[trigger] fold(src, lg)[i] == src[i] by { lemma_foldmax_id(src, src.len() as int, i, src.len() as int); }
    assert(fold(src, lg) =~= src);
}
proof fn lemma_pmax_zeros(a: Seq<u8>)
  ensures pmax(zeros(a.len()), a) == a
{
    assert(pmax(zeros(a.len()), a) =~= a);
}

proof fn lemma_k(l: u8)
  requires 4 <= l <= 21
  ensures 16 <= pow2(l as nat) <= 0x20_0000, (1u32 << l) == pow2(l as nat)
{
    lemma2_to64();
    if l < 21 { lemma_pow2_strictly_increases(l as nat, 21); }
    if l > 4 { lemma_pow2_strictly_increases(4, l as nat); }
    vstd::bits::lemma_u32_shl_is_mul(1, l as u32);
    assert((1u32 << (l as u32)) == (1u32 << l));
}
proof fn lemma_lbm(n: nat)
  ensures vstd::bits::low_bits_mask(n) == pow2(n) - 1
  decreases n
{
    lemma2_to64();
    vstd::bits::lemma_low_bits_mask_values();
    if n > 0 { lemma_lbm((n - 1) as nat); vstd::bits::lemma_low_bits_mask_unfold(n); lemma_pow2_unfold(n); }
}
proof fn lemma_mask(x: u32, l: u8)
  requires 4 <= l <= 21
  ensures (x & (((1u32 << l) - 1) as u32)) == (x as int) % (pow2(l as nat) as int), (x & (((1u32 << l) - 1) as u32)) < pow2(l as nat),
{
    lemma_k(l);
    vstd::bits::lemma_u32_low_bits_mask_is_mod(x, l as nat);
    lemma_lbm(l as nat);
}
// a slot below 2^lg packed into a coupon addresses itself
proof fn lemma_slot_roundtrip(slot: u32, lg: u8, c: u32)
  requires 4 <= lg <= 21, slot < pow2(lg as nat), cslot(c) == slot & 0x3ffffff
  ensures slot_of(c, lg) == slot
{
    lemma_k(lg);
    assert(slot < 0x4000000 ==> (slot & 0x3ffffffu32) == slot) by (bit_vector);
    vstd::arithmetic::div_mod::lemma_small_mod(slot as nat, pow2(lg as nat));
}
proof fn lemma_low6(v: u8)
  ensures v <= 63 ==> low6(v) == v, low6(v) <= 63, low6(clamp63(v)) == clamp63(v), low6(0) == 0
{
    assert(v <= 63 ==> (v & 63u8) == v) by (bit_vector);
    assert((v & 63u8) <= 63) by (bit_vector);
    assert((63u8 & 63u8) == 63u8) by (bit_vector);
    assert((0u8 & 63u8) == 0u8) by (bit_vector);
}

// ================= arrays by contract (each verified in its own unit: hll_array4 / hll_array6 / hll_array8 / hll_array8_merge) =================
// views: regs() the 2^lg registers, lg(), ooo() the estimator's out-of-order flag, hip() the HIP accumulator
#[verifier::external_body] struct Array4 { _p: u8 }
#[verifier::external_body] struct Array6 { _p: u8 }
#[verifier::external_body] struct Array8 { _p: u8 }
#[verifier::external_body] struct List { _p: u8 }
#[verifier::external_body] struct HashSet { _p: u8 }

impl Array4 {
    uninterp spec fn regs(&self) -> Seq<u8>;
    uninterp spec fn lg(&self) -> u8;
    uninterp spec fn ooo(&self) -> bool;
    uninterp spec fn hip(&self) -> f64;
    spec fn shape(&self) -> bool { 4 <= self.lg() <= 21 && self.regs().len() == pow2(self.lg() as nat) }
    spec fn awf(&self) -> bool { self.shape() && bounded(self.regs()) }
    // num_zeros / cur_min caches agree with the registers (what update() relies on)
    uninterp spec fn cache_ok(&self) -> bool;
    spec fn wf(&self) -> bool { self.awf() && self.cache_ok() }
    #[verifier::external_body] fn new(lg_config_k: u8) -> (r: Self) requires 4 <= lg_config_k <= 21 ensures r.wf(), r.lg() == lg_config_k, r.regs() == zeros(pow2(lg_config_k as nat)), !r.ooo() { unimplemented!() }
    #[verifier::external_body] fn get(&self, slot: u32) -> (r: u8) requires self.awf(), slot < self.regs().len() ensures r == self.regs()[slot as int] { unimplemented!() }
    #[verifier::external_body] fn num_registers(&self) -> (r: usize) requires self.shape() ensures r == self.regs().len() { unimplemented!() }
    #[verifier::external_body] fn hip_accum(&self) -> (r: f64) ensures r == self.hip() { unimplemented!() }
    #[verifier::external_body] fn estimate(&self) -> f64 { unimplemented!() }
    #[verifier::external_body] fn set_hip_accum(&mut self, value: f64)
      ensures final(self).regs() == old(self).regs(), final(self).lg() == old(self).lg(), final(self).ooo() == old(self).ooo(), final(self).cache_ok() == old(self).cache_ok(), final(self).hip() == value { unimplemented!() }
    #[verifier::external_body] fn update(&mut self, coupon: u32)
      requires old(self).wf()
      ensures final(self).wf(), final(self).lg() == old(self).lg(), final(self).ooo() == old(self).ooo(),
        final(self).regs() == old(self).regs().update(slot_of(coupon, old(self).lg()), max8(old(self).regs()[slot_of(coupon, old(self).lg())], cval(coupon)))
    { unimplemented!() }
}
impl Array6 {
    uninterp spec fn regs(&self) -> Seq<u8>;
    uninterp spec fn lg(&self) -> u8;
    uninterp spec fn ooo(&self) -> bool;
    uninterp spec fn hip(&self) -> f64;
    spec fn shape(&self) -> bool { 4 <= self.lg() <= 21 && self.regs().len() == pow2(self.lg() as nat) }
    spec fn awf(&self) -> bool { self.shape() && bounded(self.regs()) }
    // num_zeros / cur_min caches agree with the registers (what update() relies on)
    uninterp spec fn cache_ok(&self) -> bool;
    spec fn wf(&self) -> bool { self.awf() && self.cache_ok() }
    #[verifier::external_body] fn new(lg_config_k: u8) -> (r: Self) requires 4 <= lg_config_k <= 21 ensures r.wf(), r.lg() == lg_config_k, r.regs() == zeros(pow2(lg_config_k as nat)), !r.ooo() { unimplemented!() }
    #[verifier::external_body] fn get(&self, slot: u32) -> (r: u8) requires self.awf(), slot < self.regs().len() ensures r == self.regs()[slot as int] { unimplemented!() }
    #[verifier::external_body] fn num_registers(&self) -> (r: usize) requires self.shape() ensures r == self.regs().len() { unimplemented!() }
    #[verifier::external_body] fn hip_accum(&self) -> (r: f64) ensures r == self.hip() { unimplemented!() }
    #[verifier::external_body] fn estimate(&self) -> f64 { unimplemented!() }
    #[verifier::external_body] fn set_hip_accum(&mut self, value: f64)
      ensures final(self).regs() == old(self).regs(), final(self).lg() == old(self).lg(), final(self).ooo() == old(self).ooo(), final(self).cache_ok() == old(self).cache_ok(), final(self).hip() == value { unimplemented!() }
    #[verifier::external_body] fn update(&mut self, coupon: u32)
      requires old(self).wf()
      ensures final(self).wf(), final(self).lg() == old(self).lg(), final(self).ooo() == old(self).ooo(),
        final(self).regs() == old(self).regs().update(slot_of(coupon, old(self).lg()), max8(old(self).regs()[slot_of(coupon, old(self).lg())], cval(coupon)))
    { unimplemented!() }
}
impl Array8 {
    uninterp spec fn regs(&self) -> Seq<u8>;
    uninterp spec fn lg(&self) -> u8;
    uninterp spec fn ooo(&self) -> bool;
    uninterp spec fn hip(&self) -> f64;
    spec fn shape(&self) -> bool { 4 <= self.lg() <= 21 && self.regs().len() == pow2(self.lg() as nat) }
    // num_zeros equals the number of zero registers (what update() relies on; set_register() does not maintain it)
    uninterp spec fn cache_ok(&self) -> bool;
    spec fn wf(&self) -> bool { self.shape() && self.cache_ok() }
    #[verifier::external_body] fn new(lg_config_k: u8) -> (r: Self) requires 4 <= lg_config_k <= 21 ensures r.wf(), r.lg() == lg_config_k, r.regs() == zeros(pow2(lg_config_k as nat)), !r.ooo() { unimplemented!() }
    #[verifier::external_body] fn values(&self) -> (r: &[u8]) ensures r@ == self.regs() { unimplemented!() }
    #[verifier::external_body] fn num_registers(&self) -> (r: usize) requires self.shape() ensures r == self.regs().len() { unimplemented!() }
    #[verifier::external_body] fn hip_accum(&self) -> (r: f64) ensures r == self.hip() { unimplemented!() }
    #[verifier::external_body] fn estimate(&self) -> f64 { unimplemented!() }
    #[verifier::external_body] fn set_hip_accum(&mut self, value: f64)
      ensures final(self).regs() == old(self).regs(), final(self).lg() == old(self).lg(), final(self).ooo() == old(self).ooo(), final(self).cache_ok() == old(self).cache_ok(), final(self).hip() == value { unimplemented!() }
    #[verifier::external_body] fn update(&mut self, coupon: u32)
      requires old(self).wf()
      ensures final(self).wf(), final(self).lg() == old(self).lg(), final(self).ooo() == old(self).ooo(),
        final(self).regs() == old(self).regs().update(slot_of(coupon, old(self).lg()), max8(old(self).regs()[slot_of(coupon, old(self).lg())], cval(coupon)))
    { unimplemented!() }
    #[verifier::external_body] fn set_register(&mut self, slot: usize, value: u8)
      requires old(self).shape(), slot < old(self).regs().len()
      ensures final(self).regs() == old(self).regs().update(slot as int, value), final(self).lg() == old(self).lg(), final(self).ooo() == old(self).ooo(), final(self).hip() == old(self).hip()
    { unimplemented!() }
    #[verifier::external_body] fn rebuild_estimator_from_registers(&mut self)
      requires old(self).shape()
      ensures final(self).regs() == old(self).regs(), final(self).lg() == old(self).lg(), final(self).ooo(), final(self).cache_ok()
    { unimplemented!() }
    // the two kernels below are verified on their real bodies in unit hll_array8_merge (same clauses)
    #[verifier::external_body] fn merge_array_same_lgk(&mut self, src: &[u8])
      requires old(self).shape(), src@.len() == old(self).regs().len()
      ensures final(self).lg() == old(self).lg(), final(self).regs() == pmax(old(self).regs(), src@), final(self).ooo(), final(self).cache_ok()
    { unimplemented!() }
    #[verifier::external_body] fn merge_array_with_downsample(&mut self, src: &[u8], src_lg_k: u8)
      requires old(self).shape(), old(self).lg() < src_lg_k <= 21, src@.len() == pow2(src_lg_k as nat)
      ensures final(self).lg() == old(self).lg(), final(self).regs() == pmax(old(self).regs(), fold(src@, old(self).lg())), final(self).ooo(), final(self).cache_ok()
    { unimplemented!() }
}
impl List { uninterp spec fn coupons(&self) -> Set<u32>; }
impl HashSet { uninterp spec fn coupons(&self) -> Set<u32>; }
impl Clone for List {
    #[verifier::external_body] fn clone(&self) -> (r: Self) ensures r == *self { unimplemented!() }
}
impl Clone for HashSet {
    #[verifier::external_body] fn clone(&self) -> (r: Self) ensures r == *self { unimplemented!() }
}
// usize::trailing_zeros (std leaf): only its value on powers of two is assumed
pub assume_specification [usize::trailing_zeros] (n: usize) -> (r: u32)
  ensures forall|l: nat| l < 64 && n == #[trigger] pow2(l) ==> r == l;
impl Clone for Array8 {
    #[verifier::external_body] fn clone(&self) -> (r: Self) ensures r == *self { unimplemented!() }
}

enum Mode {
List {
list : List , hll_type : HllType }
, Set {
set : HashSet , hll_type : HllType }
, Array4 ( Array4 ) , Array6 ( Array6 ) , Array8 ( Array8 ) , }

spec fn mode_ooo(m: &Mode) -> bool { match m { Mode::Array4(a) => a.ooo(), Mode::Array6(a) => a.ooo(), Mode::Array8(a) => a.ooo(), _ => false } }
spec fn mode_regs(m: &Mode) -> Seq<u8> { match m { Mode::Array4(a) => a.regs(), Mode::Array6(a) => a.regs(), Mode::Array8(a) => a.regs(), _ => Seq::empty() } }
spec fn mode_lg(m: &Mode) -> u8 { match m { Mode::Array4(a) => a.lg(), Mode::Array6(a) => a.lg(), Mode::Array8(a) => a.lg(), _ => 0 } }
spec fn mode_hip(m: &Mode) -> f64 { match m { Mode::Array4(a) => a.hip(), Mode::Array6(a) => a.hip(), Mode::Array8(a) => a.hip(), _ => 0.0 } }
spec fn mode_is_array(m: &Mode) -> bool { m is Array4 || m is Array6 || m is Array8 }
// "source is in array mode" and the array is well formed (Hll4/Hll6 registers are at most 63 by construction)
spec fn mode_awf(m: &Mode) -> bool { match m { Mode::Array4(a) => a.awf(), Mode::Array6(a) => a.awf(), Mode::Array8(a) => a.shape(), _ => false } }

// ================= hll/union.rs free functions (real code + overlay) =================

fn get_array_hip_accum ( mode : & Mode ) -> ( r : f64 ) requires mode_is_array ( mode ) ensures r == mode_hip ( mode ) {
match mode {
Mode :: Array8 ( src ) => src . hip_accum ( ) , Mode :: Array6 ( src ) => src . hip_accum ( ) , Mode :: Array4 ( src ) => src . hip_accum ( ) , Mode :: List {
.. }
| Mode :: Set {
.. }
=> {
unreachable! ( ) ;
}
}
}


fn merge_array46_same_lgk ( dst : & mut Array8 , num_registers : usize , get_value : impl Fn ( u32 ) -> u8 , Ghost ( src ) : Ghost < Seq < u8 > > ) requires old ( dst ) . shape ( ) , num_registers == old ( dst ) . regs ( ) . len ( ) , num_registers == src . len ( ) , forall | s : u32 | s < num_registers ==> # [ trigger ] get_value . requires ( ( s , ) ) , forall | s : u32 , v : u8 | s < num_registers && # [ trigger ] get_value . ensures ( ( s , ) , v ) ==> v == src [ s as int ] , ensures final ( dst ) . wf ( ) , final ( dst ) . lg ( ) == old ( dst ) . lg ( ) ,
/*@C03.same_lgk.regs*/ final ( dst ) . regs ( ) == pmax ( old ( dst ) . regs ( ) , src ) ,
/*@C03.flagflow.merged*/ final ( dst ) . ooo ( ) , {
proof {
lemma_k ( dst . lg ( ) ) ;
}
for slot in 0 .. num_registers invariant dst . shape ( ) , dst . lg ( ) == old ( dst ) . lg ( ) , num_registers == dst . regs ( ) . len ( ) , num_registers == src . len ( ) , num_registers <= 0x20_0000 , forall | s : u32 | s < num_registers ==> # [ trigger ] get_value . requires ( ( s , ) ) , forall | s : u32 , v : u8 | s < num_registers && # [ trigger ] get_value . ensures ( ( s , ) , v ) ==> v == src [ s as int ] ,
/*@C03.same_lgk.regs*/ forall | j : int | 0 <= j < num_registers ==> # [ trigger ] dst . regs ( ) [ j ] == ( if j < slot {
max8 ( old ( dst ) . regs ( ) [ j ] , src [ j ] ) }
else {
old ( dst ) . regs ( ) [ j ] }
) , {
let val = get_value ( slot as u32 ) ;
let current = dst . values ( ) [ slot ] ;
if val > current {
dst . set_register ( slot , val ) ;
}
}
dst . rebuild_estimator_from_registers ( ) ;
proof {
assert ( dst . regs ( ) =~= pmax ( old ( dst ) . regs ( ) , src ) ) ;
}
}


fn merge_array_same_lgk ( dst : & mut Array8 , src_mode : & Mode ) requires old ( dst ) . shape ( ) , mode_awf ( src_mode ) , mode_lg ( src_mode ) == old ( dst ) . lg ( ) ensures final ( dst ) . wf ( ) , final ( dst ) . lg ( ) == old ( dst ) . lg ( ) ,
/*@C03.same_lgk.regs*/ final ( dst ) . regs ( ) == pmax ( old ( dst ) . regs ( ) , mode_regs ( src_mode ) ) ,
/*@C03.flagflow.merged*/ final ( dst ) . ooo ( ) , {
match src_mode {
Mode :: Array8 ( src ) => {
dst . merge_array_same_lgk ( src . values ( ) ) ;
}
Mode :: Array6 ( src ) => {
merge_array46_same_lgk ( dst , src . num_registers ( ) , | slot : u32 | -> ( r : u8 ) requires src . awf ( ) , slot < src . regs ( ) . len ( ) ensures r == src . regs ( ) [ slot as int ] {
src . get ( slot ) }
, Ghost ( src . regs ( ) ) ) ;
}
Mode :: Array4 ( src ) => {
merge_array46_same_lgk ( dst , src . num_registers ( ) , | slot : u32 | -> ( r : u8 ) requires src . awf ( ) , slot < src . regs ( ) . len ( ) ensures r == src . regs ( ) [ slot as int ] {
src . get ( slot ) }
, Ghost ( src . regs ( ) ) ) ;
}
_ => {
unreachable! ( ) }
}
}


fn merge_array46_with_downsample ( dst : & mut Array8 , dst_lg_k : u8 , num_registers : usize , get_value : impl Fn ( u32 ) -> u8 , Ghost ( src ) : Ghost < Seq < u8 > > , ) requires old ( dst ) . shape ( ) , old ( dst ) . lg ( ) == dst_lg_k , num_registers == src . len ( ) , num_registers <= 0x20_0000 , forall | s : u32 | s < num_registers ==> # [ trigger ] get_value . requires ( ( s , ) ) , forall | s : u32 , v : u8 | s < num_registers && # [ trigger ] get_value . ensures ( ( s , ) , v ) ==> v == src [ s as int ] , ensures final ( dst ) . wf ( ) , final ( dst ) . lg ( ) == old ( dst ) . lg ( ) ,
/*@C03.downsample.regs*/ final ( dst ) . regs ( ) == pmax ( old ( dst ) . regs ( ) , fold ( src , dst_lg_k ) ) ,
/*@C03.flagflow.merged*/ final ( dst ) . ooo ( ) , {
proof {
lemma_k ( dst_lg_k ) ;
}
let dst_mask = ( 1 << dst_lg_k ) - 1 ;
for src_slot in 0 .. num_registers invariant dst . shape ( ) , dst . lg ( ) == dst_lg_k , dst . regs ( ) . len ( ) == old ( dst ) . regs ( ) . len ( ) , dst_mask == ( ( 1u32 << dst_lg_k ) - 1 ) as u32 , num_registers == src . len ( ) , num_registers <= 0x20_0000 , forall | s : u32 | s < num_registers ==> # [ trigger ] get_value . requires ( ( s , ) ) , forall | s : u32 , v : u8 | s < num_registers && # [ trigger ] get_value . ensures ( ( s , ) , v ) ==> v == src [ s as int ] ,
/*@C03.downsample.regs*/ forall | i : int | 0 <= i < dst . regs ( ) . len ( ) ==> # [ trigger ] dst . regs ( ) [ i ] == max8 ( old ( dst ) . regs ( ) [ i ] , foldmax ( src , pow2 ( dst_lg_k as nat ) as int , i , src_slot as int ) ) , {
let val = get_value ( src_slot as u32 ) ;
proof {
lemma_mask ( src_slot as u32 , dst_lg_k ) ;
}
if val > 0 {
let dst_slot = ( src_slot as u32 & dst_mask ) as usize ;
let current = dst . values ( ) [ dst_slot ] ;
if val > current {
dst . set_register ( dst_slot , val ) ;
}
}
}
dst . rebuild_estimator_from_registers ( ) ;
proof {
assert ( dst . regs ( ) =~= pmax ( old ( dst ) . regs ( ) , fold ( src , dst_lg_k ) ) ) ;
}
}


fn merge_array_with_downsample ( dst : & mut Array8 , dst_lg_k : u8 , src_mode : & Mode , src_lg_k : u8 ) requires old ( dst ) . shape ( ) , old ( dst ) . lg ( ) == dst_lg_k , mode_awf ( src_mode ) , mode_lg ( src_mode ) == src_lg_k , src_lg_k > dst_lg_k ensures final ( dst ) . wf ( ) , final ( dst ) . lg ( ) == old ( dst ) . lg ( ) ,
/*@C03.downsample.regs*/ final ( dst ) . regs ( ) == pmax ( old ( dst ) . regs ( ) , fold ( mode_regs ( src_mode ) , dst_lg_k ) ) ,
/*@C03.flagflow.merged*/ final ( dst ) . ooo ( ) , {
proof {
lemma_k ( src_lg_k ) ;
}
assert! ( src_lg_k > dst_lg_k ) ;
match src_mode {
Mode :: Array8 ( src ) => {
dst . merge_array_with_downsample ( src . values ( ) , src_lg_k ) ;
}
Mode :: Array6 ( src ) => {
merge_array46_with_downsample ( dst , dst_lg_k , src . num_registers ( ) , | slot : u32 | -> ( r : u8 ) requires src . awf ( ) , slot < src . regs ( ) . len ( ) ensures r == src . regs ( ) [ slot as int ] {
src . get ( slot ) }
, Ghost ( src . regs ( ) ) ) ;
}
Mode :: Array4 ( src ) => {
merge_array46_with_downsample ( dst , dst_lg_k , src . num_registers ( ) , | slot : u32 | -> ( r : u8 ) requires src . awf ( ) , slot < src . regs ( ) . len ( ) ensures r == src . regs ( ) [ slot as int ] {
src . get ( slot ) }
, Ghost ( src . regs ( ) ) ) ;
}
_ => unreachable! ( ) , }
}


fn merge_array_into_array8 ( dst_array8 : & mut Array8 , dst_lg_k : u8 , src_mode : & Mode , src_lg_k : u8 ) requires old ( dst_array8 ) . shape ( ) , old ( dst_array8 ) . lg ( ) == dst_lg_k , mode_awf ( src_mode ) , mode_lg ( src_mode ) == src_lg_k , src_lg_k >= dst_lg_k ensures final ( dst_array8 ) . wf ( ) , final ( dst_array8 ) . lg ( ) == old ( dst_array8 ) . lg ( ) ,
/*@C03.merge.regs*/ final ( dst_array8 ) . regs ( ) == pmax ( old ( dst_array8 ) . regs ( ) , fold ( mode_regs ( src_mode ) , dst_lg_k ) ) ,
/*@C03.flagflow.merged*/ final ( dst_array8 ) . ooo ( ) , {
assert! ( src_lg_k >= dst_lg_k ) ;
if dst_lg_k == src_lg_k {
proof {
lemma_fold_id ( mode_regs ( src_mode ) , dst_lg_k ) ;
}
merge_array_same_lgk ( dst_array8 , src_mode ) ;
}
else {
merge_array_with_downsample ( dst_array8 , dst_lg_k , src_mode , src_lg_k ) ;
}
}


fn copy_array46_via_coupons ( dst : & mut Array8 , num_registers : usize , get_value : impl Fn ( u32 ) -> u8 , Ghost ( src ) : Ghost < Seq < u8 > > ) requires old ( dst ) . wf ( ) , num_registers == old ( dst ) . regs ( ) . len ( ) , num_registers == src . len ( ) , bounded ( src ) , forall | s : u32 | s < num_registers ==> # [ trigger ] get_value . requires ( ( s , ) ) , forall | s : u32 , v : u8 | s < num_registers && # [ trigger ] get_value . ensures ( ( s , ) , v ) ==> v == src [ s as int ] , ensures final ( dst ) . wf ( ) , final ( dst ) . lg ( ) == old ( dst ) . lg ( ) , final ( dst ) . ooo ( ) == old ( dst ) . ooo ( ) ,
/*@C03.copy46.regs*/ final ( dst ) . regs ( ) == pmax ( old ( dst ) . regs ( ) , src ) , {
proof {
lemma_k ( dst . lg ( ) ) ;
}
for slot in 0 .. num_registers invariant dst . wf ( ) , dst . lg ( ) == old ( dst ) . lg ( ) , dst . ooo ( ) == old ( dst ) . ooo ( ) , num_registers == dst . regs ( ) . len ( ) , num_registers == src . len ( ) , num_registers <= 0x20_0000 , bounded ( src ) , forall | s : u32 | s < num_registers ==> # [ trigger ] get_value . requires ( ( s , ) ) , forall | s : u32 , v : u8 | s < num_registers && # [ trigger ] get_value . ensures ( ( s , ) , v ) ==> v == src [ s as int ] ,
/*@C03.copy46.regs*/ forall | j : int | 0 <= j < num_registers ==> # [ trigger ] dst . regs ( ) [ j ] == ( if j < slot {
max8 ( old ( dst ) . regs ( ) [ j ] , src [ j ] ) }
else {
old ( dst ) . regs ( ) [ j ] }
) , {
let val = get_value ( slot as u32 ) ;
if val > 0 {
let coupon = pack_coupon ( slot as u32 , val ) ;
proof {
lemma_slot_roundtrip ( slot as u32 , dst . lg ( ) , coupon ) ;
lemma_low6 ( val ) ;
}
dst . update ( coupon ) ;
}
}
proof {
assert ( dst . regs ( ) =~= pmax ( old ( dst ) . regs ( ) , src ) ) ;
}
}


spec fn min8(a: u8, b: u8) -> u8 { if a <= b { a } else { b } }

fn copy_or_downsample ( src_mode : & Mode , src_lg_k : u8 , tgt_lg_k : u8 ) -> ( result : Array8 ) requires mode_awf ( src_mode ) , mode_lg ( src_mode ) == src_lg_k , 4 <= tgt_lg_k <= 21 ensures result . wf ( ) , result . lg ( ) == min8 ( src_lg_k , tgt_lg_k ) ,
/*@C03.copy.regs*/ result . regs ( ) == fold ( mode_regs ( src_mode ) , min8 ( src_lg_k , tgt_lg_k ) ) ,
/*@C03.flagflow*/ mode_ooo ( src_mode ) ==> result . ooo ( ) ,
/*@C03.flagflow.merged*/ src_lg_k > tgt_lg_k ==> result . ooo ( ) ,
/*@C03.copy.hip*/ src_lg_k <= tgt_lg_k ==> result . hip ( ) == mode_hip ( src_mode ) , {
if src_lg_k <= tgt_lg_k {
proof {
lemma_k ( src_lg_k ) ;
lemma_fold_id ( mode_regs ( src_mode ) , src_lg_k ) ;
lemma_pmax_zeros ( mode_regs ( src_mode ) ) ;
}
let mut result = Array8 :: new ( src_lg_k ) ;
let src_hip = get_array_hip_accum ( src_mode ) ;
match src_mode {
Mode :: Array8 ( src ) => {
result . merge_array_same_lgk ( src . values ( ) ) ;
}
Mode :: Array6 ( src ) => {
copy_array46_via_coupons ( & mut result , src . num_registers ( ) , | slot : u32 | -> ( r : u8 ) requires src . awf ( ) , slot < src . regs ( ) . len ( ) ensures r == src . regs ( ) [ slot as int ] {
src . get ( slot ) }
, Ghost ( src . regs ( ) ) ) ;
}
Mode :: Array4 ( src ) => {
copy_array46_via_coupons ( & mut result , src . num_registers ( ) , | slot : u32 | -> ( r : u8 ) requires src . awf ( ) , slot < src . regs ( ) . len ( ) ensures r == src . regs ( ) [ slot as int ] {
src . get ( slot ) }
, Ghost ( src . regs ( ) ) ) ;
}
Mode :: List {
.. }
| Mode :: Set {
.. }
=> {
unreachable! ( ) ;
}
}
result . rebuild_estimator_from_registers ( ) ;
result . set_hip_accum ( src_hip ) ;
result }
else {
proof {
lemma_k ( tgt_lg_k ) ;
lemma_pmax_zeros ( fold ( mode_regs ( src_mode ) , tgt_lg_k ) ) ;
}
let mut result = Array8 :: new ( tgt_lg_k ) ;
merge_array_with_downsample ( & mut result , tgt_lg_k , src_mode , src_lg_k ) ;
result }
}


spec fn conv_regs(r: Seq<u8>, t: HllType) -> Seq<u8> {
    match t {
        HllType::Hll8 => r,
        HllType::Hll6 => Seq::new(r.len(), |i: int| clamp63(r[i])),
        HllType::Hll4 => Seq::new(r.len(), |i: int| low6(r[i])),
    }
}
proof fn lemma_conv_bounded(r: Seq<u8>, t: HllType)
  requires bounded(r)
  ensures conv_regs(r, t) == r
{
    assert forall|i: int| 0 <= i < r.len() implies low6(#[trigger] r[i]) == r[i] && clamp63(r[i]) == r[i] by { lemma_low6(r[i]); }
    assert(conv_regs(r, t) =~= r);
}
proof fn lemma_conv_is_bounded(r: Seq<u8>, t: HllType)
  requires t != HllType::Hll8
  ensures bounded(conv_regs(r, t))
{
    assert forall|i: int| 0 <= i < r.len() implies #[trigger] conv_regs(r, t)[i] <= 63 by { lemma_low6(r[i]); }
}
spec fn sk_type(m: &Mode) -> HllType {
    match m { Mode::List { hll_type, .. } => *hll_type, Mode::Set { hll_type, .. } => *hll_type, Mode::Array4(_) => HllType::Hll4, Mode::Array6(_) => HllType::Hll6, Mode::Array8(_) => HllType::Hll8 }
}

spec fn mode_coupons(m: &Mode) -> Set<u32> { match m { Mode::List { list, .. } => list.coupons(), Mode::Set { set, .. } => set.coupons(), _ => Set::empty() } }
spec fn mode_empty(m: &Mode) -> bool {
    match m {
        Mode::List { list, .. } => list.coupons() == Set::<u32>::empty(),
        Mode::Set { set, .. } => set.coupons() == Set::<u32>::empty(),
        _ => mode_regs(m) == zeros(mode_regs(m).len()),
    }
}
// a sketch has absorbed coupon c: it retains it (sparse modes) or the addressed register is at least the coupon's value
spec fn absorbed(m: &Mode, lg: u8, c: u32) -> bool {
    if mode_is_array(m) { mode_regs(m)[slot_of(c, lg)] >= cval(c) } else { mode_coupons(m).contains(c) }
}
// `new` is `old` after absorbing the coupons S: nothing lost, nothing invented
spec fn coupon_merge(old: Seq<u8>, s: Set<u32>, lg: u8, new: Seq<u8>) -> bool {
    &&& new.len() == old.len()
    &&& forall|i: int| 0 <= i < old.len() ==> #[trigger] new[i] >= old[i]
    &&& forall|c: u32| s.contains(c) ==> new[slot_of(c, lg)] >= #[trigger] cval(c)
    &&& forall|i: int| 0 <= i < old.len() ==> #[trigger] new[i] == old[i] || exists|c: u32| s.contains(c) && slot_of(c, lg) == i && #[trigger] cval(c) == new[i]
}

// a sketch with a non-zero register stays non-empty through fold / max / coupon absorption
spec fn nonzero(r: Seq<u8>) -> bool { exists|j: int| 0 <= j < r.len() && #[trigger] r[j] != 0 }
proof fn lemma_nonzero_iff(r: Seq<u8>)
  ensures nonzero(r) <==> r != zeros(r.len())
{
    if !nonzero(r) { assert(r =~= zeros(r.len())); }
    else { let j = choose|j: int| 0 <= j < r.len() && #[trigger] r[j] != 0; assert(zeros(r.len())[j] == 0); }
}
proof fn lemma_fold_nonzero(src: Seq<u8>, lg: u8)
  requires nonzero(src)
  ensures nonzero(fold(src, lg))
{
    let j = choose|j: int| 0 <= j < src.len() && #[trigger] src[j] != 0;
    let k = pow2(lg as nat) as int;
    lemma_pow2_pos(lg as nat);
    let i = j % k;
    vstd::arithmetic::div_mod::lemma_mod_bound(j, k);
    lemma_foldmax_upper(src, k, i, src.len() as int, j);
    assert(fold(src, lg)[i] != 0);
}
proof fn lemma_pmax_nonzero(a: Seq<u8>, b: Seq<u8>)
  requires a.len() == b.len(), nonzero(a) || nonzero(b)
  ensures nonzero(pmax(a, b))
{
    if nonzero(a) { let j = choose|j: int| 0 <= j < a.len() && #[trigger] a[j] != 0; assert(pmax(a, b)[j] != 0); }
    else { let j = choose|j: int| 0 <= j < b.len() && #[trigger] b[j] != 0; assert(pmax(a, b)[j] != 0); }
}
proof fn lemma_coupon_merge_nonzero(old: Seq<u8>, s: Set<u32>, lg: u8, new: Seq<u8>)
  requires coupon_merge(old, s, lg, new), nonzero(old)
  ensures nonzero(new)
{
    let j = choose|j: int| 0 <= j < old.len() && #[trigger] old[j] != 0;
    assert(new[j] >= old[j]);
}

struct HllSketch {
lg_config_k : u8 , mode : Mode , }

impl HllSketch {
    fn from_mode ( lg_config_k : u8 , mode : Mode ) -> ( r : Self ) ensures r . lg_config_k == lg_config_k , r . mode == mode {
Self {
lg_config_k , mode }
}


    fn mode ( & self ) -> ( r : & Mode ) ensures * r == self . mode {
& self . mode }


    fn mode_mut ( & mut self ) -> ( r : & mut Mode ) ensures * r == old ( self ) . mode , final ( self ) . mode == * final ( r ) , final ( self ) . lg_config_k == old ( self ) . lg_config_k {
& mut self . mode }


    fn target_type ( & self ) -> ( r : HllType ) ensures r == sk_type ( & self . mode ) {
match & self . mode {
Mode :: List {
hll_type , .. }
=> * hll_type , Mode :: Set {
hll_type , .. }
=> * hll_type , Mode :: Array4 ( _ ) => HllType :: Hll4 , Mode :: Array6 ( _ ) => HllType :: Hll6 , Mode :: Array8 ( _ ) => HllType :: Hll8 , }
}


    fn lg_config_k ( & self ) -> ( r : u8 ) ensures r == self . lg_config_k {
self . lg_config_k }


    // empty = no coupon retained / every register zero
    #[verifier::external_body]
    fn is_empty(&self) -> (r: bool)
      ensures r == mode_empty(&self.mode)
    { unimplemented!() }

    #[verifier::external_body]
    fn new(lg_config_k: u8, hll_type: HllType) -> (r: Self)
      requires 4 <= lg_config_k <= 21
      ensures r.lg_config_k == lg_config_k, r.mode is List, sk_type(&r.mode) == hll_type, mode_empty(&r.mode)
    { unimplemented!() }
}
impl Clone for HllSketch {
    #[verifier::external_body] fn clone(&self) -> (r: Self) ensures r == *self { unimplemented!() }
}

fn convert_array8_to_type ( src : & Array8 , lg_config_k : u8 , target_type : HllType ) -> ( result : HllSketch ) requires src . shape ( ) , src . lg ( ) == lg_config_k ensures result . lg_config_k == lg_config_k , mode_awf ( & result . mode ) , mode_lg ( & result . mode ) == lg_config_k , sk_type ( & result . mode ) == target_type ,
/*@C03.convert.regs*/ mode_regs ( & result . mode ) == conv_regs ( src . regs ( ) , target_type ) ,
/*@C03.convert.regs*/ bounded ( src . regs ( ) ) ==> mode_regs ( & result . mode ) == src . regs ( ) ,
/*@C03.convert.flag*/ mode_ooo ( & result . mode ) == src . ooo ( ) , {
proof {
lemma_k ( lg_config_k ) ;
if bounded ( src . regs ( ) ) {
lemma_conv_bounded ( src . regs ( ) , target_type ) ;
}
}
match target_type {
HllType :: Hll8 => HllSketch :: from_mode ( lg_config_k , Mode :: Array8 ( src . clone ( ) ) ) , HllType :: Hll6 => {
let mut array6 = Array6 :: new ( lg_config_k ) ;
for slot in 0 .. src . num_registers ( ) invariant src . shape ( ) , src . lg ( ) == lg_config_k , 4 <= lg_config_k <= 21 , array6 . wf ( ) , array6 . lg ( ) == lg_config_k , ! array6 . ooo ( ) , src . regs ( ) . len ( ) <= 0x20_0000 ,
/*@C03.convert.regs*/ forall | j : int | 0 <= j < src . regs ( ) . len ( ) ==> # [ trigger ] array6 . regs ( ) [ j ] == ( if j < slot {
clamp63 ( src . regs ( ) [ j ] ) }
else {
0u8 }
) , {
let val = src . values ( ) [ slot ] ;
if val > 0 {
let clamped_val = val . min ( 63 ) ;
let coupon = pack_coupon ( slot as u32 , clamped_val ) ;
proof {
lemma_slot_roundtrip ( slot as u32 , lg_config_k , coupon ) ;
lemma_low6 ( val ) ;
}
array6 . update ( coupon ) ;
}
}
let src_est = src . estimate ( ) ;
let arr6_est = array6 . estimate ( ) ;
if src_est > arr6_est {
array6 . set_hip_accum ( src_est ) ;
}
proof {
assert ( array6 . regs ( ) =~= conv_regs ( src . regs ( ) , target_type ) ) ;
}
HllSketch :: from_mode ( lg_config_k , Mode :: Array6 ( array6 ) ) }
HllType :: Hll4 => {
let mut array4 = Array4 :: new ( lg_config_k ) ;
for slot in 0 .. src . num_registers ( ) invariant src . shape ( ) , src . lg ( ) == lg_config_k , 4 <= lg_config_k <= 21 , array4 . wf ( ) , array4 . lg ( ) == lg_config_k , ! array4 . ooo ( ) , src . regs ( ) . len ( ) <= 0x20_0000 ,
/*@C03.convert.regs*/ forall | j : int | 0 <= j < src . regs ( ) . len ( ) ==> # [ trigger ] array4 . regs ( ) [ j ] == ( if j < slot {
low6 ( src . regs ( ) [ j ] ) }
else {
0u8 }
) , {
let val = src . values ( ) [ slot ] ;
proof {
lemma_low6 ( val ) ;
}
if val > 0 {
let coupon = pack_coupon ( slot as u32 , val ) ;
proof {
lemma_slot_roundtrip ( slot as u32 , lg_config_k , coupon ) ;
}
array4 . update ( coupon ) ;
}
}
let src_est = src . estimate ( ) ;
let arr4_est = array4 . estimate ( ) ;
if src_est > arr4_est {
array4 . set_hip_accum ( src_est ) ;
}
proof {
assert ( array4 . regs ( ) =~= conv_regs ( src . regs ( ) , target_type ) ) ;
}
HllSketch :: from_mode ( lg_config_k , Mode :: Array4 ( array4 ) ) }
}
}


// ================= HllUnion =================
struct HllUnion {
lg_max_k : u8 , gadget : HllSketch , }

// the gadget is always a Hll8 sketch: List/Set with target Hll8, or Array8 (never Array4/Array6)
spec fn g_ok(m: &Mode, lg: u8) -> bool {
    match m {
        Mode::List { hll_type, .. } => *hll_type == HllType::Hll8,
        Mode::Set { hll_type, .. } => *hll_type == HllType::Hll8,
        Mode::Array8(a) => a.wf() && a.lg() == lg,
        _ => false,
    }
}
// an input sketch
spec fn sk_wf(s: &HllSketch) -> bool {
    4 <= s.lg_config_k <= 21 && (mode_is_array(&s.mode) ==> mode_awf(&s.mode) && mode_lg(&s.mode) == s.lg_config_k)
}

// opaque: iterate the coupons of a List/Set source into the gadget (container iterators; HllSketch::update_with_coupon does the promotions)
#[verifier::external_body]
fn merge_coupons_into_gadget(gadget: &mut HllSketch, src_mode: &Mode)
  requires !mode_is_array(src_mode), 4 <= old(gadget).lg_config_k <= 21, g_ok(&old(gadget).mode, old(gadget).lg_config_k)
  ensures final(gadget).lg_config_k == old(gadget).lg_config_k, g_ok(&final(gadget).mode, final(gadget).lg_config_k),
    forall|c: u32| (absorbed(&old(gadget).mode, old(gadget).lg_config_k, c) || mode_coupons(src_mode).contains(c)) ==> #[trigger] absorbed(&final(gadget).mode, old(gadget).lg_config_k, c),
    mode_is_array(&old(gadget).mode) ==> mode_is_array(&final(gadget).mode) && mode_ooo(&final(gadget).mode) == mode_ooo(&old(gadget).mode)
        && coupon_merge(mode_regs(&old(gadget).mode), mode_coupons(src_mode), old(gadget).lg_config_k, mode_regs(&final(gadget).mode)),
    !mode_empty(src_mode) ==> !mode_empty(&final(gadget).mode),
{ unimplemented!() }

// opaque: iterate the coupons of a List/Set gadget into the freshly copied Array8
#[verifier::external_body]
fn merge_coupons_into_mode(dst: &mut Array8, src_mode: &Mode)
  requires !mode_is_array(src_mode), old(dst).wf()
  ensures final(dst).wf(), final(dst).lg() == old(dst).lg(), final(dst).ooo() == old(dst).ooo(),
    coupon_merge(old(dst).regs(), mode_coupons(src_mode), old(dst).lg(), final(dst).regs()),
{ unimplemented!() }

fn convert_coupon_mode_to_hll8 ( src_mode : & Mode , src_lg_k : u8 ) -> ( r : HllSketch ) requires ! mode_is_array ( src_mode ) ensures r . lg_config_k == src_lg_k , ! mode_is_array ( & r . mode ) , sk_type ( & r . mode ) == HllType :: Hll8 ,
/*@C03.sparse.copy*/ mode_coupons ( & r . mode ) == mode_coupons ( src_mode ) , ( r . mode is List ) == ( src_mode is List ) , {
match src_mode {
Mode :: List {
list , .. }
=> HllSketch :: from_mode ( src_lg_k , Mode :: List {
list : list . clone ( ) , hll_type : HllType :: Hll8 , }
, ) , Mode :: Set {
set , .. }
=> HllSketch :: from_mode ( src_lg_k , Mode :: Set {
set : set . clone ( ) , hll_type : HllType :: Hll8 , }
, ) , _ => unreachable! ( ) , }
}


// R12b: a DOCUMENTED panic ("# Panics: if lg_max_k is not in the range [4, 21]") is modelled as 'returns only if the condition holds':
// the condition is a tagged POSTCONDITION (`*_validated`) instead of a precondition, so weakening or removing the check is noticed.
// Body = the original statement.
#[verifier::external_body] fn vx_documented_panic(c: bool) ensures c { assert!(c); }

impl HllUnion {
    spec fn uwf(&self) -> bool {
        4 <= self.lg_max_k <= 21 && 4 <= self.gadget.lg_config_k <= self.lg_max_k && g_ok(&self.gadget.mode, self.gadget.lg_config_k)
    }

    fn update ( & mut self , sketch : & HllSketch ) requires old ( self ) . uwf ( ) , sk_wf ( sketch ) ensures final ( self ) . uwf ( ) , final ( self ) . lg_max_k == old ( self ) . lg_max_k ,
/*@C03.update.empty*/ mode_empty ( & sketch . mode ) ==> * final ( self ) == * old ( self ) , ! mode_empty ( & sketch . mode ) && mode_is_array ( & sketch . mode ) ==> ( final ( self ) . gadget . mode is Array8 ) ,
/*@C03.update.lgk*/ ! mode_empty ( & sketch . mode ) && mode_is_array ( & sketch . mode ) ==> ( final ( self ) . gadget . lg_config_k == upd_lg ( old ( self ) , & sketch . mode ) ) ,
/*@C03.update.regs.copy*/ ! mode_empty ( & sketch . mode ) && mode_is_array ( & sketch . mode ) ==> ( mode_empty ( & old ( self ) . gadget . mode ) ==> mode_regs ( & final ( self ) . gadget . mode ) == fold ( mode_regs ( & sketch . mode ) , upd_lg ( old ( self ) , & sketch . mode ) ) ) ,
/*@C03.update.regs.merge*/ ! mode_empty ( & sketch . mode ) && mode_is_array ( & sketch . mode ) ==> ( ! mode_empty ( & old ( self ) . gadget . mode ) && old ( self ) . gadget . mode is Array8 ==> mode_regs ( & final ( self ) . gadget . mode ) == pmax ( fold ( mode_regs ( & old ( self ) . gadget . mode ) , upd_lg ( old ( self ) , & sketch . mode ) ) , fold ( mode_regs ( & sketch . mode ) , upd_lg ( old ( self ) , & sketch . mode ) ) ) ) ,
/*@C03.update.regs.promote*/ ! mode_empty ( & sketch . mode ) && mode_is_array ( & sketch . mode ) ==> ( ! mode_empty ( & old ( self ) . gadget . mode ) && ! ( old ( self ) . gadget . mode is Array8 ) ==> coupon_merge ( fold ( mode_regs ( & sketch . mode ) , upd_lg ( old ( self ) , & sketch . mode ) ) , mode_coupons ( & old ( self ) . gadget . mode ) , upd_lg ( old ( self ) , & sketch . mode ) , mode_regs ( & final ( self ) . gadget . mode ) ) ) ,
/*@C03.flagflow.update*/ ! mode_empty ( & sketch . mode ) && mode_is_array ( & sketch . mode ) ==> ( mode_ooo ( & sketch . mode ) ==> mode_ooo ( & final ( self ) . gadget . mode ) ) ,
/*@C03.flagflow.merged*/ ! mode_empty ( & sketch . mode ) && mode_is_array ( & sketch . mode ) ==> ( ( ! mode_empty ( & old ( self ) . gadget . mode ) && old ( self ) . gadget . mode is Array8 ) || mode_lg ( & sketch . mode ) > old ( self ) . lg_max_k ==> mode_ooo ( & final ( self ) . gadget . mode ) ) ,
/*@C03.update.sparse*/ ! mode_empty ( & sketch . mode ) && ! mode_is_array ( & sketch . mode ) ==> sparse_update_post ( old ( self ) , sketch , final ( self ) ) ,
/*@C03.update.nonempty*/ ! mode_empty ( & sketch . mode ) ==> ! mode_empty ( & final ( self ) . gadget . mode ) , {
if sketch . is_empty ( ) {
return ;
}
let src_lg_k = sketch . lg_config_k ( ) ;
let dst_lg_k = self . gadget . lg_config_k ( ) ;
let src_mode = sketch . mode ( ) ;
match src_mode {
Mode :: List {
.. }
| Mode :: Set {
.. }
=> {
self . update_from_list_or_set ( sketch , src_mode , src_lg_k , dst_lg_k ) ;
}
Mode :: Array4 ( _ ) | Mode :: Array6 ( _ ) | Mode :: Array8 ( _ ) => {
self . update_from_array ( src_mode , src_lg_k , dst_lg_k ) ;
}
}
}


    fn update_from_list_or_set ( & mut self , sketch : & HllSketch , src_mode : & Mode , src_lg_k : u8 , dst_lg_k : u8 , ) requires old ( self ) . uwf ( ) , sk_wf ( sketch ) , * src_mode == sketch . mode , ! mode_is_array ( src_mode ) , src_lg_k == sketch . lg_config_k , dst_lg_k == old ( self ) . gadget . lg_config_k ensures final ( self ) . uwf ( ) , final ( self ) . lg_max_k == old ( self ) . lg_max_k ,
/*@C03.update.sparse*/ sparse_update_post ( old ( self ) , sketch , final ( self ) ) ,
/*@C03.update.nonempty*/ ! mode_empty ( src_mode ) ==> ! mode_empty ( & final ( self ) . gadget . mode ) , {
if self . gadget . is_empty ( ) && src_lg_k == dst_lg_k {
self . gadget = if sketch . target_type ( ) == HllType :: Hll8 {
sketch . clone ( ) }
else {
convert_coupon_mode_to_hll8 ( src_mode , src_lg_k ) }
;
}
else {
merge_coupons_into_gadget ( & mut self . gadget , src_mode ) ;
}
}


    fn update_from_array ( & mut self , src_mode : & Mode , src_lg_k : u8 , dst_lg_k : u8 ) requires old ( self ) . uwf ( ) , mode_is_array ( src_mode ) , mode_awf ( src_mode ) , mode_lg ( src_mode ) == src_lg_k , dst_lg_k == old ( self ) . gadget . lg_config_k ensures final ( self ) . uwf ( ) , final ( self ) . lg_max_k == old ( self ) . lg_max_k , final ( self ) . gadget . mode is Array8 ,
/*@C03.update.lgk*/ final ( self ) . gadget . lg_config_k == upd_lg ( old ( self ) , src_mode ) ,
/*@C03.update.regs.copy*/ mode_empty ( & old ( self ) . gadget . mode ) ==> mode_regs ( & final ( self ) . gadget . mode ) == fold ( mode_regs ( src_mode ) , upd_lg ( old ( self ) , src_mode ) ) ,
/*@C03.update.regs.merge*/ ! mode_empty ( & old ( self ) . gadget . mode ) && old ( self ) . gadget . mode is Array8 ==> mode_regs ( & final ( self ) . gadget . mode ) == pmax ( fold ( mode_regs ( & old ( self ) . gadget . mode ) , upd_lg ( old ( self ) , src_mode ) ) , fold ( mode_regs ( src_mode ) , upd_lg ( old ( self ) , src_mode ) ) ) ,
/*@C03.update.regs.promote*/ ! mode_empty ( & old ( self ) . gadget . mode ) && ! ( old ( self ) . gadget . mode is Array8 ) ==> coupon_merge ( fold ( mode_regs ( src_mode ) , upd_lg ( old ( self ) , src_mode ) ) , mode_coupons ( & old ( self ) . gadget . mode ) , upd_lg ( old ( self ) , src_mode ) , mode_regs ( & final ( self ) . gadget . mode ) ) ,
/*@C03.flagflow.update*/ mode_ooo ( src_mode ) ==> mode_ooo ( & final ( self ) . gadget . mode ) ,
/*@C03.flagflow.merged*/ ( ! mode_empty ( & old ( self ) . gadget . mode ) && old ( self ) . gadget . mode is Array8 ) || mode_lg ( src_mode ) > old ( self ) . lg_max_k ==> mode_ooo ( & final ( self ) . gadget . mode ) ,
/*@C03.update.nonempty*/ ! mode_empty ( src_mode ) ==> ! mode_empty ( & final ( self ) . gadget . mode ) , {
if self . gadget . is_empty ( ) {
let new_array = copy_or_downsample ( src_mode , src_lg_k , self . lg_max_k ) ;
proof {
lemma_k ( new_array . lg ( ) ) ;
if ! mode_empty ( src_mode ) {
lemma_nonzero_iff ( mode_regs ( src_mode ) ) ;
lemma_fold_nonzero ( mode_regs ( src_mode ) , new_array . lg ( ) ) ;
lemma_nonzero_iff ( new_array . regs ( ) ) ;
}
}
let final_lg_k = new_array . num_registers ( ) . trailing_zeros ( ) as u8 ;
self . gadget = HllSketch :: from_mode ( final_lg_k , Mode :: Array8 ( new_array ) ) ;
return ;
}
let is_gadget_array = matches! ( self . gadget . mode ( ) , Mode :: Array8 ( _ ) ) ;
if is_gadget_array {
self . merge_array_into_array_gadget ( src_mode , src_lg_k , dst_lg_k ) ;
}
else {
self . promote_gadget_and_merge_array ( src_mode , src_lg_k ) ;
}
}


    fn merge_array_into_array_gadget ( & mut self , src_mode : & Mode , src_lg_k : u8 , dst_lg_k : u8 ) requires old ( self ) . uwf ( ) , old ( self ) . gadget . mode is Array8 , mode_awf ( src_mode ) , mode_lg ( src_mode ) == src_lg_k , dst_lg_k == old ( self ) . gadget . lg_config_k ensures final ( self ) . uwf ( ) , final ( self ) . lg_max_k == old ( self ) . lg_max_k , final ( self ) . gadget . mode is Array8 ,
/*@C03.update.lgk*/ final ( self ) . gadget . lg_config_k == min8 ( src_lg_k , dst_lg_k ) ,
/*@C03.update.regs*/ mode_regs ( & final ( self ) . gadget . mode ) == pmax ( fold ( mode_regs ( & old ( self ) . gadget . mode ) , min8 ( src_lg_k , dst_lg_k ) ) , fold ( mode_regs ( src_mode ) , min8 ( src_lg_k , dst_lg_k ) ) ) ,
/*@C03.flagflow.merged*/ mode_ooo ( & final ( self ) . gadget . mode ) ,
/*@C03.update.nonempty*/ ! mode_empty ( src_mode ) ==> ! mode_empty ( & final ( self ) . gadget . mode ) , {
if src_lg_k < dst_lg_k {
let mut new_array = Array8 :: new ( src_lg_k ) ;
match self . gadget . mode ( ) {
Mode :: Array8 ( old_gadget ) => {
proof {
lemma_k ( src_lg_k ) ;
lemma_pmax_zeros ( fold ( old_gadget . regs ( ) , src_lg_k ) ) ;
}
merge_array_with_downsample ( & mut new_array , src_lg_k , & Mode :: Array8 ( old_gadget . clone ( ) ) , dst_lg_k , ) ;
}
_ => {
unreachable! ( ) }
}
proof {
lemma_fold_id ( mode_regs ( src_mode ) , src_lg_k ) ;
}
merge_array_same_lgk ( & mut new_array , src_mode ) ;
self . gadget = HllSketch :: from_mode ( src_lg_k , Mode :: Array8 ( new_array ) ) ;
}
else {
proof {
lemma_fold_id ( mode_regs ( & self . gadget . mode ) , dst_lg_k ) ;
}
match self . gadget . mode_mut ( ) {
Mode :: Array8 ( dst_array ) => {
merge_array_into_array8 ( dst_array , dst_lg_k , src_mode , src_lg_k ) ;
}
_ => {
unreachable! ( ) }
}
}
proof {
if ! mode_empty ( src_mode ) {
let lg1 = min8 ( src_lg_k , dst_lg_k ) ;
lemma_k ( lg1 ) ;
lemma_nonzero_iff ( mode_regs ( src_mode ) ) ;
lemma_fold_nonzero ( mode_regs ( src_mode ) , lg1 ) ;
lemma_pmax_nonzero ( fold ( mode_regs ( & old ( self ) . gadget . mode ) , lg1 ) , fold ( mode_regs ( src_mode ) , lg1 ) ) ;
lemma_nonzero_iff ( mode_regs ( & self . gadget . mode ) ) ;
}
}
}


    fn promote_gadget_and_merge_array ( & mut self , src_mode : & Mode , src_lg_k : u8 ) requires old ( self ) . uwf ( ) , ! mode_is_array ( & old ( self ) . gadget . mode ) , mode_awf ( src_mode ) , mode_lg ( src_mode ) == src_lg_k ensures final ( self ) . uwf ( ) , final ( self ) . lg_max_k == old ( self ) . lg_max_k , final ( self ) . gadget . mode is Array8 ,
/*@C03.update.lgk*/ final ( self ) . gadget . lg_config_k == min8 ( src_lg_k , old ( self ) . lg_max_k ) ,
/*@C03.update.regs*/ coupon_merge ( fold ( mode_regs ( src_mode ) , min8 ( src_lg_k , old ( self ) . lg_max_k ) ) , mode_coupons ( & old ( self ) . gadget . mode ) , min8 ( src_lg_k , old ( self ) . lg_max_k ) , mode_regs ( & final ( self ) . gadget . mode ) ) ,
/*@C03.flagflow.update*/ mode_ooo ( src_mode ) ==> mode_ooo ( & final ( self ) . gadget . mode ) ,
/*@C03.flagflow.merged*/ src_lg_k > old ( self ) . lg_max_k ==> mode_ooo ( & final ( self ) . gadget . mode ) ,
/*@C03.update.nonempty*/ ! mode_empty ( src_mode ) ==> ! mode_empty ( & final ( self ) . gadget . mode ) , {
let mut new_array = copy_or_downsample ( src_mode , src_lg_k , self . lg_max_k ) ;
let ghost copied = new_array . regs ( ) ;
let old_gadget_mode = self . gadget . mode ( ) ;
merge_coupons_into_mode ( & mut new_array , old_gadget_mode ) ;
proof {
lemma_k ( new_array . lg ( ) ) ;
if ! mode_empty ( src_mode ) {
lemma_nonzero_iff ( mode_regs ( src_mode ) ) ;
lemma_fold_nonzero ( mode_regs ( src_mode ) , new_array . lg ( ) ) ;
lemma_coupon_merge_nonzero ( copied , mode_coupons ( old_gadget_mode ) , new_array . lg ( ) , new_array . regs ( ) ) ;
lemma_nonzero_iff ( new_array . regs ( ) ) ;
}
}
let final_lg_k = new_array . num_registers ( ) . trailing_zeros ( ) as u8 ;
self . gadget = HllSketch :: from_mode ( final_lg_k , Mode :: Array8 ( new_array ) ) ;
}


    fn to_sketch ( & self , hll_type : HllType ) -> ( r : HllSketch ) requires self . uwf ( ) ensures r . lg_config_k == self . gadget . lg_config_k , sk_type ( & r . mode ) == hll_type , mode_is_array ( & r . mode ) == mode_is_array ( & self . gadget . mode ) , ( r . mode is List ) == ( self . gadget . mode is List ) ,
/*@C03.to_sketch.sparse*/ mode_coupons ( & r . mode ) == mode_coupons ( & self . gadget . mode ) ,
/*@C03.to_sketch.regs*/ mode_regs ( & r . mode ) == conv_regs ( mode_regs ( & self . gadget . mode ) , hll_type ) ,
/*@C03.to_sketch.regs*/ bounded ( mode_regs ( & self . gadget . mode ) ) ==> mode_regs ( & r . mode ) == mode_regs ( & self . gadget . mode ) ,
/*@C03.to_sketch.flag*/ mode_ooo ( & r . mode ) == mode_ooo ( & self . gadget . mode ) , {
let gadget_type = self . gadget . target_type ( ) ;
if hll_type == gadget_type {
return self . gadget . clone ( ) ;
}
match self . gadget . mode ( ) {
Mode :: List {
list , .. }
=> HllSketch :: from_mode ( self . gadget . lg_config_k ( ) , Mode :: List {
list : list . clone ( ) , hll_type , }
, ) , Mode :: Set {
set , .. }
=> HllSketch :: from_mode ( self . gadget . lg_config_k ( ) , Mode :: Set {
set : set . clone ( ) , hll_type , }
, ) , Mode :: Array8 ( array8 ) => {
convert_array8_to_type ( array8 , self . gadget . lg_config_k ( ) , hll_type ) }
Mode :: Array4 ( _ ) | Mode :: Array6 ( _ ) => {
unreachable! ( ) }
}
}


    fn new ( lg_max_k : u8 ) -> ( r : Self ) ensures
/*@C03.new.lg_max_k_validated*/ 4 <= lg_max_k <= 21 ,
/*@C03.new.empty*/ r . uwf ( ) && r . lg_max_k == lg_max_k && r . gadget . lg_config_k == lg_max_k && mode_empty ( & r . gadget . mode ) , {
vx_documented_panic ( ( 4 ..= 21 ) . contains ( & lg_max_k ) ) ;
let gadget = HllSketch :: new ( lg_max_k , HllType :: Hll8 ) ;
Self {
lg_max_k , gadget }
}


    fn reset ( & mut self ) requires 4 <= old ( self ) . lg_max_k <= 21 ensures final ( self ) . uwf ( ) , final ( self ) . lg_max_k == old ( self ) . lg_max_k ,
/*@C03.reset*/ mode_empty ( & final ( self ) . gadget . mode ) && final ( self ) . gadget . lg_config_k == final ( self ) . lg_max_k , {
self . gadget = HllSketch :: new ( self . lg_max_k , HllType :: Hll8 ) ;
}

}

// the lg_k of the gadget after absorbing an array-mode source m: the smallest of lg_max_k, the gadget's (when it is an array) and the source's
spec fn upd_lg(u0: &HllUnion, m: &Mode) -> u8 {
    if !mode_empty(&u0.gadget.mode) && u0.gadget.mode is Array8 { min8(mode_lg(m), u0.gadget.lg_config_k) } else { min8(mode_lg(m), u0.lg_max_k) }
}
// what HllUnion::update promises for a List/Set source: nothing absorbed so far is lost, every source coupon is absorbed, lg_k unchanged
spec fn sparse_update_post(u0: &HllUnion, s: &HllSketch, u1: &HllUnion) -> bool {
    let g0 = &u0.gadget.mode; let g1 = &u1.gadget.mode; let lg = u0.gadget.lg_config_k;
    let fast = mode_empty(g0) && s.lg_config_k == lg;     // empty gadget, same lg_k: the source is copied (as a Hll8 sketch)
    &&& u1.gadget.lg_config_k == lg
    &&& (fast ==> !mode_is_array(g1) && mode_coupons(g1) == mode_coupons(&s.mode))
    &&& (!fast ==> forall|c: u32| (absorbed(g0, lg, c) || mode_coupons(&s.mode).contains(c)) ==> #[trigger] absorbed(g1, lg, c))
    &&& (!fast && mode_is_array(g0) ==> mode_is_array(g1) && mode_ooo(g1) == mode_ooo(g0) && coupon_merge(mode_regs(g0), mode_coupons(&s.mode), lg, mode_regs(g1)))
}

}
fn main(){}
