#![feature(allocator_api)]
use vstd::prelude::*;
use vstd::iset::*;
use vstd::arithmetic::power2::*;
use std::hash::Hash;
verus! {
global size_of usize == 8;
// Unit hll_union (C03, C17): the real functions of hll/union.rs (free kernels, copy_or_downsample, convert_array8_to_type, the two coupon
// merges merge_coupons_into_gadget / merge_coupons_into_mode with HllSketch::update / update_with_coupon, and ALL HllUnion methods)
// against the view
//     fold(regs, lg)[i] = max{ regs[j] : j % 2^lg == i },   pmax = register-wise max,
// with Array4/Array6/Array8 BY CONTRACT over uninterpreted views regs()/lg()/ooo()/hip() (their bodies are verified in the units
// hll_array4, hll_array6, hll_array8, hll_array8_merge).
// Coupon sources (List/Set): the REAL Container/List/HashSet structs; coupons() = the non-zero words of the table (ISet view, as in
// hll_coupons / hll_sketch); `container().iter()` goes through the R16 shim vx_iter_container (non-empty words in table order); the walk
// is verified against: every source coupon absorbed, nothing absorbed before lost, registers only raised to a coupon's value
// (coupon_merge), flags untouched.  List::update / HashSet::update / promote_* / grow_set by contract (verified in hll_coupons / hll_sketch).
// EXPECTED FAILURES on the current /repo (genuine, replayed defects; the clauses are kept on purpose):
//   /*@C03.flagflow*/      copy_or_downsample: an out-of-order Hll4/Hll6 source (src_lg_k <= tgt_lg_k) is copied through coupons into a
//                          fresh in-order Array8 whose hip_accum is then set to the source's (0 for an out-of-order source) => estimate 0.
//   /*@C03.convert.flag*/  convert_array8_to_type: the Hll6/Hll4 result is built by Array6::new/Array4::new + update() and stays in-order
//                          although the Array8 gadget is out of order (bounds then come from the HIP tables).
// convert_array8_to_type and registers: what the CODE does is conv_regs (Hll6: min(v,63); Hll4: v & 63 because pack_coupon keeps six
// bits); what the PROPERTY needs is "every register kept", which holds exactly when every gadget register is <= 63 (bounded);
// both are stated under /*@C03.convert.regs*/.  (Registers above 63 can only enter through a crafted Hll8 image.)

// ================= coupons (hll/mod.rs) =================
const KEY_BITS_26 : u32 = 26 ;


exec const KEY_MASK_26 : u32 ensures KEY_MASK_26 == 0x3ffffff {
proof {
assert ( ( 1u32 << 26u32 ) - 1 == 0x3ffffff ) by ( bit_vector ) ;
}
( 1 << KEY_BITS_26 ) - 1 }


spec fn cslot(c: u32) -> u32 { c & 0x3ffffff }
spec fn cval(c: u32) -> u8 { (c >> 26) as u8 }
// the slot a coupon addresses in a sketch with 2^lg registers
spec fn slot_of(c: u32, lg: u8) -> int { (cslot(c) as int) % (pow2(lg as nat) as int) }
spec fn low6(v: u8) -> u8 { v & 63 }

fn pack_coupon ( slot : u32 , value : u8 ) -> ( r : u32 ) ensures cslot ( r ) == slot & 0x3ffffff , cval ( r ) == low6 ( value ) {
proof {
assert ( ( ( ( ( value as u32 ) << 26u32 ) | ( slot & 0x3ffffffu32 ) ) & 0x3ffffffu32 ) == ( slot & 0x3ffffffu32 ) ) by ( bit_vector ) ;
assert ( ( ( ( ( ( value as u32 ) << 26u32 ) | ( slot & 0x3ffffffu32 ) ) >> 26u32 ) as u8 ) == ( value & 63u8 ) ) by ( bit_vector ) ;
let g_v = value as u32 ;
let g_s = slot ;
assert ( ( g_v << 26 ) | ( g_s & 0x3ffffff ) == ( g_s & 0x3ffffff ) | ( g_v << 26 ) && g_s & 0x3ffffff == 0x3ffffff & g_s && g_s & 0x3ffffff == g_s % 0x4000000 ) by ( bit_vector ) ;
}
( ( value as u32 ) << KEY_BITS_26 ) | ( slot & KEY_MASK_26 ) }


#[derive(Clone, Copy, PartialEq, Eq, Structural)]
enum HllType {
Hll4 , Hll6 , Hll8 , }


// ================= the abstract view =================
spec fn max8(a: u8, b: u8) -> u8 { if a >= b { a } else { b } }
spec fn zeros(n: nat) -> Seq<u8> { Seq::new(n, |i: int| 0u8) }
// register-wise maximum
spec fn pmax(a: Seq<u8>, b: Seq<u8>) -> Seq<u8> { Seq::new(a.len(), |i: int| max8(a[i], b[i])) }
// max of the source registers j < n with j % k == i  (the registers that fold onto slot i of a k-register sketch)
spec fn foldmax(src: Seq<u8>, k: int, i: int, n: int) -> u8 decreases n {
    if n <= 0 { 0 } else {
        let prev = foldmax(src, k, i, n - 1);
        if (n - 1) % k == i { max8(prev, src[n - 1]) } else { prev }
    }
}
// fold(regs, lg)[i] = max{ regs[j] : j == i mod 2^lg }
spec fn fold(src: Seq<u8>, lg: u8) -> Seq<u8> {
    Seq::new(pow2(lg as nat), |i: int| foldmax(src, pow2(lg as nat) as int, i, src.len() as int))
}
spec fn clamp63(v: u8) -> u8 { if v > 63 { 63u8 } else { v } }
spec fn bounded(r: Seq<u8>) -> bool { forall|i: int| 0 <= i < r.len() ==> #[trigger] r[i] <= 63 }

// fold is what its name says: an upper bound of the class, attained (or 0 for an empty class)
proof fn lemma_foldmax_upper(src: Seq<u8>, k: int, i: int, n: int, j: int)
  requires 0 <= j < n, j % k == i
  ensures src[j] <= foldmax(src, k, i, n)
  decreases n
{
    if j < n - 1 { lemma_foldmax_upper(src, k, i, n - 1, j); }
}
proof fn lemma_foldmax_attained(src: Seq<u8>, k: int, i: int, n: int)
  ensures foldmax(src, k, i, n) == 0 || exists|j: int| 0 <= j < n && j % k == i && #[trigger] src[j] == foldmax(src, k, i, n)
  decreases n
{
    if n > 0 {
        lemma_foldmax_attained(src, k, i, n - 1);
        let p = foldmax(src, k, i, n - 1);
        if p != 0 {
            let j = choose|j: int| 0 <= j < n - 1 && j % k == i && #[trigger] src[j] == p;
            assert(src[j] == p);
        }
        if (n - 1) % k == i { assert(src[n - 1] == src[n - 1]); }
    }
}
// folding to the sketch's own size changes nothing
proof fn lemma_foldmax_id(src: Seq<u8>, k: int, i: int, n: int)
  requires 0 <= i < k, 0 <= n <= k
  ensures foldmax(src, k, i, n) == (if i < n { src[i] } else { 0u8 })
  decreases n
{
    if n > 0 {
        lemma_foldmax_id(src, k, i, n - 1);
        vstd::arithmetic::div_mod::lemma_small_mod((n - 1) as nat, k as nat);
    }
}
proof fn lemma_fold_id(src: Seq<u8>, lg: u8)
  requires src.len() == pow2(lg as nat)
  ensures fold(src, lg) == src
{
    assert forall|i: int| 0 <= i < src.len() implies #[trigger] fold(src, lg)[i] == src[i] by { lemma_foldmax_id(src, src.len() as int, i, src.len() as int); }
    assert(fold(src, lg) =~= src);
}
proof fn lemma_pmax_zeros(a: Seq<u8>)
  ensures pmax(zeros(a.len()), a) == a
{
    assert(pmax(zeros(a.len()), a) =~= a);
}

proof fn lemma_k(l: u8)
  requires 4 <= l <= 21
  ensures 16 <= pow2(l as nat) <= 0x20_0000, (1u32 << l) == pow2(l as nat)
{
    lemma2_to64();
    if l < 21 { lemma_pow2_strictly_increases(l as nat, 21); }
    if l > 4 { lemma_pow2_strictly_increases(4, l as nat); }
    vstd::bits::lemma_u32_shl_is_mul(1, l as u32);
    assert((1u32 << (l as u32)) == (1u32 << l));
}
proof fn lemma_lbm(n: nat)
  ensures vstd::bits::low_bits_mask(n) == pow2(n) - 1
  decreases n
{
    lemma2_to64();
    vstd::bits::lemma_low_bits_mask_values();
    if n > 0 { lemma_lbm((n - 1) as nat); vstd::bits::lemma_low_bits_mask_unfold(n); lemma_pow2_unfold(n); }
}
proof fn lemma_mask(x: u32, l: u8)
  requires 4 <= l <= 21
  ensures (x & (((1u32 << l) - 1) as u32)) == (x as int) % (pow2(l as nat) as int), (x & (((1u32 << l) - 1) as u32)) < pow2(l as nat),
{
    lemma_k(l);
    vstd::bits::lemma_u32_low_bits_mask_is_mod(x, l as nat);
    lemma_lbm(l as nat);
}
// a slot below 2^lg packed into a coupon addresses itself
proof fn lemma_slot_roundtrip(slot: u32, lg: u8, c: u32)
  requires 4 <= lg <= 21, slot < pow2(lg as nat), cslot(c) == slot & 0x3ffffff
  ensures slot_of(c, lg) == slot
{
    lemma_k(lg);
    assert(slot < 0x4000000 ==> (slot & 0x3ffffffu32) == slot) by (bit_vector);
    vstd::arithmetic::div_mod::lemma_small_mod(slot as nat, pow2(lg as nat));
}
proof fn lemma_low6(v: u8)
  ensures v <= 63 ==> low6(v) == v, low6(v) <= 63, low6(clamp63(v)) == clamp63(v), low6(0) == 0
{
    assert(v <= 63 ==> (v & 63u8) == v) by (bit_vector);
    assert((v & 63u8) <= 63) by (bit_vector);
    assert((63u8 & 63u8) == 63u8) by (bit_vector);
    assert((0u8 & 63u8) == 0u8) by (bit_vector);
}

// ================= arrays by contract (each verified in its own unit: hll_array4 / hll_array6 / hll_array8 / hll_array8_merge) =================
// views: regs() the 2^lg registers, lg(), ooo() the estimator's out-of-order flag, hip() the HIP accumulator
#[verifier::external_body] struct Array4 { _p: u8 }
#[verifier::external_body] struct Array6 { _p: u8 }
#[verifier::external_body] struct Array8 { _p: u8 }

impl Array4 {
    uninterp spec fn regs(&self) -> Seq<u8>;
    uninterp spec fn lg(&self) -> u8;
    uninterp spec fn ooo(&self) -> bool;
    uninterp spec fn hip(&self) -> f64;
    spec fn shape(&self) -> bool { 4 <= self.lg() <= 21 && self.regs().len() == pow2(self.lg() as nat) }
    spec fn awf(&self) -> bool { self.shape() && bounded(self.regs()) }
    // num_zeros / cur_min caches agree with the registers (what update() relies on)
    uninterp spec fn cache_ok(&self) -> bool;
    spec fn wf(&self) -> bool { self.awf() && self.cache_ok() }
    #[verifier::external_body] fn new(lg_config_k: u8) -> (r: Self) requires 4 <= lg_config_k <= 21 ensures r.wf(), r.lg() == lg_config_k, r.regs() == zeros(pow2(lg_config_k as nat)), !r.ooo() { unimplemented!() }
    #[verifier::external_body] fn get(&self, slot: u32) -> (r: u8) requires self.awf(), slot < self.regs().len() ensures r == self.regs()[slot as int] { unimplemented!() }
    #[verifier::external_body] fn num_registers(&self) -> (r: usize) requires self.shape() ensures r == self.regs().len() { unimplemented!() }
    #[verifier::external_body] fn hip_accum(&self) -> (r: f64) ensures r == self.hip() { unimplemented!() }
    #[verifier::external_body] fn estimate(&self) -> f64 { unimplemented!() }
    #[verifier::external_body] fn set_hip_accum(&mut self, value: f64)
      ensures final(self).regs() == old(self).regs(), final(self).lg() == old(self).lg(), final(self).ooo() == old(self).ooo(), final(self).cache_ok() == old(self).cache_ok(), final(self).hip() == value { unimplemented!() }
    #[verifier::external_body] fn update(&mut self, coupon: u32)
      requires old(self).wf()
      ensures final(self).wf(), final(self).lg() == old(self).lg(), final(self).ooo() == old(self).ooo(),
        final(self).regs() == old(self).regs().update(slot_of(coupon, old(self).lg()), max8(old(self).regs()[slot_of(coupon, old(self).lg())], cval(coupon)))
    { unimplemented!() }
}
impl Array6 {
    uninterp spec fn regs(&self) -> Seq<u8>;
    uninterp spec fn lg(&self) -> u8;
    uninterp spec fn ooo(&self) -> bool;
    uninterp spec fn hip(&self) -> f64;
    spec fn shape(&self) -> bool { 4 <= self.lg() <= 21 && self.regs().len() == pow2(self.lg() as nat) }
    spec fn awf(&self) -> bool { self.shape() && bounded(self.regs()) }
    // num_zeros / cur_min caches agree with the registers (what update() relies on)
    uninterp spec fn cache_ok(&self) -> bool;
    spec fn wf(&self) -> bool { self.awf() && self.cache_ok() }
    #[verifier::external_body] fn new(lg_config_k: u8) -> (r: Self) requires 4 <= lg_config_k <= 21 ensures r.wf(), r.lg() == lg_config_k, r.regs() == zeros(pow2(lg_config_k as nat)), !r.ooo() { unimplemented!() }
    #[verifier::external_body] fn get(&self, slot: u32) -> (r: u8) requires self.awf(), slot < self.regs().len() ensures r == self.regs()[slot as int] { unimplemented!() }
    #[verifier::external_body] fn num_registers(&self) -> (r: usize) requires self.shape() ensures r == self.regs().len() { unimplemented!() }
    #[verifier::external_body] fn hip_accum(&self) -> (r: f64) ensures r == self.hip() { unimplemented!() }
    #[verifier::external_body] fn estimate(&self) -> f64 { unimplemented!() }
    #[verifier::external_body] fn set_hip_accum(&mut self, value: f64)
      ensures final(self).regs() == old(self).regs(), final(self).lg() == old(self).lg(), final(self).ooo() == old(self).ooo(), final(self).cache_ok() == old(self).cache_ok(), final(self).hip() == value { unimplemented!() }
    #[verifier::external_body] fn update(&mut self, coupon: u32)
      requires old(self).wf()
      ensures final(self).wf(), final(self).lg() == old(self).lg(), final(self).ooo() == old(self).ooo(),
        final(self).regs() == old(self).regs().update(slot_of(coupon, old(self).lg()), max8(old(self).regs()[slot_of(coupon, old(self).lg())], cval(coupon)))
    { unimplemented!() }
}
impl Array8 {
    uninterp spec fn regs(&self) -> Seq<u8>;
    uninterp spec fn lg(&self) -> u8;
    uninterp spec fn ooo(&self) -> bool;
    uninterp spec fn hip(&self) -> f64;
    spec fn shape(&self) -> bool { 4 <= self.lg() <= 21 && self.regs().len() == pow2(self.lg() as nat) }
    // num_zeros equals the number of zero registers (what update() relies on; set_register() does not maintain it)
    uninterp spec fn cache_ok(&self) -> bool;
    spec fn wf(&self) -> bool { self.shape() && self.cache_ok() }
    #[verifier::external_body] fn new(lg_config_k: u8) -> (r: Self) requires 4 <= lg_config_k <= 21 ensures r.wf(), r.lg() == lg_config_k, r.regs() == zeros(pow2(lg_config_k as nat)), !r.ooo() { unimplemented!() }
    #[verifier::external_body] fn values(&self) -> (r: &[u8]) ensures r@ == self.regs() { unimplemented!() }
    #[verifier::external_body] fn num_registers(&self) -> (r: usize) requires self.shape() ensures r == self.regs().len() { unimplemented!() }
    #[verifier::external_body] fn hip_accum(&self) -> (r: f64) ensures r == self.hip() { unimplemented!() }
    #[verifier::external_body] fn estimate(&self) -> f64 { unimplemented!() }
    #[verifier::external_body] fn set_hip_accum(&mut self, value: f64)
      ensures final(self).regs() == old(self).regs(), final(self).lg() == old(self).lg(), final(self).ooo() == old(self).ooo(), final(self).cache_ok() == old(self).cache_ok(), final(self).hip() == value { unimplemented!() }
    #[verifier::external_body] fn update(&mut self, coupon: u32)
      requires old(self).wf()
      ensures final(self).wf(), final(self).lg() == old(self).lg(), final(self).ooo() == old(self).ooo(),
        final(self).regs() == old(self).regs().update(slot_of(coupon, old(self).lg()), max8(old(self).regs()[slot_of(coupon, old(self).lg())], cval(coupon)))
    { unimplemented!() }
    #[verifier::external_body] fn set_register(&mut self, slot: usize, value: u8)
      requires old(self).shape(), slot < old(self).regs().len()
      ensures final(self).regs() == old(self).regs().update(slot as int, value), final(self).lg() == old(self).lg(), final(self).ooo() == old(self).ooo(), final(self).hip() == old(self).hip()
    { unimplemented!() }
    // verified on its real body in unit hll_array8 (same clauses: C03.rebuild.regs, C03.flagflow.merged, C03.rebuild.cache; cache_ok is wf() there)
    #[verifier::external_body] fn rebuild_estimator_from_registers(&mut self)
      requires old(self).shape()
      ensures final(self).regs() == old(self).regs(), final(self).lg() == old(self).lg(), final(self).ooo(), final(self).cache_ok()
    { unimplemented!() }
    // the two kernels below are verified on their real bodies in unit hll_array8_merge (same clauses)
    #[verifier::external_body] fn merge_array_same_lgk(&mut self, src: &[u8])
      requires old(self).shape(), src@.len() == old(self).regs().len()
      ensures final(self).lg() == old(self).lg(), final(self).regs() == pmax(old(self).regs(), src@), final(self).ooo(), final(self).cache_ok()
    { unimplemented!() }
    #[verifier::external_body] fn merge_array_with_downsample(&mut self, src: &[u8], src_lg_k: u8)
      requires old(self).shape(), old(self).lg() < src_lg_k <= 21, src@.len() == pow2(src_lg_k as nat)
      ensures final(self).lg() == old(self).lg(), final(self).regs() == pmax(old(self).regs(), fold(src@, old(self).lg())), final(self).ooo(), final(self).cache_ok()
    { unimplemented!() }
}
// ================= coupon containers (hll/container.rs, list.rs, hash_set.rs) =================
// Definitions of units hll_coupons / hll_sketch (where List::update / HashSet::update / the promotions are VERIFIED against exactly
// these contracts); here the real structs are used so that a walk over `container.coupons` is checked against the coupon-set view.
const COUPON_EMPTY : u32 = 0 ;

const RESIZE_NUMERATOR : u32 = 3 ;

const RESIZE_DENOMINATOR : u32 = 4 ;

spec fn nz(s: Seq<u32>) -> Seq<u32> decreases s.len() {
    if s.len() == 0 { Seq::empty() } else if s.last() != 0 { nz(s.drop_last()).push(s.last()) } else { nz(s.drop_last()) }
}
spec fn cset(cs: Seq<u32>) -> ISet<u32> { ISet::new(|c: u32| c != 0 && cs.contains(c)) }
spec fn no_dup(cs: Seq<u32>) -> bool {
    forall|i: int, j: int| 0 <= i < cs.len() && 0 <= j < cs.len() && i != j && cs[i] != 0 ==> cs[i] != cs[j]
}
spec fn packed(cs: Seq<u32>, n: int) -> bool {
    &&& 0 <= n <= cs.len()
    &&& forall|i: int| 0 <= i < n ==> cs[i] != 0
    &&& forall|i: int| n <= i < cs.len() ==> cs[i] == 0
}
spec fn probe_at(p0: int, s: int, j: int, size: int) -> int { (p0 + j * s) % size }
spec fn home(c: u32, lg: usize) -> int { (c as int) % (pow2(lg as nat) as int) }
spec fn stride_of(c: u32, lg: usize) -> int { (((c & 0x3ffffffu32) >> lg) | 1u32) as int }
spec fn path(cs: Seq<u32>, c: u32, lg: usize, t: int) -> int { probe_at(home(c, lg), stride_of(c, lg), t, cs.len() as int) }
spec fn zero_free(cs: Seq<u32>, c: u32, lg: usize, j: int) -> bool {
    forall|t: int| 0 <= t < j ==> cs[#[trigger] path(cs, c, lg, t)] != 0
}
spec fn reach_at(cs: Seq<u32>, lg: usize, i: int) -> bool {
    exists|j: int| 0 <= j < cs.len() && i == path(cs, cs[i], lg, j) && #[trigger] zero_free(cs, cs[i], lg, j)
}
spec fn reach(cs: Seq<u32>, lg: usize) -> bool {
    forall|i: int| 0 <= i < cs.len() && cs[i] != 0 ==> #[trigger] reach_at(cs, lg, i)
}
spec fn tbl_shape(cs: Seq<u32>, lg: usize) -> bool { lg <= 26 && cs.len() == pow2(lg as nat) }
spec fn tbl_ok(cs: Seq<u32>, lg: usize) -> bool { tbl_shape(cs, lg) && no_dup(cs) && reach(cs, lg) }

// ---- facts about nz / cset (pure sequence lemmas, as in hll_sketch) ----
proof fn lemma_nz_contains(cs: Seq<u32>, c: u32)
  requires c != 0
  ensures nz(cs).contains(c) <==> cs.contains(c)
  decreases cs.len()
{
    if cs.len() > 0 {
        let d = cs.drop_last(); let n = cs.len() as int;
        lemma_nz_contains(d, c);
        if cs.contains(c) {
            let i = choose|i: int| 0 <= i < cs.len() && cs[i] == c;
            if i < n - 1 { assert(d[i] == c); assert(d.contains(c)); let k = choose|k: int| 0 <= k < nz(d).len() && nz(d)[k] == c; if cs.last() != 0 { assert(nz(cs)[k] == c); } }
            else { assert(nz(cs)[nz(cs).len() - 1] == c); }
        }
        if nz(cs).contains(c) {
            let k = choose|k: int| 0 <= k < nz(cs).len() && nz(cs)[k] == c;
            if cs.last() != 0 && k == nz(cs).len() - 1 { assert(cs[n - 1] == c); }
            else { assert(nz(d)[k] == c); assert(d.contains(c)); let i = choose|i: int| 0 <= i < d.len() && d[i] == c; assert(cs[i] == c); }
        }
    }
}
proof fn lemma_nz_nonzero(cs: Seq<u32>, k: int)
  requires 0 <= k < nz(cs).len()
  ensures nz(cs)[k] != 0
  decreases cs.len()
{
    if cs.len() > 0 {
        if cs.last() != 0 && k == nz(cs).len() - 1 { } else { lemma_nz_nonzero(cs.drop_last(), k); }
    }
}
proof fn lemma_nz_len(cs: Seq<u32>)
  ensures nz(cs).len() <= cs.len()
  decreases cs.len()
{
    if cs.len() > 0 { lemma_nz_len(cs.drop_last()); }
}
// the coupons yielded by the iterator are exactly the view of the table
proof fn lemma_cset_nz(cs: Seq<u32>)
  ensures cset(nz(cs)) == cset(cs)
{
    assert forall|c: u32| cset(nz(cs)).contains(c) <==> #[trigger] cset(cs).contains(c) by { if c != 0 { lemma_nz_contains(cs, c); } }
    assert(cset(nz(cs)) =~= cset(cs));
}
// replaying one more coupon of a sequence
proof fn lemma_cset_take(s: Seq<u32>, i: int)
  requires 0 <= i < s.len(), s[i] != 0
  ensures cset(s.take(i + 1)) == cset(s.take(i)).insert(s[i]), cset(s).contains(s[i])
{
    let a = s.take(i); let b = s.take(i + 1);
    assert forall|c: u32| #[trigger] cset(b).contains(c) <==> cset(a).insert(s[i]).contains(c) by {
        if cset(a).contains(c) { let k = choose|k: int| 0 <= k < a.len() && a[k] == c; assert(b[k] == c); }
        if c == s[i] { assert(b[i] == c); }
        if cset(b).contains(c) { let k = choose|k: int| 0 <= k < b.len() && b[k] == c; if k < i { assert(a[k] == c); } }
    }
    assert(cset(b) =~= cset(a).insert(s[i]));
}
proof fn lemma_cset_empty(s: Seq<u32>)
  requires s.len() == 0
  ensures cset(s) == ISet::<u32>::empty()
{
    assert(cset(s) =~= ISet::<u32>::empty());
}
proof fn lemma_cset_nonempty(s: Seq<u32>)
  requires cset(s) != ISet::<u32>::empty()
  ensures s.len() > 0
{
    if s.len() == 0 { lemma_cset_empty(s); }
}

struct Container {
lg_size : usize , coupons : Box < [ u32 ] > , len : usize , }

impl Container {
    spec fn view(&self) -> ISet<u32> { cset(self.coupons@) }
    spec fn wf_len(&self) -> bool { self.len == nz(self.coupons@).len() }

    fn len ( & self ) -> ( r : usize ) ensures r == self . len {
self . len }


    fn lg_size ( & self ) -> ( r : usize ) ensures r == self . lg_size {
self . lg_size }


    fn is_full ( & self ) -> ( r : bool ) ensures r == ( self . len == self . coupons @ . len ( ) ) {
self . len == self . coupons . len ( ) }


    fn capacity ( & self ) -> ( r : usize ) ensures r == self . coupons @ . len ( ) {
self . coupons . len ( ) }

}

// R16 shim for `Container::iter` (an `impl Iterator` adapter chain): the non-empty coupons in table order, materialized.
// Same shim and contract as unit hll_sketch; checked on the REAL Container::iter by the Kani harnesses shim_iter_container_small / _8.
#[verifier::external_body]
fn vx_iter_container(c: &Container) -> (r: Vec<u32>)
  ensures r@ == nz(c.coupons@)
{ c.coupons.iter().filter(|&&c| c != COUPON_EMPTY).copied().collect() }

struct List {
container : Container , }

impl List {
    // the coupon-set view
    spec fn coupons(&self) -> ISet<u32> { cset(self.container.coupons@) }
    spec fn wf(&self) -> bool { packed(self.container.coupons@, self.container.len as int) && no_dup(self.container.coupons@) }

    fn container ( & self ) -> ( r : & Container ) ensures r == & self . container {
& self . container }


    // verified in unit hll_coupons (same clauses)
    #[verifier::external_body]
    fn update(&mut self, coupon: u32)
      requires old(self).wf(), coupon != 0,
        old(self).container.len < old(self).container.coupons@.len(),
      ensures
        final(self).wf(), final(self).container.lg_size == old(self).container.lg_size,
        final(self).coupons() == old(self).coupons().insert(coupon),
        final(self).container.coupons@ == (if old(self).coupons().contains(coupon) { old(self).container.coupons@ } else { old(self).container.coupons@.update(old(self).container.len as int, coupon) }),
        final(self).container.len == old(self).container.len + (if old(self).coupons().contains(coupon) { 0int } else { 1int }),
        final(self).container.wf_len(),
    { unimplemented!() }
}

struct HashSet {
container : Container , }

impl HashSet {
    // the coupon-set view
    spec fn coupons(&self) -> ISet<u32> { cset(self.container.coupons@) }
    spec fn shape(&self) -> bool { tbl_shape(self.container.coupons@, self.container.lg_size) }
    spec fn has_room(&self) -> bool { nz(self.container.coupons@).len() < self.container.coupons@.len() }
    spec fn wf(&self) -> bool { tbl_ok(self.container.coupons@, self.container.lg_size) && self.container.wf_len() }

    fn container ( & self ) -> ( r : & Container ) ensures r == & self . container {
& self . container }


    // verified in unit hll_coupons (same clauses)
    #[verifier::external_body]
    fn update(&mut self, coupon: u32)
      requires old(self).shape(), coupon != 0, old(self).container.len < usize::MAX,
        old(self).has_room(),
      ensures
        final(self).shape(), final(self).container.lg_size == old(self).container.lg_size,
        final(self).coupons() == old(self).coupons().insert(coupon),
        final(self).container.len <= old(self).container.len + 1,
        old(self).wf() ==> final(self).wf(),
        old(self).wf() ==> final(self).container.len == old(self).container.len + (if old(self).coupons().contains(coupon) { 0int } else { 1int }),
    { unimplemented!() }
}
impl Clone for List {
    #[verifier::external_body] fn clone(&self) -> (r: Self) ensures r == *self { unimplemented!() }
}
impl Clone for HashSet {
    #[verifier::external_body] fn clone(&self) -> (r: Self) ensures r == *self { unimplemented!() }
}
// usize::trailing_zeros (std leaf): only its value on powers of two is assumed
pub assume_specification [usize::trailing_zeros] (n: usize) -> (r: u32)
  ensures forall|l: nat| l < 64 && n == #[trigger] pow2(l) ==> r == l;
impl Clone for Array8 {
    #[verifier::external_body] fn clone(&self) -> (r: Self) ensures r == *self { unimplemented!() }
}

enum Mode {
List {
list : List , hll_type : HllType }
, Set {
set : HashSet , hll_type : HllType }
, Array4 ( Array4 ) , Array6 ( Array6 ) , Array8 ( Array8 ) , }

spec fn mode_ooo(m: &Mode) -> bool { match m { Mode::Array4(a) => a.ooo(), Mode::Array6(a) => a.ooo(), Mode::Array8(a) => a.ooo(), _ => false } }
spec fn mode_regs(m: &Mode) -> Seq<u8> { match m { Mode::Array4(a) => a.regs(), Mode::Array6(a) => a.regs(), Mode::Array8(a) => a.regs(), _ => Seq::empty() } }
spec fn mode_lg(m: &Mode) -> u8 { match m { Mode::Array4(a) => a.lg(), Mode::Array6(a) => a.lg(), Mode::Array8(a) => a.lg(), _ => 0 } }
spec fn mode_hip(m: &Mode) -> f64 { match m { Mode::Array4(a) => a.hip(), Mode::Array6(a) => a.hip(), Mode::Array8(a) => a.hip(), _ => 0.0 } }
spec fn mode_is_array(m: &Mode) -> bool { m is Array4 || m is Array6 || m is Array8 }
// "source is in array mode" and the array is well formed (Hll4/Hll6 registers are at most 63 by construction)
spec fn mode_awf(m: &Mode) -> bool { match m { Mode::Array4(a) => a.awf(), Mode::Array6(a) => a.awf(), Mode::Array8(a) => a.shape(), _ => false } }

// ================= hll/union.rs free functions (real code + overlay) =================

fn get_array_hip_accum ( mode : & Mode ) -> ( r : f64 ) requires mode_is_array ( mode ) ensures r == mode_hip ( mode ) {
match mode {
Mode :: Array8 ( src ) => src . hip_accum ( ) , Mode :: Array6 ( src ) => src . hip_accum ( ) , Mode :: Array4 ( src ) => src . hip_accum ( ) , Mode :: List {
.. }
| Mode :: Set {
.. }
=> {
unreachable! ( ) ;
}
}
}


fn merge_array46_same_lgk ( dst : & mut Array8 , num_registers : usize , get_value : impl Fn ( u32 ) -> u8 , Ghost ( src ) : Ghost < Seq < u8 > > ) requires old ( dst ) . shape ( ) , num_registers == old ( dst ) . regs ( ) . len ( ) , num_registers == src . len ( ) , forall | s : u32 | s < num_registers ==> # [ trigger ] get_value . requires ( ( s , ) ) , forall | s : u32 , v : u8 | s < num_registers && # [ trigger ] get_value . ensures ( ( s , ) , v ) ==> v == src [ s as int ] , ensures final ( dst ) . wf ( ) , final ( dst ) . lg ( ) == old ( dst ) . lg ( ) ,
/*@C03.same_lgk.regs*/ final ( dst ) . regs ( ) == pmax ( old ( dst ) . regs ( ) , src ) ,
/*@C03.flagflow.merged*/ final ( dst ) . ooo ( ) , {
proof {
lemma_k ( dst . lg ( ) ) ;
}
for slot in 0 .. num_registers invariant dst . shape ( ) , dst . lg ( ) == old ( dst ) . lg ( ) , num_registers == dst . regs ( ) . len ( ) , num_registers == src . len ( ) , num_registers <= 0x20_0000 , forall | s : u32 | s < num_registers ==> # [ trigger ] get_value . requires ( ( s , ) ) , forall | s : u32 , v : u8 | s < num_registers && # [ trigger ] get_value . ensures ( ( s , ) , v ) ==> v == src [ s as int ] ,
/*@C03.same_lgk.regs*/ forall | j : int | 0 <= j < num_registers ==> # [ trigger ] dst . regs ( ) [ j ] == ( if j < slot {
max8 ( old ( dst ) . regs ( ) [ j ] , src [ j ] ) }
else {
old ( dst ) . regs ( ) [ j ] }
) , {
let val = get_value ( slot as u32 ) ;
let current = dst . values ( ) [ slot ] ;
if val > current {
dst . set_register ( slot , val ) ;
}
}
dst . rebuild_estimator_from_registers ( ) ;
proof {
assert ( dst . regs ( ) =~= pmax ( old ( dst ) . regs ( ) , src ) ) ;
}
}


fn merge_array_same_lgk ( dst : & mut Array8 , src_mode : & Mode ) requires old ( dst ) . shape ( ) , mode_awf ( src_mode ) , mode_lg ( src_mode ) == old ( dst ) . lg ( ) ensures final ( dst ) . wf ( ) , final ( dst ) . lg ( ) == old ( dst ) . lg ( ) ,
/*@C03.same_lgk.regs*/ final ( dst ) . regs ( ) == pmax ( old ( dst ) . regs ( ) , mode_regs ( src_mode ) ) ,
/*@C03.flagflow.merged*/ final ( dst ) . ooo ( ) , {
match src_mode {
Mode :: Array8 ( src ) => {
dst . merge_array_same_lgk ( src . values ( ) ) ;
}
Mode :: Array6 ( src ) => {
merge_array46_same_lgk ( dst , src . num_registers ( ) , | slot : u32 | -> ( r : u8 ) requires src . awf ( ) , slot < src . regs ( ) . len ( ) ensures r == src . regs ( ) [ slot as int ] {
src . get ( slot ) }
, Ghost ( src . regs ( ) ) ) ;
}
Mode :: Array4 ( src ) => {
merge_array46_same_lgk ( dst , src . num_registers ( ) , | slot : u32 | -> ( r : u8 ) requires src . awf ( ) , slot < src . regs ( ) . len ( ) ensures r == src . regs ( ) [ slot as int ] {
src . get ( slot ) }
, Ghost ( src . regs ( ) ) ) ;
}
_ => {
unreachable! ( ) }
}
}


fn merge_array46_with_downsample ( dst : & mut Array8 , dst_lg_k : u8 , num_registers : usize , get_value : impl Fn ( u32 ) -> u8 , Ghost ( src ) : Ghost < Seq < u8 > > , ) requires old ( dst ) . shape ( ) , old ( dst ) . lg ( ) == dst_lg_k , num_registers == src . len ( ) , num_registers <= 0x20_0000 , forall | s : u32 | s < num_registers ==> # [ trigger ] get_value . requires ( ( s , ) ) , forall | s : u32 , v : u8 | s < num_registers && # [ trigger ] get_value . ensures ( ( s , ) , v ) ==> v == src [ s as int ] , ensures final ( dst ) . wf ( ) , final ( dst ) . lg ( ) == old ( dst ) . lg ( ) ,
/*@C03.downsample.regs*/ final ( dst ) . regs ( ) == pmax ( old ( dst ) . regs ( ) , fold ( src , dst_lg_k ) ) ,
/*@C03.flagflow.merged*/ final ( dst ) . ooo ( ) , {
proof {
lemma_k ( dst_lg_k ) ;
}
let dst_mask = ( 1 << dst_lg_k ) - 1 ;
for src_slot in 0 .. num_registers invariant dst . shape ( ) , dst . lg ( ) == dst_lg_k , dst . regs ( ) . len ( ) == old ( dst ) . regs ( ) . len ( ) , dst_mask == ( ( 1u32 << dst_lg_k ) - 1 ) as u32 , num_registers == src . len ( ) , num_registers <= 0x20_0000 , forall | s : u32 | s < num_registers ==> # [ trigger ] get_value . requires ( ( s , ) ) , forall | s : u32 , v : u8 | s < num_registers && # [ trigger ] get_value . ensures ( ( s , ) , v ) ==> v == src [ s as int ] ,
/*@C03.downsample.regs*/ forall | i : int | 0 <= i < dst . regs ( ) . len ( ) ==> # [ trigger ] dst . regs ( ) [ i ] == max8 ( old ( dst ) . regs ( ) [ i ] , foldmax ( src , pow2 ( dst_lg_k as nat ) as int , i , src_slot as int ) ) , {
let val = get_value ( src_slot as u32 ) ;
proof {
lemma_mask ( src_slot as u32 , dst_lg_k ) ;
}
if val > 0 {
let dst_slot = ( src_slot as u32 & dst_mask ) as usize ;
let current = dst . values ( ) [ dst_slot ] ;
if val > current {
dst . set_register ( dst_slot , val ) ;
}
}
}
dst . rebuild_estimator_from_registers ( ) ;
proof {
assert ( dst . regs ( ) =~= pmax ( old ( dst ) . regs ( ) , fold ( src , dst_lg_k ) ) ) ;
}
}


fn merge_array_with_downsample ( dst : & mut Array8 , dst_lg_k : u8 , src_mode : & Mode , src_lg_k : u8 ) requires old ( dst ) . shape ( ) , old ( dst ) . lg ( ) == dst_lg_k , mode_awf ( src_mode ) , mode_lg ( src_mode ) == src_lg_k , src_lg_k > dst_lg_k ensures final ( dst ) . wf ( ) , final ( dst ) . lg ( ) == old ( dst ) . lg ( ) ,
/*@C03.downsample.regs*/ final ( dst ) . regs ( ) == pmax ( old ( dst ) . regs ( ) , fold ( mode_regs ( src_mode ) , dst_lg_k ) ) ,
/*@C03.flagflow.merged*/ final ( dst ) . ooo ( ) , {
proof {
lemma_k ( src_lg_k ) ;
}
assert! ( src_lg_k > dst_lg_k ) ;
match src_mode {
Mode :: Array8 ( src ) => {
dst . merge_array_with_downsample ( src . values ( ) , src_lg_k ) ;
}
Mode :: Array6 ( src ) => {
merge_array46_with_downsample ( dst , dst_lg_k , src . num_registers ( ) , | slot : u32 | -> ( r : u8 ) requires src . awf ( ) , slot < src . regs ( ) . len ( ) ensures r == src . regs ( ) [ slot as int ] {
src . get ( slot ) }
, Ghost ( src . regs ( ) ) ) ;
}
Mode :: Array4 ( src ) => {
merge_array46_with_downsample ( dst , dst_lg_k , src . num_registers ( ) , | slot : u32 | -> ( r : u8 ) requires src . awf ( ) , slot < src . regs ( ) . len ( ) ensures r == src . regs ( ) [ slot as int ] {
src . get ( slot ) }
, Ghost ( src . regs ( ) ) ) ;
}
_ => unreachable! ( ) , }
}


fn merge_array_into_array8 ( dst_array8 : & mut Array8 , dst_lg_k : u8 , src_mode : & Mode , src_lg_k : u8 ) requires old ( dst_array8 ) . shape ( ) , old ( dst_array8 ) . lg ( ) == dst_lg_k , mode_awf ( src_mode ) , mode_lg ( src_mode ) == src_lg_k , src_lg_k >= dst_lg_k ensures final ( dst_array8 ) . wf ( ) , final ( dst_array8 ) . lg ( ) == old ( dst_array8 ) . lg ( ) ,
/*@C03.merge.regs*/ final ( dst_array8 ) . regs ( ) == pmax ( old ( dst_array8 ) . regs ( ) , fold ( mode_regs ( src_mode ) , dst_lg_k ) ) ,
/*@C03.flagflow.merged*/ final ( dst_array8 ) . ooo ( ) , {
assert! ( src_lg_k >= dst_lg_k ) ;
if dst_lg_k == src_lg_k {
proof {
lemma_fold_id ( mode_regs ( src_mode ) , dst_lg_k ) ;
}
merge_array_same_lgk ( dst_array8 , src_mode ) ;
}
else {
merge_array_with_downsample ( dst_array8 , dst_lg_k , src_mode , src_lg_k ) ;
}
}


fn copy_array46_via_coupons ( dst : & mut Array8 , num_registers : usize , get_value : impl Fn ( u32 ) -> u8 , Ghost ( src ) : Ghost < Seq < u8 > > ) requires old ( dst ) . wf ( ) , num_registers == old ( dst ) . regs ( ) . len ( ) , num_registers == src . len ( ) , bounded ( src ) , forall | s : u32 | s < num_registers ==> # [ trigger ] get_value . requires ( ( s , ) ) , forall | s : u32 , v : u8 | s < num_registers && # [ trigger ] get_value . ensures ( ( s , ) , v ) ==> v == src [ s as int ] , ensures final ( dst ) . wf ( ) , final ( dst ) . lg ( ) == old ( dst ) . lg ( ) , final ( dst ) . ooo ( ) == old ( dst ) . ooo ( ) ,
/*@C03.copy46.regs*/ final ( dst ) . regs ( ) == pmax ( old ( dst ) . regs ( ) , src ) , {
proof {
lemma_k ( dst . lg ( ) ) ;
}
for slot in 0 .. num_registers invariant dst . wf ( ) , dst . lg ( ) == old ( dst ) . lg ( ) , dst . ooo ( ) == old ( dst ) . ooo ( ) , num_registers == dst . regs ( ) . len ( ) , num_registers == src . len ( ) , num_registers <= 0x20_0000 , bounded ( src ) , forall | s : u32 | s < num_registers ==> # [ trigger ] get_value . requires ( ( s , ) ) , forall | s : u32 , v : u8 | s < num_registers && # [ trigger ] get_value . ensures ( ( s , ) , v ) ==> v == src [ s as int ] ,
/*@C03.copy46.regs*/ forall | j : int | 0 <= j < num_registers ==> # [ trigger ] dst . regs ( ) [ j ] == ( if j < slot {
max8 ( old ( dst ) . regs ( ) [ j ] , src [ j ] ) }
else {
old ( dst ) . regs ( ) [ j ] }
) , {
let val = get_value ( slot as u32 ) ;
if val > 0 {
let coupon = pack_coupon ( slot as u32 , val ) ;
proof {
lemma_slot_roundtrip ( slot as u32 , dst . lg ( ) , coupon ) ;
lemma_low6 ( val ) ;
}
dst . update ( coupon ) ;
}
}
proof {
assert ( dst . regs ( ) =~= pmax ( old ( dst ) . regs ( ) , src ) ) ;
}
}


spec fn min8(a: u8, b: u8) -> u8 { if a <= b { a } else { b } }

fn copy_or_downsample ( src_mode : & Mode , src_lg_k : u8 , tgt_lg_k : u8 ) -> ( result : Array8 ) requires mode_awf ( src_mode ) , mode_lg ( src_mode ) == src_lg_k , 4 <= tgt_lg_k <= 21 ensures result . wf ( ) , result . lg ( ) == min8 ( src_lg_k , tgt_lg_k ) ,
/*@C03.copy.regs*/ result . regs ( ) == fold ( mode_regs ( src_mode ) , min8 ( src_lg_k , tgt_lg_k ) ) ,
/*@C03.flagflow*/ mode_ooo ( src_mode ) ==> result . ooo ( ) ,
/*@C03.flagflow.merged*/ src_lg_k > tgt_lg_k ==> result . ooo ( ) ,
/*@C03.copy.hip*/ src_lg_k <= tgt_lg_k ==> result . hip ( ) == mode_hip ( src_mode ) , {
if src_lg_k <= tgt_lg_k {
proof {
lemma_k ( src_lg_k ) ;
lemma_fold_id ( mode_regs ( src_mode ) , src_lg_k ) ;
lemma_pmax_zeros ( mode_regs ( src_mode ) ) ;
}
let mut result = Array8 :: new ( src_lg_k ) ;
let src_hip = get_array_hip_accum ( src_mode ) ;
match src_mode {
Mode :: Array8 ( src ) => {
result . merge_array_same_lgk ( src . values ( ) ) ;
}
Mode :: Array6 ( src ) => {
copy_array46_via_coupons ( & mut result , src . num_registers ( ) , | slot : u32 | -> ( r : u8 ) requires src . awf ( ) , slot < src . regs ( ) . len ( ) ensures r == src . regs ( ) [ slot as int ] {
src . get ( slot ) }
, Ghost ( src . regs ( ) ) ) ;
}
Mode :: Array4 ( src ) => {
copy_array46_via_coupons ( & mut result , src . num_registers ( ) , | slot : u32 | -> ( r : u8 ) requires src . awf ( ) , slot < src . regs ( ) . len ( ) ensures r == src . regs ( ) [ slot as int ] {
src . get ( slot ) }
, Ghost ( src . regs ( ) ) ) ;
}
Mode :: List {
.. }
| Mode :: Set {
.. }
=> {
unreachable! ( ) ;
}
}
result . rebuild_estimator_from_registers ( ) ;
result . set_hip_accum ( src_hip ) ;
result }
else {
proof {
lemma_k ( tgt_lg_k ) ;
lemma_pmax_zeros ( fold ( mode_regs ( src_mode ) , tgt_lg_k ) ) ;
}
let mut result = Array8 :: new ( tgt_lg_k ) ;
merge_array_with_downsample ( & mut result , tgt_lg_k , src_mode , src_lg_k ) ;
result }
}


spec fn conv_regs(r: Seq<u8>, t: HllType) -> Seq<u8> {
    match t {
        HllType::Hll8 => r,
        HllType::Hll6 => Seq::new(r.len(), |i: int| clamp63(r[i])),
        HllType::Hll4 => Seq::new(r.len(), |i: int| low6(r[i])),
    }
}
proof fn lemma_conv_bounded(r: Seq<u8>, t: HllType)
  requires bounded(r)
  ensures conv_regs(r, t) == r
{
    assert forall|i: int| 0 <= i < r.len() implies low6(#[trigger] r[i]) == r[i] && clamp63(r[i]) == r[i] by { lemma_low6(r[i]); }
    assert(conv_regs(r, t) =~= r);
}
proof fn lemma_conv_is_bounded(r: Seq<u8>, t: HllType)
  requires t != HllType::Hll8
  ensures bounded(conv_regs(r, t))
{
    assert forall|i: int| 0 <= i < r.len() implies #[trigger] conv_regs(r, t)[i] <= 63 by { lemma_low6(r[i]); }
}
spec fn sk_type(m: &Mode) -> HllType {
    match m { Mode::List { hll_type, .. } => *hll_type, Mode::Set { hll_type, .. } => *hll_type, Mode::Array4(_) => HllType::Hll4, Mode::Array6(_) => HllType::Hll6, Mode::Array8(_) => HllType::Hll8 }
}

spec fn mode_coupons(m: &Mode) -> ISet<u32> { match m { Mode::List { list, .. } => list.coupons(), Mode::Set { set, .. } => set.coupons(), _ => ISet::empty() } }
// the coupon table of a sparse mode (mode_coupons(m) == cset(mode_table(m)))
spec fn mode_table(m: &Mode) -> Seq<u32> { match m { Mode::List { list, .. } => list.container.coupons@, Mode::Set { set, .. } => set.container.coupons@, _ => Seq::empty() } }
spec fn mode_empty(m: &Mode) -> bool {
    match m {
        Mode::List { list, .. } => list.coupons() == ISet::<u32>::empty(),
        Mode::Set { set, .. } => set.coupons() == ISet::<u32>::empty(),
        _ => mode_regs(m) == zeros(mode_regs(m).len()),
    }
}
// emptiness as the code decides it: coupon count 0 (sparse modes) / every register zero (arrays)
spec fn mode_empty_len(m: &Mode) -> bool {
    match m {
        Mode::List { list, .. } => list.container.len == 0,
        Mode::Set { set, .. } => set.container.len == 0,
        _ => mode_regs(m) == zeros(mode_regs(m).len()),
    }
}
// a sketch has absorbed coupon c: it retains it (sparse modes) or the addressed register is at least the coupon's value
spec fn absorbed(m: &Mode, lg: u8, c: u32) -> bool {
    if mode_is_array(m) { mode_regs(m)[slot_of(c, lg)] >= cval(c) } else { mode_coupons(m).contains(c) }
}
// `new` is `old` after absorbing the coupons S: nothing lost, nothing invented
spec fn coupon_merge(old: Seq<u8>, s: ISet<u32>, lg: u8, new: Seq<u8>) -> bool {
    &&& new.len() == old.len()
    &&& forall|i: int| 0 <= i < old.len() ==> #[trigger] new[i] >= old[i]
    &&& forall|c: u32| s.contains(c) ==> new[slot_of(c, lg)] >= #[trigger] cval(c)
    &&& forall|i: int| 0 <= i < old.len() ==> #[trigger] new[i] == old[i] || exists|c: u32| s.contains(c) && slot_of(c, lg) == i && #[trigger] cval(c) == new[i]
}

// a sketch with a non-zero register stays non-empty through fold / max / coupon absorption
spec fn nonzero(r: Seq<u8>) -> bool { exists|j: int| 0 <= j < r.len() && #[trigger] r[j] != 0 }
proof fn lemma_nonzero_iff(r: Seq<u8>)
  ensures nonzero(r) <==> r != zeros(r.len())
{
    if !nonzero(r) { assert(r =~= zeros(r.len())); }
    else { let j = choose|j: int| 0 <= j < r.len() && #[trigger] r[j] != 0; assert(zeros(r.len())[j] == 0); }
}
proof fn lemma_fold_nonzero(src: Seq<u8>, lg: u8)
  requires nonzero(src)
  ensures nonzero(fold(src, lg))
{
    let j = choose|j: int| 0 <= j < src.len() && #[trigger] src[j] != 0;
    let k = pow2(lg as nat) as int;
    lemma_pow2_pos(lg as nat);
    let i = j % k;
    vstd::arithmetic::div_mod::lemma_mod_bound(j, k);
    lemma_foldmax_upper(src, k, i, src.len() as int, j);
    assert(fold(src, lg)[i] != 0);
}
proof fn lemma_pmax_nonzero(a: Seq<u8>, b: Seq<u8>)
  requires a.len() == b.len(), nonzero(a) || nonzero(b)
  ensures nonzero(pmax(a, b))
{
    if nonzero(a) { let j = choose|j: int| 0 <= j < a.len() && #[trigger] a[j] != 0; assert(pmax(a, b)[j] != 0); }
    else { let j = choose|j: int| 0 <= j < b.len() && #[trigger] b[j] != 0; assert(pmax(a, b)[j] != 0); }
}
proof fn lemma_coupon_merge_nonzero(old: Seq<u8>, s: ISet<u32>, lg: u8, new: Seq<u8>)
  requires coupon_merge(old, s, lg, new), nonzero(old)
  ensures nonzero(new)
{
    let j = choose|j: int| 0 <= j < old.len() && #[trigger] old[j] != 0;
    assert(new[j] >= old[j]);
}

// ================= sparse-mode invariants and the one-coupon step (HllSketch::update_with_coupon) =================
// every retained coupon carries a register value >= 1 (hll::coupon() produces values 1..=63)
spec fn vals_ok(s: ISet<u32>) -> bool { forall|c: u32| #[trigger] s.contains(c) ==> cval(c) >= 1 }
// invariant of the sparse modes (unit hll_sketch: mode_wf), plus vals_ok
spec fn sparse_wf(m: &Mode, lg: u8) -> bool {
    match m {
        // a list has 8 slots and is promoted as soon as it is full
        Mode::List { list, .. } => list.wf() && list.container.lg_size == 3 && list.container.coupons@.len() == 8 && list.container.len < 8 && vals_ok(list.coupons()),
        // a set is grown / promoted as soon as its load exceeds 3/4; it never outgrows 2^(lg_k - 3) slots
        Mode::Set { set, .. } => set.wf() && lg >= 8 && 5 <= set.container.lg_size <= lg - 3 && 4 * set.container.len <= 3 * set.container.coupons@.len() && vals_ok(set.coupons()),
        _ => true,
    }
}
spec fn mode_wf(m: &Mode, lg: u8) -> bool {
    match m {
        Mode::Array4(a) => a.wf() && a.lg() == lg,
        Mode::Array6(a) => a.wf() && a.lg() == lg,
        Mode::Array8(a) => a.wf() && a.lg() == lg,
        _ => sparse_wf(m, lg),
    }
}
spec fn reg_apply(r: Seq<u8>, c: u32, lg: u8) -> Seq<u8> { r.update(slot_of(c, lg), max8(r[slot_of(c, lg)], cval(c))) }
// the textbook model of a register array (unit hll_sketch): register[slot] = max value over the coupons mapped to slot (0 if none)
spec fn is_regs_of(r: Seq<u8>, s: ISet<u32>, lg: u8) -> bool {
    &&& r.len() == pow2(lg as nat)
    &&& forall|c: u32| s.contains(c) ==> r[#[trigger] slot_of(c, lg)] >= cval(c)
    &&& forall|i: int| 0 <= i < r.len() && r[i] != 0 ==> exists|c: u32| s.contains(c) && #[trigger] slot_of(c, lg) == i && cval(c) == r[i]
}
proof fn lemma_slot_range(c: u32, lg: u8)
  ensures 0 <= slot_of(c, lg) < pow2(lg as nat)
{
    lemma_pow2_pos(lg as nat);
    vstd::arithmetic::div_mod::lemma_mod_bound(cslot(c) as int, pow2(lg as nat) as int);
}
// C02 core step (as in hll_sketch): max-updating the register of c turns the model of S into the model of S + {c}
proof fn lemma_regs_step(r: Seq<u8>, s: ISet<u32>, c: u32, lg: u8)
  requires is_regs_of(r, s, lg)
  ensures is_regs_of(reg_apply(r, c, lg), s.insert(c), lg)
{
    let r2 = reg_apply(r, c, lg); let s2 = s.insert(c); let sl = slot_of(c, lg);
    lemma_slot_range(c, lg);
    assert forall|x: u32| s2.contains(x) implies r2[#[trigger] slot_of(x, lg)] >= cval(x) by {
        lemma_slot_range(x, lg);
        if x != c { assert(s.contains(x)); }
    }
    assert forall|i: int| 0 <= i < r2.len() && r2[i] != 0 implies exists|x: u32| s2.contains(x) && #[trigger] slot_of(x, lg) == i && cval(x) == r2[i] by {
        if i == sl && r2[i] == cval(c) { assert(s2.contains(c) && slot_of(c, lg) == i); }
        else {
            assert(r[i] == r2[i]);
            let x = choose|x: u32| s.contains(x) && #[trigger] slot_of(x, lg) == i && cval(x) == r[i];
            assert(s2.contains(x) && slot_of(x, lg) == i);
        }
    }
}
// what one coupon does to a sketch: m1 is m0 after absorbing c
spec fn coupon_step(m0: &Mode, lg: u8, c: u32, m1: &Mode) -> bool {
    &&& sk_type(m1) == sk_type(m0)
    &&& (mode_is_array(m0) ==> mode_is_array(m1) && mode_regs(m1) == reg_apply(mode_regs(m0), c, lg) && mode_ooo(m1) == mode_ooo(m0))
    &&& (!mode_is_array(m0) && !mode_is_array(m1) ==> mode_coupons(m1) == mode_coupons(m0).insert(c))
    &&& (!mode_is_array(m0) && mode_is_array(m1) ==> is_regs_of(mode_regs(m1), mode_coupons(m0).insert(c), lg))
}
proof fn lemma_step_absorb(m0: &Mode, lg: u8, c: u32, m1: &Mode)
  requires coupon_step(m0, lg, c, m1), mode_is_array(m0) ==> mode_regs(m0).len() == pow2(lg as nat)
  ensures absorbed(m1, lg, c), forall|x: u32| absorbed(m0, lg, x) ==> #[trigger] absorbed(m1, lg, x)
{
    lemma_slot_range(c, lg);
    if mode_is_array(m0) {
        assert forall|x: u32| absorbed(m0, lg, x) implies #[trigger] absorbed(m1, lg, x) by { lemma_slot_range(x, lg); }
    } else if mode_is_array(m1) {
        let s = mode_coupons(m0).insert(c);
        assert(s.contains(c));
        assert(mode_regs(m1)[slot_of(c, lg)] >= cval(c));
        assert forall|x: u32| absorbed(m0, lg, x) implies #[trigger] absorbed(m1, lg, x) by {
            assert(s.contains(x));
            assert(mode_regs(m1)[slot_of(x, lg)] >= cval(x));
        }
    } else {
        assert(mode_coupons(m1).contains(c));
    }
}
proof fn lemma_coupon_merge_refl(old: Seq<u8>, lg: u8)
  ensures coupon_merge(old, ISet::<u32>::empty(), lg, old)
{
}
// absorbing one more coupon by a register max keeps "nothing lost, nothing invented"
proof fn lemma_coupon_merge_step(old: Seq<u8>, s: ISet<u32>, lg: u8, cur: Seq<u8>, c: u32)
  requires coupon_merge(old, s, lg, cur), old.len() == pow2(lg as nat)
  ensures coupon_merge(old, s.insert(c), lg, reg_apply(cur, c, lg))
{
    let s2 = s.insert(c); let n2 = reg_apply(cur, c, lg); let sl = slot_of(c, lg);
    lemma_slot_range(c, lg);
    assert forall|i: int| 0 <= i < old.len() implies #[trigger] n2[i] >= old[i] by { assert(cur[i] >= old[i]); }
    assert forall|x: u32| s2.contains(x) implies n2[slot_of(x, lg)] >= #[trigger] cval(x) by {
        lemma_slot_range(x, lg);
        if x != c { assert(s.contains(x)); assert(cur[slot_of(x, lg)] >= cval(x)); }
    }
    assert forall|i: int| 0 <= i < old.len() implies #[trigger] n2[i] == old[i] || exists|x: u32| s2.contains(x) && slot_of(x, lg) == i && #[trigger] cval(x) == n2[i] by {
        if i == sl && n2[i] != cur[i] {
            assert(s2.contains(c) && slot_of(c, lg) == i && cval(c) == n2[i]);
        } else {
            assert(n2[i] == cur[i]);
            if cur[i] != old[i] {
                let x = choose|x: u32| s.contains(x) && slot_of(x, lg) == i && #[trigger] cval(x) == cur[i];
                assert(s2.contains(x) && slot_of(x, lg) == i && cval(x) == n2[i]);
            }
        }
    }
}
// the two whole-view facts the coupon merges promise: m is g0 after absorbing every coupon of s
spec fn merged_into(g0: &Mode, s: ISet<u32>, lg: u8, m: &Mode) -> bool {
    &&& forall|c: u32| (absorbed(g0, lg, c) || s.contains(c)) ==> #[trigger] absorbed(m, lg, c)
    &&& (mode_is_array(g0) ==> mode_is_array(m) && mode_ooo(m) == mode_ooo(g0) && coupon_merge(mode_regs(g0), s, lg, mode_regs(m)))
    &&& (!mode_is_array(g0) && !mode_is_array(m) ==> mode_coupons(m) == mode_coupons(g0).union(s))
    &&& (!mode_is_array(g0) && mode_is_array(m) ==> is_regs_of(mode_regs(m), mode_coupons(g0).union(s), lg))
}
proof fn lemma_merged_into_init(g0: &Mode, lg: u8)
  ensures merged_into(g0, ISet::<u32>::empty(), lg, g0)
{
    lemma_coupon_merge_refl(mode_regs(g0), lg);
    assert(mode_coupons(g0).union(ISet::<u32>::empty()) =~= mode_coupons(g0));
}
proof fn lemma_merged_into_step(g0: &Mode, s: ISet<u32>, lg: u8, m: &Mode, c: u32, m2: &Mode)
  requires merged_into(g0, s, lg, m), coupon_step(m, lg, c, m2), mode_is_array(m) ==> mode_regs(m).len() == pow2(lg as nat)
  ensures merged_into(g0, s.insert(c), lg, m2)
{
    lemma_step_absorb(m, lg, c, m2);
    assert forall|x: u32| (absorbed(g0, lg, x) || s.insert(c).contains(x)) implies #[trigger] absorbed(m2, lg, x) by {
        if x != c { assert(absorbed(m, lg, x)); }
    }
    if mode_is_array(g0) {
        lemma_coupon_merge_step(mode_regs(g0), s, lg, mode_regs(m), c);
    } else {
        let u = mode_coupons(g0).union(s);
        assert(u.insert(c) =~= mode_coupons(g0).union(s.insert(c)));
        if mode_is_array(m) { lemma_regs_step(mode_regs(m), u, c, lg); }
    }
}
// a sketch that has absorbed a coupon with a value >= 1 is not empty
proof fn lemma_absorbed_nonempty(m: &Mode, lg: u8, c: u32)
  requires absorbed(m, lg, c), cval(c) >= 1, mode_is_array(m) ==> mode_regs(m).len() == pow2(lg as nat)
  ensures !mode_empty(m)
{
    if mode_is_array(m) {
        lemma_slot_range(c, lg);
        assert(mode_regs(m)[slot_of(c, lg)] != 0);
        lemma_nonzero_iff(mode_regs(m));
    } else {
        assert(mode_coupons(m).contains(c));
        assert(!ISet::<u32>::empty().contains(c));
    }
}

// for a well-formed sparse mode the coupon count is 0 exactly when no coupon is retained
proof fn lemma_empty_len(m: &Mode, lg: u8)
  requires sparse_wf(m, lg)
  ensures mode_empty_len(m) == mode_empty(m)
{
    match m {
        Mode::List { list, .. } => {
            let cs = list.container.coupons@;
            if list.container.len == 0 { assert(cset(cs) =~= ISet::<u32>::empty()); }
            else { assert(cs[0] != 0 && cs.contains(cs[0])); assert(cset(cs).contains(cs[0])); assert(!ISet::<u32>::empty().contains(cs[0])); }
        }
        Mode::Set { set, .. } => {
            let cs = set.container.coupons@;
            lemma_cset_nz(cs);
            if set.container.len == 0 { lemma_cset_empty(nz(cs)); }
            else { lemma_nz_nonzero(cs, 0); assert(nz(cs).contains(nz(cs)[0])); assert(cset(nz(cs)).contains(nz(cs)[0])); assert(!ISet::<u32>::empty().contains(nz(cs)[0])); }
        }
        _ => {}
    }
}

// hll/mod.rs `coupon`: by contract (verified in unit hll_coupons, C16): the coupon is a function of the item's murmur digest
spec fn cpack(slot: u32, value: u8) -> u32 { (((value & 0x3f) as u32) << 26) | (slot & 0x3ffffff) }
spec fn clz64(x: u64) -> int { vstd::std_specs::bits::u64_leading_zeros(x) as int }
spec fn min_int(a: int, b: int) -> int { if a <= b { a } else { b } }
spec fn coupon_of(lo: u64, hi: u64) -> u32 { cpack((lo & 0x3ffffff) as u32, (min_int(clz64(hi), 62) + 1) as u8) }
uninterp spec fn murmur128<H>(v: H) -> (u64, u64);
#[verifier::external_body]
fn coupon<H: Hash>(v: H) -> (r: u32)
  ensures r == coupon_of(murmur128(v).0, murmur128(v).1), r != 0
{ unimplemented!() }
proof fn lemma_coupon_val(lo: u64, hi: u64)
  ensures 1 <= cval(coupon_of(lo, hi)) <= 63
{
    let v = (min_int(clz64(hi), 62) + 1) as u8; let sl = (lo & 0x3ffffff) as u32;
    assert(1 <= v <= 63);
    assert(1 <= v <= 63 ==> ((((((v & 0x3fu8) as u32) << 26u32) | (sl & 0x3ffffffu32)) >> 26u32) as u8) == v) by (bit_vector);
}

// hll/sketch.rs promotions: by contract (verified in unit hll_sketch, same clauses: C02.promote.*)
#[verifier::external_body]
fn promote_container_to_set(container: &Container, hll_type: HllType) -> (r: Mode)
  requires nz(container.coupons@).len() <= 24
  ensures (r matches Mode::Set { set, hll_type: h } && h == hll_type && set.wf() && set.container.lg_size == 5 && set.container.coupons@.len() == 32
    && set.coupons() == container@ && set.container.len <= nz(container.coupons@).len()),
{ unimplemented!() }
#[verifier::external_body]
fn grow_set(old_set: &HashSet, hll_type: HllType) -> (r: Mode)
  requires old_set.shape(), old_set.container.lg_size < 26
  ensures (r matches Mode::Set { set, hll_type: h } && h == hll_type && set.wf() && set.container.lg_size == old_set.container.lg_size + 1
    && set.container.coupons@.len() == 2 * old_set.container.coupons@.len() && set.coupons() == old_set.coupons()
    && set.container.len <= nz(old_set.container.coupons@).len() && (old_set.wf() ==> set.container.len == old_set.container.len)),
{ unimplemented!() }
#[verifier::external_body]
fn promote_container_to_array(container: &Container, hll_type: HllType, lg_config_k: u8) -> (r: Mode)
  requires 4 <= lg_config_k <= 21
  ensures sk_type(&r) == hll_type, mode_is_array(&r), mode_wf(&r, lg_config_k), is_regs_of(mode_regs(&r), container@, lg_config_k),
{ unimplemented!() }
proof fn lemma_pow2_ge32(n: nat)
  requires 5 <= n <= 26
  ensures 32 <= pow2(n) <= 0x4000000
{
    lemma2_to64();
    if n > 5 { lemma_pow2_strictly_increases(5, n); }
    if n < 26 { lemma_pow2_strictly_increases(n, 26); }
}

// float leaves of HllSketch (verified dispatch in unit hll_api, C01): uninterpreted here
uninterp spec fn mode_est(m: Mode) -> f64;
uninterp spec fn mode_ub(m: Mode, s: NumStdDev) -> f64;
uninterp spec fn mode_lb(m: Mode, s: NumStdDev) -> f64;
enum NumStdDev {
One = 1 , Two = 2 , Three = 3 , }

struct HllSketch {
lg_config_k : u8 , mode : Mode , }

impl HllSketch {
    fn from_mode ( lg_config_k : u8 , mode : Mode ) -> ( r : Self ) ensures r . lg_config_k == lg_config_k , r . mode == mode {
Self {
lg_config_k , mode }
}


    fn mode ( & self ) -> ( r : & Mode ) ensures * r == self . mode {
& self . mode }


    fn mode_mut ( & mut self ) -> ( r : & mut Mode ) ensures * r == old ( self ) . mode , final ( self ) . mode == * final ( r ) , final ( self ) . lg_config_k == old ( self ) . lg_config_k {
& mut self . mode }


    fn target_type ( & self ) -> ( r : HllType ) ensures r == sk_type ( & self . mode ) {
match & self . mode {
Mode :: List {
hll_type , .. }
=> * hll_type , Mode :: Set {
hll_type , .. }
=> * hll_type , Mode :: Array4 ( _ ) => HllType :: Hll4 , Mode :: Array6 ( _ ) => HllType :: Hll6 , Mode :: Array8 ( _ ) => HllType :: Hll8 , }
}


    fn lg_config_k ( & self ) -> ( r : u8 ) ensures r == self . lg_config_k {
self . lg_config_k }


    fn update < T : Hash > ( & mut self , value : T )
      requires 4 <= old ( self ) . lg_config_k <= 21 , mode_wf ( & old ( self ) . mode , old ( self ) . lg_config_k )
      ensures final ( self ) . lg_config_k == old ( self ) . lg_config_k ,
        /*@C03.coupon.wf*/ mode_wf ( & final ( self ) . mode , final ( self ) . lg_config_k ) ,
        /*@C03.coupon.step*/ coupon_step ( & old ( self ) . mode , old ( self ) . lg_config_k , coupon_of ( murmur128 ( value ) . 0 , murmur128 ( value ) . 1 ) , & final ( self ) . mode ) ,
    {
        proof { lemma_coupon_val ( murmur128 ( value ) . 0 , murmur128 ( value ) . 1 ) ; }
        let coupon = coupon ( value ) ;
        self . update_with_coupon ( coupon ) ;
    }

    fn update_with_coupon ( & mut self , coupon : u32 )
      requires 4 <= old ( self ) . lg_config_k <= 21 , mode_wf ( & old ( self ) . mode , old ( self ) . lg_config_k ) , coupon != 0 , cval ( coupon ) >= 1
      ensures final ( self ) . lg_config_k == old ( self ) . lg_config_k ,
        /*@C03.coupon.wf*/ mode_wf ( & final ( self ) . mode , final ( self ) . lg_config_k ) ,
        /*@C03.coupon.type*/ sk_type ( & final ( self ) . mode ) == sk_type ( & old ( self ) . mode ) ,
        /*@C03.coupon.array*/ mode_is_array ( & old ( self ) . mode ) ==> mode_is_array ( & final ( self ) . mode ) && mode_regs ( & final ( self ) . mode ) == reg_apply ( mode_regs ( & old ( self ) . mode ) , coupon , old ( self ) . lg_config_k ) && mode_ooo ( & final ( self ) . mode ) == mode_ooo ( & old ( self ) . mode ) ,
        /*@C03.coupon.sparse*/ ! mode_is_array ( & old ( self ) . mode ) && ! mode_is_array ( & final ( self ) . mode ) ==> mode_coupons ( & final ( self ) . mode ) == mode_coupons ( & old ( self ) . mode ) . insert ( coupon ) ,
        /*@C03.coupon.promote*/ ! mode_is_array ( & old ( self ) . mode ) && mode_is_array ( & final ( self ) . mode ) ==> is_regs_of ( mode_regs ( & final ( self ) . mode ) , mode_coupons ( & old ( self ) . mode ) . insert ( coupon ) , old ( self ) . lg_config_k ) ,
    {
        proof { lemma2_to64 ( ) ; }
        match & mut self . mode {
            Mode :: List { list , hll_type } => {
                list . update ( coupon ) ;
                let should_promote = list . container ( ) . is_full ( ) ;
                if should_promote {
                    self . mode = if self . lg_config_k < 8 {
                        promote_container_to_array ( list . container ( ) , * hll_type , self . lg_config_k )
                    } else {
                        promote_container_to_set ( list . container ( ) , * hll_type )
                    }
                }
            }
            Mode :: Set { set , hll_type } => {
                proof {
                    lemma_nz_len ( set . container . coupons @ ) ;
                    lemma_pow2_ge32 ( set . container . lg_size as nat ) ;
                }
                set . update ( coupon ) ;
                let should_promote = RESIZE_DENOMINATOR as usize * set . container ( ) . len ( ) > RESIZE_NUMERATOR as usize * set . container ( ) . capacity ( ) ;
                if should_promote {
                    self . mode = if set . container ( ) . lg_size ( ) == self . lg_config_k as usize - 3 {
                        promote_container_to_array ( set . container ( ) , * hll_type , self . lg_config_k )
                    } else {
                        grow_set ( set , * hll_type )
                    }
                }
            }
            Mode :: Array4 ( arr ) => arr . update ( coupon ) ,
            Mode :: Array6 ( arr ) => arr . update ( coupon ) ,
            Mode :: Array8 ( arr ) => arr . update ( coupon ) ,
        }
    }

    // float leaves (dispatch verified in unit hll_api): uninterpreted results
    #[verifier::external_body]
    fn estimate(&self) -> (r: f64) ensures r == mode_est(self.mode) { unimplemented!() }
    #[verifier::external_body]
    fn upper_bound(&self, num_std_dev: NumStdDev) -> (r: f64) ensures r == mode_ub(self.mode, num_std_dev) { unimplemented!() }
    #[verifier::external_body]
    fn lower_bound(&self, num_std_dev: NumStdDev) -> (r: f64) ensures r == mode_lb(self.mode, num_std_dev) { unimplemented!() }

    // verified in unit hll_api (C02.is_empty): sparse modes answer from the coupon COUNT, arrays from their registers;
    // lemma_empty_len turns the count into "no coupon retained" for a well-formed sparse mode
    #[verifier::external_body]
    fn is_empty(&self) -> (r: bool)
      requires 4 <= self.lg_config_k <= 21, mode_is_array(&self.mode) ==> mode_lg(&self.mode) == self.lg_config_k
      ensures r == mode_empty_len(&self.mode)
    { unimplemented!() }

    #[verifier::external_body]
    fn new(lg_config_k: u8, hll_type: HllType) -> (r: Self)
      requires 4 <= lg_config_k <= 21
      ensures r.lg_config_k == lg_config_k, r.mode is List, sk_type(&r.mode) == hll_type, mode_empty(&r.mode),
        sparse_wf(&r.mode, lg_config_k),   // unit hll_sketch: /*C02.sketch_init*/ r.wf() && r.models(empty)
    { unimplemented!() }
}
impl Clone for HllSketch {
    #[verifier::external_body] fn clone(&self) -> (r: Self) ensures r == *self { unimplemented!() }
}

fn convert_array8_to_type ( src : & Array8 , lg_config_k : u8 , target_type : HllType ) -> ( result : HllSketch ) requires src . shape ( ) , src . lg ( ) == lg_config_k ensures result . lg_config_k == lg_config_k , mode_awf ( & result . mode ) , mode_lg ( & result . mode ) == lg_config_k , sk_type ( & result . mode ) == target_type ,
/*@C03.convert.regs*/ mode_regs ( & result . mode ) == conv_regs ( src . regs ( ) , target_type ) ,
/*@C03.convert.regs*/ bounded ( src . regs ( ) ) ==> mode_regs ( & result . mode ) == src . regs ( ) ,
/*@C03.convert.flag*/ mode_ooo ( & result . mode ) == src . ooo ( ) , {
proof {
lemma_k ( lg_config_k ) ;
if bounded ( src . regs ( ) ) {
lemma_conv_bounded ( src . regs ( ) , target_type ) ;
}
}
match target_type {
HllType :: Hll8 => HllSketch :: from_mode ( lg_config_k , Mode :: Array8 ( src . clone ( ) ) ) , HllType :: Hll6 => {
let mut array6 = Array6 :: new ( lg_config_k ) ;
for slot in 0 .. src . num_registers ( ) invariant src . shape ( ) , src . lg ( ) == lg_config_k , 4 <= lg_config_k <= 21 , array6 . wf ( ) , array6 . lg ( ) == lg_config_k , ! array6 . ooo ( ) , src . regs ( ) . len ( ) <= 0x20_0000 ,
/*@C03.convert.regs*/ forall | j : int | 0 <= j < src . regs ( ) . len ( ) ==> # [ trigger ] array6 . regs ( ) [ j ] == ( if j < slot {
clamp63 ( src . regs ( ) [ j ] ) }
else {
0u8 }
) , {
let val = src . values ( ) [ slot ] ;
if val > 0 {
let clamped_val = val . min ( 63 ) ;
let coupon = pack_coupon ( slot as u32 , clamped_val ) ;
proof {
lemma_slot_roundtrip ( slot as u32 , lg_config_k , coupon ) ;
lemma_low6 ( val ) ;
}
array6 . update ( coupon ) ;
}
}
let src_est = src . estimate ( ) ;
let arr6_est = array6 . estimate ( ) ;
if src_est > arr6_est {
array6 . set_hip_accum ( src_est ) ;
}
proof {
assert ( array6 . regs ( ) =~= conv_regs ( src . regs ( ) , target_type ) ) ;
}
HllSketch :: from_mode ( lg_config_k , Mode :: Array6 ( array6 ) ) }
HllType :: Hll4 => {
let mut array4 = Array4 :: new ( lg_config_k ) ;
for slot in 0 .. src . num_registers ( ) invariant src . shape ( ) , src . lg ( ) == lg_config_k , 4 <= lg_config_k <= 21 , array4 . wf ( ) , array4 . lg ( ) == lg_config_k , ! array4 . ooo ( ) , src . regs ( ) . len ( ) <= 0x20_0000 ,
/*@C03.convert.regs*/ forall | j : int | 0 <= j < src . regs ( ) . len ( ) ==> # [ trigger ] array4 . regs ( ) [ j ] == ( if j < slot {
low6 ( src . regs ( ) [ j ] ) }
else {
0u8 }
) , {
let val = src . values ( ) [ slot ] ;
proof {
lemma_low6 ( val ) ;
}
if val > 0 {
let coupon = pack_coupon ( slot as u32 , val ) ;
proof {
lemma_slot_roundtrip ( slot as u32 , lg_config_k , coupon ) ;
}
array4 . update ( coupon ) ;
}
}
let src_est = src . estimate ( ) ;
let arr4_est = array4 . estimate ( ) ;
if src_est > arr4_est {
array4 . set_hip_accum ( src_est ) ;
}
proof {
assert ( array4 . regs ( ) =~= conv_regs ( src . regs ( ) , target_type ) ) ;
}
HllSketch :: from_mode ( lg_config_k , Mode :: Array4 ( array4 ) ) }
}
}


// ================= HllUnion =================
struct HllUnion {
lg_max_k : u8 , gadget : HllSketch , }

// the gadget is always a well-formed Hll8 sketch: List/Set with target Hll8, or Array8 (never Array4/Array6)
spec fn g_ok(m: &Mode, lg: u8) -> bool {
    sk_type(m) == HllType::Hll8 && mode_wf(m, lg)
}
// an input sketch
spec fn sk_wf(s: &HllSketch) -> bool {
    4 <= s.lg_config_k <= 21 && (mode_is_array(&s.mode) ==> mode_awf(&s.mode) && mode_lg(&s.mode) == s.lg_config_k) && sparse_wf(&s.mode, s.lg_config_k)
}

// iterate the coupons of a List/Set source into the gadget (HllSketch::update_with_coupon does the promotions)
fn merge_coupons_into_gadget(gadget: &mut HllSketch, src_mode: &Mode)
  requires !mode_is_array(src_mode), vals_ok(mode_coupons(src_mode)), 4 <= old(gadget).lg_config_k <= 21, g_ok(&old(gadget).mode, old(gadget).lg_config_k)
  ensures final(gadget).lg_config_k == old(gadget).lg_config_k, g_ok(&final(gadget).mode, final(gadget).lg_config_k),
    /*@C03.coupons.absorbed*/ forall|c: u32| (absorbed(&old(gadget).mode, old(gadget).lg_config_k, c) || mode_coupons(src_mode).contains(c)) ==> #[trigger] absorbed(&final(gadget).mode, old(gadget).lg_config_k, c),
    /*@C03.coupons.regs*/ mode_is_array(&old(gadget).mode) ==> mode_is_array(&final(gadget).mode) && mode_ooo(&final(gadget).mode) == mode_ooo(&old(gadget).mode)
        && coupon_merge(mode_regs(&old(gadget).mode), mode_coupons(src_mode), old(gadget).lg_config_k, mode_regs(&final(gadget).mode)),
    /*@C03.coupons.union*/ !mode_is_array(&old(gadget).mode) && !mode_is_array(&final(gadget).mode) ==> mode_coupons(&final(gadget).mode) == mode_coupons(&old(gadget).mode).union(mode_coupons(src_mode)),
    /*@C03.coupons.promoted*/ !mode_is_array(&old(gadget).mode) && mode_is_array(&final(gadget).mode) ==> is_regs_of(mode_regs(&final(gadget).mode), mode_coupons(&old(gadget).mode).union(mode_coupons(src_mode)), old(gadget).lg_config_k),
    /*@C03.update.nonempty*/ !mode_empty(src_mode) ==> !mode_empty(&final(gadget).mode),
{
    proof { lemma_merged_into_init(&gadget.mode, gadget.lg_config_k); }
    match src_mode {
        Mode::List { list, .. } => {
            let vx_s1 = vx_iter_container(list.container());
            let mut vx_i1 = 0;
            proof { lemma_cset_empty(vx_s1@.take(0)); lemma_cset_nz(mode_table(src_mode)); }
            while vx_i1 < vx_s1.len()
              invariant vx_s1@ == nz(mode_table(src_mode)), vx_i1 <= vx_s1@.len(), vals_ok(cset(vx_s1@)),
                gadget.lg_config_k == old(gadget).lg_config_k, 4 <= gadget.lg_config_k <= 21, g_ok(&gadget.mode, gadget.lg_config_k),
                /*@C03.coupons.absorbed*/ merged_into(&old(gadget).mode, cset(vx_s1@.take(vx_i1 as int)), gadget.lg_config_k, &gadget.mode),
              decreases vx_s1@.len() - vx_i1
            {
                proof {
                    lemma_nz_nonzero(mode_table(src_mode), vx_i1 as int);
                    lemma_cset_take(vx_s1@, vx_i1 as int);
                }
                let ghost m = gadget.mode;
                let coupon = vx_s1[vx_i1];
                gadget.update_with_coupon(coupon);
                proof { lemma_merged_into_step(&old(gadget).mode, cset(vx_s1@.take(vx_i1 as int)), gadget.lg_config_k, &m, coupon, &gadget.mode); }
                vx_i1 += 1;
            }
            proof {
                assert(vx_s1@.take(vx_i1 as int) =~= vx_s1@);
                if !mode_empty(src_mode) {
                    lemma_cset_nonempty(vx_s1@);
                    lemma_nz_nonzero(mode_table(src_mode), 0);
                    assert(vx_s1@.contains(vx_s1@[0])); assert(cset(vx_s1@).contains(vx_s1@[0]));
                    lemma_absorbed_nonempty(&gadget.mode, gadget.lg_config_k, vx_s1@[0]);
                }
            }
        }
        Mode::Set { set, .. } => {
            let vx_s2 = vx_iter_container(set.container());
            let mut vx_i2 = 0;
            proof { lemma_cset_empty(vx_s2@.take(0)); lemma_cset_nz(mode_table(src_mode)); }
            while vx_i2 < vx_s2.len()
              invariant vx_s2@ == nz(mode_table(src_mode)), vx_i2 <= vx_s2@.len(), vals_ok(cset(vx_s2@)),
                gadget.lg_config_k == old(gadget).lg_config_k, 4 <= gadget.lg_config_k <= 21, g_ok(&gadget.mode, gadget.lg_config_k),
                /*@C03.coupons.absorbed*/ merged_into(&old(gadget).mode, cset(vx_s2@.take(vx_i2 as int)), gadget.lg_config_k, &gadget.mode),
              decreases vx_s2@.len() - vx_i2
            {
                proof {
                    lemma_nz_nonzero(mode_table(src_mode), vx_i2 as int);
                    lemma_cset_take(vx_s2@, vx_i2 as int);
                }
                let ghost m = gadget.mode;
                let coupon = vx_s2[vx_i2];
                gadget.update_with_coupon(coupon);
                proof { lemma_merged_into_step(&old(gadget).mode, cset(vx_s2@.take(vx_i2 as int)), gadget.lg_config_k, &m, coupon, &gadget.mode); }
                vx_i2 += 1;
            }
            proof {
                assert(vx_s2@.take(vx_i2 as int) =~= vx_s2@);
                if !mode_empty(src_mode) {
                    lemma_cset_nonempty(vx_s2@);
                    lemma_nz_nonzero(mode_table(src_mode), 0);
                    assert(vx_s2@.contains(vx_s2@[0])); assert(cset(vx_s2@).contains(vx_s2@[0]));
                    lemma_absorbed_nonempty(&gadget.mode, gadget.lg_config_k, vx_s2@[0]);
                }
            }
        }
        Mode::Array4(_) | Mode::Array6(_) | Mode::Array8(_) => {
            unreachable!();
        }
    }
}

// iterate the coupons of a List/Set gadget into the freshly copied Array8
fn merge_coupons_into_mode(dst: &mut Array8, src_mode: &Mode)
  requires !mode_is_array(src_mode), old(dst).wf()
  ensures final(dst).wf(), final(dst).lg() == old(dst).lg(), final(dst).ooo() == old(dst).ooo(),
    /*@C03.coupons.regs*/ coupon_merge(old(dst).regs(), mode_coupons(src_mode), old(dst).lg(), final(dst).regs()),
{
    proof { lemma_coupon_merge_refl(dst.regs(), dst.lg()); }
    match src_mode {
        Mode::List { list, .. } => {
            let vx_s1 = vx_iter_container(list.container());
            let mut vx_i1 = 0;
            proof { lemma_cset_empty(vx_s1@.take(0)); }
            while vx_i1 < vx_s1.len()
              invariant vx_s1@ == nz(mode_table(src_mode)), vx_i1 <= vx_s1@.len(), dst.wf(), dst.lg() == old(dst).lg(), dst.ooo() == old(dst).ooo(),
                /*@C03.coupons.regs*/ coupon_merge(old(dst).regs(), cset(vx_s1@.take(vx_i1 as int)), dst.lg(), dst.regs()),
              decreases vx_s1@.len() - vx_i1
            {
                let coupon = vx_s1[vx_i1];
                proof {
                    lemma_coupon_merge_step(old(dst).regs(), cset(vx_s1@.take(vx_i1 as int)), dst.lg(), dst.regs(), coupon);
                    lemma_nz_nonzero(mode_table(src_mode), vx_i1 as int);
                    lemma_cset_take(vx_s1@, vx_i1 as int);
                }
                dst.update(coupon);
                vx_i1 += 1;
            }
            proof {
                assert(vx_s1@.take(vx_i1 as int) =~= vx_s1@);
                lemma_cset_nz(mode_table(src_mode));
            }
        }
        Mode::Set { set, .. } => {
            let vx_s2 = vx_iter_container(set.container());
            let mut vx_i2 = 0;
            proof { lemma_cset_empty(vx_s2@.take(0)); }
            while vx_i2 < vx_s2.len()
              invariant vx_s2@ == nz(mode_table(src_mode)), vx_i2 <= vx_s2@.len(), dst.wf(), dst.lg() == old(dst).lg(), dst.ooo() == old(dst).ooo(),
                /*@C03.coupons.regs*/ coupon_merge(old(dst).regs(), cset(vx_s2@.take(vx_i2 as int)), dst.lg(), dst.regs()),
              decreases vx_s2@.len() - vx_i2
            {
                let coupon = vx_s2[vx_i2];
                proof {
                    lemma_coupon_merge_step(old(dst).regs(), cset(vx_s2@.take(vx_i2 as int)), dst.lg(), dst.regs(), coupon);
                    lemma_nz_nonzero(mode_table(src_mode), vx_i2 as int);
                    lemma_cset_take(vx_s2@, vx_i2 as int);
                }
                dst.update(coupon);
                vx_i2 += 1;
            }
            proof {
                assert(vx_s2@.take(vx_i2 as int) =~= vx_s2@);
                lemma_cset_nz(mode_table(src_mode));
            }
        }
        Mode::Array4(_) | Mode::Array6(_) | Mode::Array8(_) => {
            unreachable!();
        }
    }
}

fn convert_coupon_mode_to_hll8 ( src_mode : & Mode , src_lg_k : u8 ) -> ( r : HllSketch ) requires ! mode_is_array ( src_mode ) ensures r . lg_config_k == src_lg_k , ! mode_is_array ( & r . mode ) , sk_type ( & r . mode ) == HllType :: Hll8 , sparse_wf ( src_mode , src_lg_k ) ==> sparse_wf ( & r . mode , src_lg_k ) ,
/*@C03.sparse.copy*/ mode_coupons ( & r . mode ) == mode_coupons ( src_mode ) , ( r . mode is List ) == ( src_mode is List ) , {
match src_mode {
Mode :: List {
list , .. }
=> HllSketch :: from_mode ( src_lg_k , Mode :: List {
list : list . clone ( ) , hll_type : HllType :: Hll8 , }
, ) , Mode :: Set {
set , .. }
=> HllSketch :: from_mode ( src_lg_k , Mode :: Set {
set : set . clone ( ) , hll_type : HllType :: Hll8 , }
, ) , _ => unreachable! ( ) , }
}


// R12b: a DOCUMENTED panic ("# Panics: if lg_max_k is not in the range [4, 21]") is modelled as 'returns only if the condition holds':
// the condition is a tagged POSTCONDITION (`*_validated`) instead of a precondition, so weakening or removing the check is noticed.
// Body = the original statement.
#[verifier::external_body] fn vx_documented_panic(c: bool) ensures c { assert!(c); }

impl HllUnion {
    spec fn uwf(&self) -> bool {
        4 <= self.lg_max_k <= 21 && 4 <= self.gadget.lg_config_k <= self.lg_max_k && g_ok(&self.gadget.mode, self.gadget.lg_config_k)
    }

    fn update ( & mut self , sketch : & HllSketch ) requires old ( self ) . uwf ( ) , sk_wf ( sketch ) ensures final ( self ) . uwf ( ) , final ( self ) . lg_max_k == old ( self ) . lg_max_k ,
/*@C03.update.empty*/ mode_empty ( & sketch . mode ) ==> * final ( self ) == * old ( self ) , ! mode_empty ( & sketch . mode ) && mode_is_array ( & sketch . mode ) ==> ( final ( self ) . gadget . mode is Array8 ) ,
/*@C03.update.lgk*/ ! mode_empty ( & sketch . mode ) && mode_is_array ( & sketch . mode ) ==> ( final ( self ) . gadget . lg_config_k == upd_lg ( old ( self ) , & sketch . mode ) ) ,
/*@C03.update.regs.copy*/ ! mode_empty ( & sketch . mode ) && mode_is_array ( & sketch . mode ) ==> ( mode_empty ( & old ( self ) . gadget . mode ) ==> mode_regs ( & final ( self ) . gadget . mode ) == fold ( mode_regs ( & sketch . mode ) , upd_lg ( old ( self ) , & sketch . mode ) ) ) ,
/*@C03.update.regs.merge*/ ! mode_empty ( & sketch . mode ) && mode_is_array ( & sketch . mode ) ==> ( ! mode_empty ( & old ( self ) . gadget . mode ) && old ( self ) . gadget . mode is Array8 ==> mode_regs ( & final ( self ) . gadget . mode ) == pmax ( fold ( mode_regs ( & old ( self ) . gadget . mode ) , upd_lg ( old ( self ) , & sketch . mode ) ) , fold ( mode_regs ( & sketch . mode ) , upd_lg ( old ( self ) , & sketch . mode ) ) ) ) ,
/*@C03.update.regs.promote*/ ! mode_empty ( & sketch . mode ) && mode_is_array ( & sketch . mode ) ==> ( ! mode_empty ( & old ( self ) . gadget . mode ) && ! ( old ( self ) . gadget . mode is Array8 ) ==> coupon_merge ( fold ( mode_regs ( & sketch . mode ) , upd_lg ( old ( self ) , & sketch . mode ) ) , mode_coupons ( & old ( self ) . gadget . mode ) , upd_lg ( old ( self ) , & sketch . mode ) , mode_regs ( & final ( self ) . gadget . mode ) ) ) ,
/*@C03.flagflow.update*/ ! mode_empty ( & sketch . mode ) && mode_is_array ( & sketch . mode ) ==> ( mode_ooo ( & sketch . mode ) ==> mode_ooo ( & final ( self ) . gadget . mode ) ) ,
/*@C03.flagflow.merged*/ ! mode_empty ( & sketch . mode ) && mode_is_array ( & sketch . mode ) ==> ( ( ! mode_empty ( & old ( self ) . gadget . mode ) && old ( self ) . gadget . mode is Array8 ) || mode_lg ( & sketch . mode ) > old ( self ) . lg_max_k ==> mode_ooo ( & final ( self ) . gadget . mode ) ) ,
/*@C03.update.sparse*/ ! mode_empty ( & sketch . mode ) && ! mode_is_array ( & sketch . mode ) ==> sparse_update_post ( old ( self ) , sketch , final ( self ) ) ,
/*@C03.update.nonempty*/ ! mode_empty ( & sketch . mode ) ==> ! mode_empty ( & final ( self ) . gadget . mode ) , {
proof {
lemma_empty_len ( & sketch . mode , sketch . lg_config_k ) ;
}
if sketch . is_empty ( ) {
return ;
}
let src_lg_k = sketch . lg_config_k ( ) ;
let dst_lg_k = self . gadget . lg_config_k ( ) ;
let src_mode = sketch . mode ( ) ;
match src_mode {
Mode :: List {
.. }
| Mode :: Set {
.. }
=> {
self . update_from_list_or_set ( sketch , src_mode , src_lg_k , dst_lg_k ) ;
}
Mode :: Array4 ( _ ) | Mode :: Array6 ( _ ) | Mode :: Array8 ( _ ) => {
self . update_from_array ( src_mode , src_lg_k , dst_lg_k ) ;
}
}
}


    fn update_from_list_or_set ( & mut self , sketch : & HllSketch , src_mode : & Mode , src_lg_k : u8 , dst_lg_k : u8 , ) requires old ( self ) . uwf ( ) , sk_wf ( sketch ) , * src_mode == sketch . mode , ! mode_is_array ( src_mode ) , src_lg_k == sketch . lg_config_k , dst_lg_k == old ( self ) . gadget . lg_config_k ensures final ( self ) . uwf ( ) , final ( self ) . lg_max_k == old ( self ) . lg_max_k ,
/*@C03.update.sparse*/ sparse_update_post ( old ( self ) , sketch , final ( self ) ) ,
/*@C03.update.nonempty*/ ! mode_empty ( src_mode ) ==> ! mode_empty ( & final ( self ) . gadget . mode ) , {
proof {
lemma_empty_len ( & self . gadget . mode , self . gadget . lg_config_k ) ;
}
if self . gadget . is_empty ( ) && src_lg_k == dst_lg_k {
self . gadget = if sketch . target_type ( ) == HllType :: Hll8 {
sketch . clone ( ) }
else {
convert_coupon_mode_to_hll8 ( src_mode , src_lg_k ) }
;
}
else {
merge_coupons_into_gadget ( & mut self . gadget , src_mode ) ;
}
}


    fn update_from_array ( & mut self , src_mode : & Mode , src_lg_k : u8 , dst_lg_k : u8 ) requires old ( self ) . uwf ( ) , mode_is_array ( src_mode ) , mode_awf ( src_mode ) , mode_lg ( src_mode ) == src_lg_k , dst_lg_k == old ( self ) . gadget . lg_config_k ensures final ( self ) . uwf ( ) , final ( self ) . lg_max_k == old ( self ) . lg_max_k , final ( self ) . gadget . mode is Array8 ,
/*@C03.update.lgk*/ final ( self ) . gadget . lg_config_k == upd_lg ( old ( self ) , src_mode ) ,
/*@C03.update.regs.copy*/ mode_empty ( & old ( self ) . gadget . mode ) ==> mode_regs ( & final ( self ) . gadget . mode ) == fold ( mode_regs ( src_mode ) , upd_lg ( old ( self ) , src_mode ) ) ,
/*@C03.update.regs.merge*/ ! mode_empty ( & old ( self ) . gadget . mode ) && old ( self ) . gadget . mode is Array8 ==> mode_regs ( & final ( self ) . gadget . mode ) == pmax ( fold ( mode_regs ( & old ( self ) . gadget . mode ) , upd_lg ( old ( self ) , src_mode ) ) , fold ( mode_regs ( src_mode ) , upd_lg ( old ( self ) , src_mode ) ) ) ,
/*@C03.update.regs.promote*/ ! mode_empty ( & old ( self ) . gadget . mode ) && ! ( old ( self ) . gadget . mode is Array8 ) ==> coupon_merge ( fold ( mode_regs ( src_mode ) , upd_lg ( old ( self ) , src_mode ) ) , mode_coupons ( & old ( self ) . gadget . mode ) , upd_lg ( old ( self ) , src_mode ) , mode_regs ( & final ( self ) . gadget . mode ) ) ,
/*@C03.flagflow.update*/ mode_ooo ( src_mode ) ==> mode_ooo ( & final ( self ) . gadget . mode ) ,
/*@C03.flagflow.merged*/ ( ! mode_empty ( & old ( self ) . gadget . mode ) && old ( self ) . gadget . mode is Array8 ) || mode_lg ( src_mode ) > old ( self ) . lg_max_k ==> mode_ooo ( & final ( self ) . gadget . mode ) ,
/*@C03.update.nonempty*/ ! mode_empty ( src_mode ) ==> ! mode_empty ( & final ( self ) . gadget . mode ) , {
proof {
lemma_empty_len ( & self . gadget . mode , self . gadget . lg_config_k ) ;
}
if self . gadget . is_empty ( ) {
let new_array = copy_or_downsample ( src_mode , src_lg_k , self . lg_max_k ) ;
proof {
lemma_k ( new_array . lg ( ) ) ;
if ! mode_empty ( src_mode ) {
lemma_nonzero_iff ( mode_regs ( src_mode ) ) ;
lemma_fold_nonzero ( mode_regs ( src_mode ) , new_array . lg ( ) ) ;
lemma_nonzero_iff ( new_array . regs ( ) ) ;
}
}
let final_lg_k = new_array . num_registers ( ) . trailing_zeros ( ) as u8 ;
self . gadget = HllSketch :: from_mode ( final_lg_k , Mode :: Array8 ( new_array ) ) ;
return ;
}
let is_gadget_array = matches! ( self . gadget . mode ( ) , Mode :: Array8 ( _ ) ) ;
if is_gadget_array {
self . merge_array_into_array_gadget ( src_mode , src_lg_k , dst_lg_k ) ;
}
else {
self . promote_gadget_and_merge_array ( src_mode , src_lg_k ) ;
}
}


    fn merge_array_into_array_gadget ( & mut self , src_mode : & Mode , src_lg_k : u8 , dst_lg_k : u8 ) requires old ( self ) . uwf ( ) , old ( self ) . gadget . mode is Array8 , mode_awf ( src_mode ) , mode_lg ( src_mode ) == src_lg_k , dst_lg_k == old ( self ) . gadget . lg_config_k ensures final ( self ) . uwf ( ) , final ( self ) . lg_max_k == old ( self ) . lg_max_k , final ( self ) . gadget . mode is Array8 ,
/*@C03.update.lgk*/ final ( self ) . gadget . lg_config_k == min8 ( src_lg_k , dst_lg_k ) ,
/*@C03.update.regs*/ mode_regs ( & final ( self ) . gadget . mode ) == pmax ( fold ( mode_regs ( & old ( self ) . gadget . mode ) , min8 ( src_lg_k , dst_lg_k ) ) , fold ( mode_regs ( src_mode ) , min8 ( src_lg_k , dst_lg_k ) ) ) ,
/*@C03.flagflow.merged*/ mode_ooo ( & final ( self ) . gadget . mode ) ,
/*@C03.update.nonempty*/ ! mode_empty ( src_mode ) ==> ! mode_empty ( & final ( self ) . gadget . mode ) , {
if src_lg_k < dst_lg_k {
let mut new_array = Array8 :: new ( src_lg_k ) ;
match self . gadget . mode ( ) {
Mode :: Array8 ( old_gadget ) => {
proof {
lemma_k ( src_lg_k ) ;
lemma_pmax_zeros ( fold ( old_gadget . regs ( ) , src_lg_k ) ) ;
}
merge_array_with_downsample ( & mut new_array , src_lg_k , & Mode :: Array8 ( old_gadget . clone ( ) ) , dst_lg_k , ) ;
}
_ => {
unreachable! ( ) }
}
proof {
lemma_fold_id ( mode_regs ( src_mode ) , src_lg_k ) ;
}
merge_array_same_lgk ( & mut new_array , src_mode ) ;
self . gadget = HllSketch :: from_mode ( src_lg_k , Mode :: Array8 ( new_array ) ) ;
}
else {
proof {
lemma_fold_id ( mode_regs ( & self . gadget . mode ) , dst_lg_k ) ;
}
match self . gadget . mode_mut ( ) {
Mode :: Array8 ( dst_array ) => {
merge_array_into_array8 ( dst_array , dst_lg_k , src_mode , src_lg_k ) ;
}
_ => {
unreachable! ( ) }
}
}
proof {
if ! mode_empty ( src_mode ) {
let lg1 = min8 ( src_lg_k , dst_lg_k ) ;
lemma_k ( lg1 ) ;
lemma_nonzero_iff ( mode_regs ( src_mode ) ) ;
lemma_fold_nonzero ( mode_regs ( src_mode ) , lg1 ) ;
lemma_pmax_nonzero ( fold ( mode_regs ( & old ( self ) . gadget . mode ) , lg1 ) , fold ( mode_regs ( src_mode ) , lg1 ) ) ;
lemma_nonzero_iff ( mode_regs ( & self . gadget . mode ) ) ;
}
}
}


    fn promote_gadget_and_merge_array ( & mut self , src_mode : & Mode , src_lg_k : u8 ) requires old ( self ) . uwf ( ) , ! mode_is_array ( & old ( self ) . gadget . mode ) , mode_awf ( src_mode ) , mode_lg ( src_mode ) == src_lg_k ensures final ( self ) . uwf ( ) , final ( self ) . lg_max_k == old ( self ) . lg_max_k , final ( self ) . gadget . mode is Array8 ,
/*@C03.update.lgk*/ final ( self ) . gadget . lg_config_k == min8 ( src_lg_k , old ( self ) . lg_max_k ) ,
/*@C03.update.regs*/ coupon_merge ( fold ( mode_regs ( src_mode ) , min8 ( src_lg_k , old ( self ) . lg_max_k ) ) , mode_coupons ( & old ( self ) . gadget . mode ) , min8 ( src_lg_k , old ( self ) . lg_max_k ) , mode_regs ( & final ( self ) . gadget . mode ) ) ,
/*@C03.flagflow.update*/ mode_ooo ( src_mode ) ==> mode_ooo ( & final ( self ) . gadget . mode ) ,
/*@C03.flagflow.merged*/ src_lg_k > old ( self ) . lg_max_k ==> mode_ooo ( & final ( self ) . gadget . mode ) ,
/*@C03.update.nonempty*/ ! mode_empty ( src_mode ) ==> ! mode_empty ( & final ( self ) . gadget . mode ) , {
let mut new_array = copy_or_downsample ( src_mode , src_lg_k , self . lg_max_k ) ;
let ghost copied = new_array . regs ( ) ;
let old_gadget_mode = self . gadget . mode ( ) ;
merge_coupons_into_mode ( & mut new_array , old_gadget_mode ) ;
proof {
lemma_k ( new_array . lg ( ) ) ;
if ! mode_empty ( src_mode ) {
lemma_nonzero_iff ( mode_regs ( src_mode ) ) ;
lemma_fold_nonzero ( mode_regs ( src_mode ) , new_array . lg ( ) ) ;
lemma_coupon_merge_nonzero ( copied , mode_coupons ( old_gadget_mode ) , new_array . lg ( ) , new_array . regs ( ) ) ;
lemma_nonzero_iff ( new_array . regs ( ) ) ;
}
}
let final_lg_k = new_array . num_registers ( ) . trailing_zeros ( ) as u8 ;
self . gadget = HllSketch :: from_mode ( final_lg_k , Mode :: Array8 ( new_array ) ) ;
}


    fn to_sketch ( & self , hll_type : HllType ) -> ( r : HllSketch ) requires self . uwf ( ) ensures r . lg_config_k == self . gadget . lg_config_k , sk_type ( & r . mode ) == hll_type , mode_is_array ( & r . mode ) == mode_is_array ( & self . gadget . mode ) , ( r . mode is List ) == ( self . gadget . mode is List ) ,
/*@C03.to_sketch.sparse*/ mode_coupons ( & r . mode ) == mode_coupons ( & self . gadget . mode ) ,
/*@C03.to_sketch.regs*/ mode_regs ( & r . mode ) == conv_regs ( mode_regs ( & self . gadget . mode ) , hll_type ) ,
/*@C03.to_sketch.regs*/ bounded ( mode_regs ( & self . gadget . mode ) ) ==> mode_regs ( & r . mode ) == mode_regs ( & self . gadget . mode ) ,
/*@C03.to_sketch.flag*/ mode_ooo ( & r . mode ) == mode_ooo ( & self . gadget . mode ) , {
let gadget_type = self . gadget . target_type ( ) ;
if hll_type == gadget_type {
return self . gadget . clone ( ) ;
}
match self . gadget . mode ( ) {
Mode :: List {
list , .. }
=> HllSketch :: from_mode ( self . gadget . lg_config_k ( ) , Mode :: List {
list : list . clone ( ) , hll_type , }
, ) , Mode :: Set {
set , .. }
=> HllSketch :: from_mode ( self . gadget . lg_config_k ( ) , Mode :: Set {
set : set . clone ( ) , hll_type , }
, ) , Mode :: Array8 ( array8 ) => {
convert_array8_to_type ( array8 , self . gadget . lg_config_k ( ) , hll_type ) }
Mode :: Array4 ( _ ) | Mode :: Array6 ( _ ) => {
unreachable! ( ) }
}
}


    fn new ( lg_max_k : u8 ) -> ( r : Self ) ensures
/*@C03.new.lg_max_k_validated*/ 4 <= lg_max_k <= 21 ,
/*@C03.new.empty*/ r . uwf ( ) && r . lg_max_k == lg_max_k && r . gadget . lg_config_k == lg_max_k && mode_empty ( & r . gadget . mode ) , {
vx_documented_panic ( ( 4 ..= 21 ) . contains ( & lg_max_k ) ) ;
let gadget = HllSketch :: new ( lg_max_k , HllType :: Hll8 ) ;
Self {
lg_max_k , gadget }
}


    fn update_value < T : Hash > ( & mut self , value : T ) requires old ( self ) . uwf ( ) ensures final ( self ) . uwf ( ) , final ( self ) . lg_max_k == old ( self ) . lg_max_k , final ( self ) . gadget . lg_config_k == old ( self ) . gadget . lg_config_k ,
/*@C03.update_value.step*/ coupon_step ( & old ( self ) . gadget . mode , old ( self ) . gadget . lg_config_k , coupon_of ( murmur128 ( value ) . 0 , murmur128 ( value ) . 1 ) , & final ( self ) . gadget . mode ) ,
/*@C03.update_value.nonempty*/ ! mode_empty ( & final ( self ) . gadget . mode ) , {
self . gadget . update ( value ) ;
proof {
lemma_coupon_val ( murmur128 ( value ) . 0 , murmur128 ( value ) . 1 ) ;
lemma_k ( self . gadget . lg_config_k ) ;
lemma_step_absorb ( & old ( self ) . gadget . mode , self . gadget . lg_config_k , coupon_of ( murmur128 ( value ) . 0 , murmur128 ( value ) . 1 ) , & self . gadget . mode ) ;
lemma_absorbed_nonempty ( & self . gadget . mode , self . gadget . lg_config_k , coupon_of ( murmur128 ( value ) . 0 , murmur128 ( value ) . 1 ) ) ;
}
}


    fn lg_config_k ( & self ) -> ( r : u8 ) ensures r == self . gadget . lg_config_k {
self . gadget . lg_config_k ( ) }


    fn lg_max_k ( & self ) -> ( r : u8 ) ensures r == self . lg_max_k {
self . lg_max_k }


    fn is_empty ( & self ) -> ( r : bool ) requires self . uwf ( ) ensures
/*@C03.is_empty*/ r == mode_empty ( & self . gadget . mode ) {
proof {
lemma_empty_len ( & self . gadget . mode , self . gadget . lg_config_k ) ;
}
self . gadget . is_empty ( ) }


    fn estimate ( & self ) -> ( r : f64 ) ensures
/*@C03.estimate.delegates*/ r == mode_est ( self . gadget . mode ) {
self . gadget . estimate ( ) }


    fn upper_bound ( & self , num_std_dev : NumStdDev ) -> ( r : f64 ) ensures
/*@C03.bounds.delegate*/ r == mode_ub ( self . gadget . mode , num_std_dev ) {
self . gadget . upper_bound ( num_std_dev ) }


    fn lower_bound ( & self , num_std_dev : NumStdDev ) -> ( r : f64 ) ensures
/*@C03.bounds.delegate*/ r == mode_lb ( self . gadget . mode , num_std_dev ) {
self . gadget . lower_bound ( num_std_dev ) }


    fn reset ( & mut self ) requires 4 <= old ( self ) . lg_max_k <= 21 ensures final ( self ) . uwf ( ) , final ( self ) . lg_max_k == old ( self ) . lg_max_k ,
/*@C03.reset*/ mode_empty ( & final ( self ) . gadget . mode ) && final ( self ) . gadget . lg_config_k == final ( self ) . lg_max_k , {
self . gadget = HllSketch :: new ( self . lg_max_k , HllType :: Hll8 ) ;
}

}

// the lg_k of the gadget after absorbing an array-mode source m: the smallest of lg_max_k, the gadget's (when it is an array) and the source's
spec fn upd_lg(u0: &HllUnion, m: &Mode) -> u8 {
    if !mode_empty(&u0.gadget.mode) && u0.gadget.mode is Array8 { min8(mode_lg(m), u0.gadget.lg_config_k) } else { min8(mode_lg(m), u0.lg_max_k) }
}
// what HllUnion::update promises for a List/Set source: nothing absorbed so far is lost, every source coupon is absorbed, lg_k unchanged
spec fn sparse_update_post(u0: &HllUnion, s: &HllSketch, u1: &HllUnion) -> bool {
    let g0 = &u0.gadget.mode; let g1 = &u1.gadget.mode; let lg = u0.gadget.lg_config_k;
    let fast = mode_empty(g0) && s.lg_config_k == lg;     // empty gadget, same lg_k: the source is copied (as a Hll8 sketch)
    &&& u1.gadget.lg_config_k == lg
    &&& (fast ==> !mode_is_array(g1) && mode_coupons(g1) == mode_coupons(&s.mode))
    &&& (!fast ==> forall|c: u32| (absorbed(g0, lg, c) || mode_coupons(&s.mode).contains(c)) ==> #[trigger] absorbed(g1, lg, c))
    &&& (!fast && mode_is_array(g0) ==> mode_is_array(g1) && mode_ooo(g1) == mode_ooo(g0) && coupon_merge(mode_regs(g0), mode_coupons(&s.mode), lg, mode_regs(g1)))
    // a sparse gadget holds exactly the union of the two coupon sets, or (once promoted) exactly the registers of that union
    &&& (!fast && !mode_is_array(g0) && !mode_is_array(g1) ==> mode_coupons(g1) == mode_coupons(g0).union(mode_coupons(&s.mode)))
    &&& (!fast && !mode_is_array(g0) && mode_is_array(g1) ==> is_regs_of(mode_regs(g1), mode_coupons(g0).union(mode_coupons(&s.mode)), lg))
}

}
fn main(){}
