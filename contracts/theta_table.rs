#![feature(allocator_api)]
use vstd::prelude::*;
use vstd::seq_lib::*;
use vstd::std_specs::cmp::*;
use vstd::iset::*;
use vstd::arithmetic::power2::*;
use vstd::arithmetic::div_mod::*;
use vstd::arithmetic::mul::*;
use std::hash::Hash;
verus! {
global size_of usize == 8;

// ================= probe.vx =================
// odd s, 2^n | d*s  ==>  2^n | d
proof fn lemma_odd_cancel(n: nat, s: int, d: int)
  requires s % 2 == 1, (d * s) % (pow2(n) as int) == 0
  ensures d % (pow2(n) as int) == 0
  decreases n
{
    lemma_pow2_pos(n);
    if n == 0 {
        lemma2_to64();
    } else {
        let p = pow2(n) as int;
        let q = pow2((n - 1) as nat) as int;
        lemma_pow2_pos((n - 1) as nat);
        assert(p == 2 * q) by { lemma_pow2_unfold(n); }
        let m = (d * s) / p;
        assert(d * s == p * m) by { lemma_fundamental_div_mod(d * s, p); }
        assert((d * s) % 2 == 0) by {
            assert(d * s == 2 * (q * m)) by (nonlinear_arith) requires d * s == p * m, p == 2 * q;
        }
        if d % 2 != 0 {
            let a = d / 2; let b = s / 2;
            assert(d * s == 2 * (2 * a * b + a + b) + 1) by (nonlinear_arith) requires d == 2 * a + 1, s == 2 * b + 1;
            assert(false);
        }
        let d2 = d / 2;
        assert((d2 * s) % q == 0) by {
            assert(2 * (d2 * s) == 2 * (q * m)) by (nonlinear_arith) requires d == 2 * d2, d * s == p * m, p == 2 * q;
            lemma_mod_multiples_basic(m, q);
            assert(q * m == m * q) by (nonlinear_arith);
        }
        lemma_odd_cancel((n - 1) as nat, s, d2);
        let t = d2 / q;
        assert(d2 == q * t) by { lemma_fundamental_div_mod(d2, q); }
        assert(d == p * t) by (nonlinear_arith) requires d == 2 * d2, d2 == q * t, p == 2 * q;
        lemma_mod_multiples_basic(t, p);
        assert(p * t == t * p) by (nonlinear_arith);
    }
}

spec fn probe_at(p0: int, s: int, j: int, size: int) -> int { (p0 + j * s) % size }

// the probe sequence is injective on [0, 2^n)
proof fn lemma_probe_injective(n: nat, p0: int, s: int, j1: int, j2: int)
  requires s % 2 == 1, 0 <= j1 < pow2(n), 0 <= j2 < pow2(n),
           probe_at(p0, s, j1, pow2(n) as int) == probe_at(p0, s, j2, pow2(n) as int)
  ensures j1 == j2
{
    let size = pow2(n) as int;
    lemma_pow2_pos(n);
    // (p0 + j1 s) - (p0 + j2 s) = (j1 - j2) s  is a multiple of size
    let a = p0 + j1 * s; let b = p0 + j2 * s;
    lemma_fundamental_div_mod(a, size);
    lemma_fundamental_div_mod(b, size);
    let d = j1 - j2;
    assert(a - b == d * s) by (nonlinear_arith) requires a == p0 + j1 * s, b == p0 + j2 * s, d == j1 - j2;
    let qa = a / size; let qb = b / size;
    assert(a - b == size * (qa - qb)) by (nonlinear_arith) requires a == size * qa + a % size, b == size * qb + b % size, a % size == b % size;
    lemma_mod_multiples_basic(qa - qb, size);
    assert(size * (qa - qb) == (qa - qb) * size) by (nonlinear_arith);
    assert((d * s) % size == 0);
    lemma_odd_cancel(n, s, d);
    // |d| < size and size | d  ==> d == 0
    lemma_fundamental_div_mod(d, size);
    let t = d / size;
    assert(d == size * t);
    assert(-size < d < size);
    if t == 0 { assert(size * t == 0) by (nonlinear_arith) requires t == 0; }
    if t >= 1 { assert(size * t >= size) by (nonlinear_arith) requires t >= 1, size > 0; }
    if t <= -1 { assert(size * t <= -size) by (nonlinear_arith) requires t <= -1, size > 0; }
}

// one step of the exec probe: (probe + stride) & mask  ==  probe_at(.., j+1)
proof fn lemma_probe_step(p0: int, s: int, j: int, size: int, cur: int)
  requires size > 0, cur == probe_at(p0, s, j, size)
  ensures (cur + s) % size == probe_at(p0, s, j + 1, size)
{
    let a = p0 + j * s;
    assert(p0 + (j + 1) * s == a + s) by (nonlinear_arith) requires a == p0 + j * s;
    lemma_add_mod_noop(a, s, size);
    lemma_add_mod_noop(a % size, s, size);
    lemma_mod_twice(a, size);
}

// pigeonhole: j distinct probe positions, all of them "occupied", and fewer than `size` occupied slots
// We keep a ghost set of visited positions.
proof fn lemma_visited_bound(visited: Set<int>, occupied: Set<int>, size: int)
  requires visited.subset_of(occupied)
  ensures visited.len() <= occupied.len()
{
    vstd::set_lib::lemma_len_subset(visited, occupied);
}


// ================= theta/hash_table.rs find_in_entries (real code + overlay) =================
const STRIDE_HASH_BITS : u8 = 7 ;



exec const STRIDE_MASK : u64 ensures STRIDE_MASK == 127 {
proof {
assert ( ( 1u64 << 7u64 ) - 1 == 127 ) by ( bit_vector ) ;
}
( 1 << STRIDE_HASH_BITS ) - 1 }




spec fn occ64(es: Seq<u64>) -> Set<int> { Set::range(0, es.len() as int).filter(|i: int| es[i] != 0) }

proof fn lemma_pow2_bound32(l: u8)
  requires l < 32
  ensures pow2(l as nat) <= 0x8000_0000, pow2(l as nat) >= 1
{
    lemma2_to64();
    lemma_pow2_pos(l as nat);
    if l < 31 { lemma_pow2_strictly_increases(l as nat, 31); }
}
// x & (2^n - 1) == x % 2^n   (vstd lemma, restated for a mask given as size-1)
proof fn lemma_mask_is_mod(x: usize, n: nat, size: usize)
  requires n < 32, size == pow2(n)
  ensures (x & ((size - 1) as usize)) == x % size
{
    vstd::bits::lemma_usize_low_bits_mask_is_mod(x, n);
    lemma_low_bits_mask_is_pow2_minus_1(n);
}
proof fn lemma_low_bits_mask_is_pow2_minus_1(n: nat)
  ensures vstd::bits::low_bits_mask(n) == pow2(n) - 1
  decreases n
{
    lemma2_to64();
    vstd::bits::lemma_low_bits_mask_values();
    if n > 0 {
        lemma_low_bits_mask_is_pow2_minus_1((n - 1) as nat);
        vstd::bits::lemma_low_bits_mask_unfold(n);
        lemma_pow2_unfold(n);
    }
}

// x >> l written as x / (1 << l) (bridge for behaviour-preserving rewrites of get_stride)
proof fn lemma_shr_div64(key: u64, l: u64)
  requires l < 64
  ensures (1u64 << l) > 0, key >> l == key / (1u64 << l)
{
    lemma2_to64();
    lemma_pow2_strictly_increases(l as nat, 64);
    lemma_pow2_pos(l as nat);
    vstd::bits::lemma_u64_shl_is_mul(1, l);
    vstd::bits::lemma_u64_shr_is_div(key, l);
}
spec fn stride_spec(key: u64, lg_size: u8) -> int { (2 * ((key >> (lg_size as u64)) & 127) + 1) as int }

fn get_stride ( key : u64 , lg_size : u8 ) -> ( r : usize ) requires lg_size < 64 ensures r == stride_spec ( key , lg_size ) , r % 2 == 1 , 1 <= r <= 255 {
proof {
let l = lg_size as u64 ;
assert ( l < 64 ==> ( ( key >> l ) & 127 ) <= 127 && ( key >> l ) & 127 == 127 & ( key >> l ) ) by ( bit_vector ) ;
assert ( ( key >> ( lg_size as u64 ) ) == ( key >> lg_size ) ) ;
lemma_shr_div64 ( key , l ) ;
assert ( ( 1u64 << ( lg_size as u64 ) ) == ( 1u64 << lg_size ) ) ;
}
( 2 * ( ( key >> ( lg_size ) ) & STRIDE_MASK ) + 1 ) as usize }




spec fn home(key: u64, len: int) -> int { ((key as usize) & ((len - 1) as usize)) as int }
// result spec: Some(i): first slot on key's probe path holding 0 or key;  None: a full cycle saw neither
spec fn path_clear(es: Seq<u64>, key: u64, p0: int, s: int, j: int) -> bool {
    forall|i: int| 0 <= i < j ==> es[#[trigger] probe_at(p0, s, i, es.len() as int)] != 0 && es[probe_at(p0, s, i, es.len() as int)] != key
}

fn find_in_entries ( entries : & [ u64 ] , key : u64 , lg_size : u8 ) -> ( r : Option < usize > ) requires lg_size < 32 , entries @ . len ( ) == 0 || entries @ . len ( ) == pow2 ( lg_size as nat ) ensures match r {
Some ( idx ) => idx < entries @ . len ( ) && ( entries @ [ idx as int ] == 0 || entries @ [ idx as int ] == key ) && exists | j : int | 0 <= j < entries @ . len ( ) && idx == probe_at ( home ( key , entries @ . len ( ) as int ) , stride_spec ( key , lg_size ) , j , entries @ . len ( ) as int ) && # [ trigger ] path_clear ( entries @ , key , home ( key , entries @ . len ( ) as int ) , stride_spec ( key , lg_size ) , j ) , None => entries @ . len ( ) == 0 || ( forall | i : int | 0 <= i < entries @ . len ( ) ==> entries @ [ i ] != 0 && entries @ [ i ] != key ) , }
{
if entries . is_empty ( ) {
return None ;
}
let size = entries . len ( ) ;
proof {
lemma_pow2_bound32 ( lg_size ) ;
}
let mask = size - 1 ;
let stride = get_stride ( key , lg_size ) ;
let mut index = ( key as usize ) & mask ;
let loop_index = index ;
let ghost n = lg_size as nat ;
let ghost sz = size as int ;
let ghost s = stride as int ;
let ghost p0 = index as int ;
let ghost mut j : int = 0 ;
let ghost mut visited : Set < int > = Set :: empty ( ) ;
proof {
lemma_mask_is_mod ( key as usize , lg_size as nat , size ) ;
assert ( p0 == home ( key , sz ) ) ;
assert ( p0 == probe_at ( p0 , s , 0 , sz ) ) by {
assert ( p0 + 0 * s == p0 ) by ( nonlinear_arith ) ;
lemma_small_mod ( p0 as nat , sz as nat ) ;
}
}
loop invariant sz == entries @ . len ( ) , sz == pow2 ( n ) , n == lg_size , lg_size < 32 , sz <= 0x8000_0000 , size == sz , mask == sz - 1 , s == stride , s == stride_spec ( key , lg_size ) , s % 2 == 1 , 1 <= s <= 255 , p0 == loop_index , 0 <= p0 < sz , p0 == home ( key , sz ) , 0 <= j < sz , index == probe_at ( p0 , s , j , sz ) , 0 <= index < sz , forall | p : int | visited . contains ( p ) <==> exists | i : int | 0 <= i < j && p == probe_at ( p0 , s , i , sz ) , visited . len ( ) == j , path_clear ( entries @ , key , p0 , s , j ) , decreases sz - j {
let probe = entries [ index ] ;
if probe == 0 || probe == key {
proof {
assert ( path_clear ( entries @ , key , home ( key , sz ) , stride_spec ( key , lg_size ) , j ) ) ;
}
return Some ( index ) ;
}
proof {
let cur = index as int ;
lemma_probe_step ( p0 , s , j , sz , cur ) ;
lemma_mask_is_mod ( ( index + stride ) as usize , n , size ) ;
assert ( ! visited . contains ( cur ) ) by {
if visited . contains ( cur ) {
let i = choose | i : int | 0 <= i < j && cur == probe_at ( p0 , s , i , sz ) ;
lemma_probe_injective ( n , p0 , s , i , j ) ;
}
}
let v2 = visited . insert ( cur ) ;
assert forall | p : int | v2 . contains ( p ) <==> exists | i : int | 0 <= i < j + 1 && p == probe_at ( p0 , s , i , sz ) by {
if v2 . contains ( p ) {
if p == cur {
assert ( p == probe_at ( p0 , s , j , sz ) ) ;
}
else {
let i = choose | i : int | 0 <= i < j && p == probe_at ( p0 , s , i , sz ) ;
assert ( 0 <= i < j + 1 ) ;
}
}
if exists | i : int | 0 <= i < j + 1 && p == probe_at ( p0 , s , i , sz ) {
let i = choose | i : int | 0 <= i < j + 1 && p == probe_at ( p0 , s , i , sz ) ;
if i < j {
assert ( visited . contains ( p ) ) ;
}
}
}
visited = v2 ;
assert ( path_clear ( entries @ , key , p0 , s , j + 1 ) ) ;
}
index = ( index + stride ) & mask ;
proof {
assert ( index as int == probe_at ( p0 , s , j + 1 , sz ) ) ;
let all = Set :: range ( 0 , sz ) ;
assert ( visited . subset_of ( all ) ) ;
assert ( all . len ( ) == sz ) by {
vstd :: set_lib :: lemma_int_range ( 0 , sz ) ;
}
vstd :: set_lib :: lemma_len_subset ( visited , all ) ;
if j + 1 == sz {
assert ( ( p0 + sz * s ) % sz == p0 ) by {
lemma_mod_multiples_vanish ( s , p0 , sz ) ;
assert ( sz * s == s * sz ) by ( nonlinear_arith ) ;
lemma_small_mod ( p0 as nat , sz as nat ) ;
}
}
}
if index == loop_index {
proof {
assert ( probe_at ( p0 , s , 0 , sz ) == p0 ) by {
assert ( p0 + 0 * s == p0 ) by ( nonlinear_arith ) ;
lemma_small_mod ( p0 as nat , sz as nat ) ;
}
if j + 1 < sz {
lemma_probe_injective ( n , p0 , s , 0 , j + 1 ) ;
}
assert ( j + 1 == sz ) ;
let all = Set :: range ( 0 , sz ) ;
assert ( visited . subset_of ( all ) ) ;
assert ( all . len ( ) == sz ) by {
vstd :: set_lib :: lemma_int_range ( 0 , sz ) ;
}
vstd :: set_lib :: lemma_subset_equality ( visited , all ) ;
assert forall | i : int | 0 <= i < sz implies entries @ [ i ] != 0 && entries @ [ i ] != key by {
assert ( visited . contains ( i ) ) ;
let t = choose | t : int | 0 <= t < j + 1 && i == probe_at ( p0 , s , t , sz ) ;
}
}
return None ;
}
proof {
j = j + 1 ;
}
}
}




pub assume_specification<T: Ord> [ core::cmp::min::<T> ] (a: T, b: T) -> (r: T)
  ensures T::obeys_cmp_spec() ==> (r == (if a.cmp_spec(&b) == core::cmp::Ordering::Greater { b } else { a }));
// ================= table-level specs =================
spec fn zero_free(es: Seq<u64>, key: u64, n: u8, j: int) -> bool {
    forall|t: int| 0 <= t < j ==> es[#[trigger] probe_at(home(key, es.len() as int), stride_spec(key, n), t, es.len() as int)] != 0
}
spec fn no_dup(es: Seq<u64>) -> bool {
    forall|i: int, j: int| 0 <= i < es.len() && 0 <= j < es.len() && i != j && es[i] != 0 ==> es[i] != es[j]
}
spec fn reach_at(es: Seq<u64>, n: u8, i: int) -> bool {
    exists|j: int| 0 <= j < es.len() && i == probe_at(home(es[i], es.len() as int), stride_spec(es[i], n), j, es.len() as int) && #[trigger] zero_free(es, es[i], n, j)
}
spec fn reach(es: Seq<u64>, n: u8) -> bool {
    forall|i: int| 0 <= i < es.len() && es[i] != 0 ==> #[trigger] reach_at(es, n, i)
}
spec fn tbl_ok(es: Seq<u64>, n: u8) -> bool {
    n < 32 && es.len() == pow2(n as nat) && no_dup(es) && reach(es, n)
}
spec fn holds(es: Seq<u64>, key: u64) -> bool { exists|i: int| 0 <= i < es.len() && es[i] == key }

proof fn lemma_home_in_range(key: u64, n: u8, len: int)
  requires n < 32, len == pow2(n as nat)
  ensures 0 <= home(key, len) < len
{
    lemma_pow2_bound32(n);
    lemma_mask_is_mod(key as usize, n as nat, len as usize);
}

// a key already stored is what find returns (never an earlier empty slot)
proof fn lemma_find_hits_existing(es: Seq<u64>, n: u8, key: u64, idx: int, j: int)
  requires tbl_ok(es, n), key != 0, holds(es, key),
    0 <= idx < es.len(), es[idx] == 0 || es[idx] == key,
    0 <= j < es.len(), idx == probe_at(home(key, es.len() as int), stride_spec(key, n), j, es.len() as int),
    path_clear(es, key, home(key, es.len() as int), stride_spec(key, n), j),
  ensures es[idx] == key
{
    if es[idx] == 0 {
        let i0 = choose|i: int| 0 <= i < es.len() && es[i] == key;
        assert(reach_at(es, n, i0));
        let len = es.len() as int;
        let j0 = choose|j0: int| 0 <= j0 < es.len() && i0 == probe_at(home(es[i0], len), stride_spec(es[i0], n), j0, len) && zero_free(es, es[i0], n, j0);
        if j0 < j {
            // key sits on the path before j: contradicts path_clear
            assert(es[probe_at(home(key, len), stride_spec(key, n), j0, len)] != key);
        } else if j0 > j {
            // the empty slot idx sits before j0: contradicts zero_free
            assert(es[probe_at(home(key, len), stride_spec(key, n), j, len)] != 0);
        } else {
            assert(idx == i0);
        }
    }
}

// putting a fresh key into the first empty slot of its path keeps the table well formed
proof fn lemma_insert_ok(es: Seq<u64>, n: u8, key: u64, idx: int, j: int)
  requires tbl_ok(es, n), key != 0, !holds(es, key),
    0 <= idx < es.len(), es[idx] == 0,
    0 <= j < es.len(), idx == probe_at(home(key, es.len() as int), stride_spec(key, n), j, es.len() as int),
    path_clear(es, key, home(key, es.len() as int), stride_spec(key, n), j),
  ensures tbl_ok(es.update(idx, key), n)
{
    let ns = es.update(idx, key);
    let len = es.len() as int;
    assert(no_dup(ns)) by {
        assert forall|a: int, b: int| 0 <= a < ns.len() && 0 <= b < ns.len() && a != b && ns[a] != 0 implies ns[a] != ns[b] by {
            if a == idx { assert(es[b] != key) by { if es[b] == key { assert(holds(es, key)); } } }
            else if b == idx { assert(es[a] != key) by { if es[a] == key { assert(holds(es, key)); } } }
            else { }
        }
    }
    assert(reach(ns, n)) by {
        assert forall|i: int| 0 <= i < ns.len() && ns[i] != 0 implies #[trigger] reach_at(ns, n, i) by {
            if i == idx {
                assert(zero_free(ns, key, n, j)) by {
                    assert forall|t: int| 0 <= t < j implies ns[#[trigger] probe_at(home(key, len), stride_spec(key, n), t, len)] != 0 by {
                        let p = probe_at(home(key, len), stride_spec(key, n), t, len);
                        assert(es[p] != 0);
                    }
                }
                assert(ns[i] == key);
            } else {
                assert(reach_at(es, n, i));
                let ji = choose|ji: int| 0 <= ji < es.len() && i == probe_at(home(es[i], len), stride_spec(es[i], n), ji, len) && zero_free(es, es[i], n, ji);
                assert(zero_free(ns, ns[i], n, ji)) by {
                    assert forall|t: int| 0 <= t < ji implies ns[#[trigger] probe_at(home(ns[i], len), stride_spec(ns[i], n), t, len)] != 0 by {
                        let p = probe_at(home(es[i], len), stride_spec(es[i], n), t, len);
                        assert(es[p] != 0);
                        lemma_probe_in_range(home(es[i], len), stride_spec(es[i], n), t, len);
                    }
                }
            }
        }
    }
}
proof fn lemma_probe_in_range(p0: int, s: int, t: int, len: int)
  requires len > 0
  ensures 0 <= probe_at(p0, s, t, len) < len
{
    lemma_mod_bound(p0 + t * s, len);
}


// ================= constants, opaque leaves, initial size =================
const MAX_THETA : u64 = i64 :: MAX as u64 ;



const MIN_LG_K : u8 = 5 ;



// initial theta for a sampling probability: float code, by contract (KX leaf); NOTE: nothing says r > 0 for p in (0,1]: p = 1e-20 gives 0
uninterp spec fn theta0_spec(p: f32) -> u64;
#[verifier::external_body]
fn starting_theta_from_sampling_probability(sampling_probability: f32) -> (r: u64)
  ensures r == theta0_spec(sampling_probability), r <= MAX_THETA
{ unimplemented!() }

// hash/mod.rs compute_seed_hash: a hash leaf (C16); it asserts the result is non-zero
uninterp spec fn seed_hash_spec(seed: u64) -> u16;
#[verifier::external_body]
fn compute_seed_hash(seed: u64) -> (r: u16)
  ensures r == seed_hash_spec(seed)
{ unimplemented!() }

// the generic hashing (MurmurHash3X64128 over T: Hash) is a leaf of C16; only the screening tail is verified here
uninterp spec fn hash_spec<T>(seed: u64, v: T) -> u64;
#[verifier::external_body]
fn vx_hash128<T: Hash>(seed: u64, value: T) -> (r: (u64, u64))
  ensures r.0 == hash_spec(seed, value)
{ unimplemented!() /* let mut hasher = MurmurHash3X64128::with_seed(seed); value.hash(&mut hasher); hasher.finish128() */ }

pub assume_specification<T: Clone> [ <[T]>::fill ] (s: &mut [T], value: T)
  ensures final(s)@.len() == old(s)@.len(), forall|i: int| 0 <= i < final(s)@.len() ==> cloned(value, #[trigger] final(s)@[i]);

spec fn ssm_spec(lg_target: u8, lg_min: u8, lg_rf: u8) -> u8 {
    if lg_target <= lg_min { lg_min } else if lg_rf == 0 { lg_target } else { (((lg_target - lg_min) % (lg_rf as int)) + lg_min) as u8 }
}
fn starting_sub_multiple ( lg_target : u8 , lg_min : u8 , lg_resize_factor : u8 ) -> ( r : u8 ) ensures r == ssm_spec ( lg_target , lg_min , lg_resize_factor ) ,
/*@C04.start_size*/ r >= lg_min && ( lg_target > lg_min ==> r <= lg_target && ( lg_resize_factor == 0 ==> r == lg_target ) && ( lg_resize_factor > 0 ==> r < lg_min + lg_resize_factor && ( lg_target - r ) % ( lg_resize_factor as int ) == 0 ) ) , {
if lg_target <= lg_min {
lg_min }
else if lg_resize_factor == 0 {
lg_target }
else {
proof {
let d = ( lg_target - lg_min ) as int ;
let f = lg_resize_factor as int ;
lemma_fundamental_div_mod ( d , f ) ;
lemma_mod_bound ( d , f ) ;
lemma_mod_multiples_basic ( d / f , f ) ;
assert ( f * ( d / f ) == ( d / f ) * f ) by ( nonlinear_arith ) ;
}
( ( lg_target - lg_min ) % lg_resize_factor ) + lg_min }
}


spec fn init_lg(lg_nom: u8, rf: ResizeFactor) -> u8 { ssm_spec((lg_nom + 1) as u8, 5, rf.lg()) }
spec fn same_config(a: ThetaHashTable, b: ThetaHashTable) -> bool {
    a.lg_nom_size == b.lg_nom_size && a.lg_max_size == b.lg_max_size && a.resize_factor == b.resize_factor
    && a.sampling_probability == b.sampling_probability && a.hash_seed == b.hash_seed
}
// 15/16 of 2k
spec fn max_load(lg_nom: u8) -> int { pow2((lg_nom + 1) as nat) as int * 15 / 16 }
proof fn lemma_cap_le_max_load(lg_cur: u8, lg_nom: u8)
  requires 5 <= lg_cur <= lg_nom + 1, lg_nom + 1 <= 27
  ensures cap_spec(lg_cur, lg_nom) <= max_load(lg_nom), pow2(lg_nom as nat) <= max_load(lg_nom),
          lg_cur <= lg_nom ==> cap_spec(lg_cur, lg_nom) < pow2(lg_nom as nat)
{
    lemma2_to64();
    lemma_pow2_pos(lg_cur as nat);
    lemma_pow2_unfold((lg_nom + 1) as nat);
    lemma_pow2_strictly_increases(3, lg_nom as nat);
    if lg_cur <= lg_nom {
        if lg_cur < lg_nom { lemma_pow2_strictly_increases(lg_cur as nat, lg_nom as nat); }
    }
}
proof fn lemma_occ_zero(es: Seq<u64>)
  ensures occ64(es).len() == 0 <==> (forall|i: int| 0 <= i < es.len() ==> es[i] == 0)
{
    vstd::set_lib::lemma_int_range(0, es.len() as int);
    let all = Set::range(0, es.len() as int);
    assert(occ64(es).subset_of(all));
    vstd::set_lib::lemma_len_subset(occ64(es), all);
    if occ64(es).len() == 0 {
        assert forall|i: int| 0 <= i < es.len() implies es[i] == 0 by {
            if es[i] != 0 { assert(occ64(es).contains(i)); assert(occ64(es) =~= Set::<int>::empty()); }
        }
    }
    if forall|i: int| 0 <= i < es.len() ==> es[i] == 0 {
        assert(occ64(es) =~= Set::<int>::empty());
    }
}

// ================= ThetaHashTable::try_insert (real body + overlay) =================
struct ThetaHashTable {
lg_cur_size : u8 , lg_nom_size : u8 , lg_max_size : u8 , resize_factor : ResizeFactor , sampling_probability : f32 , hash_seed : u64 , theta : u64 , entries : Vec < u64 > , num_entries : usize , }



#[derive(Clone, Copy)]
enum ResizeFactor { X1, X2, X4, X8 }
impl ResizeFactor {
    fn lg_value ( self ) -> ( r : u8 ) ensures r == self . lg ( ) {
match self {
ResizeFactor :: X1 => 0 , ResizeFactor :: X2 => 1 , ResizeFactor :: X4 => 2 , ResizeFactor :: X8 => 3 , }
}


    spec fn lg(self) -> u8 { match self { ResizeFactor::X1 => 0u8, ResizeFactor::X2 => 1u8, ResizeFactor::X4 => 2u8, ResizeFactor::X8 => 3u8 } }
}
spec fn vals(es: Seq<u64>) -> ISet<u64> { ISet::new(|c: u64| c != 0 && holds(es, c)) }
spec fn cap_spec(lg_cur: u8, lg_nom: u8) -> int {
    if lg_cur <= lg_nom { pow2(lg_cur as nat) as int / 2 } else { pow2(lg_cur as nat) as int * 15 / 16 }
}
impl ThetaHashTable {
    spec fn wf(&self) -> bool {
        &&& 5 <= self.lg_cur_size <= self.lg_max_size
        &&& self.lg_max_size == self.lg_nom_size + 1
        &&& self.lg_max_size <= 27
        &&& tbl_ok(self.entries@, self.lg_cur_size)
        &&& self.num_entries == occ64(self.entries@).len()
        &&& self.num_entries <= cap_spec(self.lg_cur_size, self.lg_nom_size)
        &&& forall|i: int| 0 <= i < self.entries@.len() ==> self.entries@[i] < self.theta || self.entries@[i] == 0
        &&& (self.lg_cur_size <= self.lg_nom_size ==> self.resize_factor.lg() > 0)
        &&& self.theta <= MAX_THETA
    }
    // like wf but possibly one over capacity (state between the store and the resize/rebuild)
    spec fn wf_over(&self) -> bool {
        &&& 5 <= self.lg_cur_size <= self.lg_max_size
        &&& self.lg_max_size == self.lg_nom_size + 1
        &&& self.lg_max_size <= 27
        &&& tbl_ok(self.entries@, self.lg_cur_size)
        &&& self.num_entries == occ64(self.entries@).len()
        &&& self.num_entries == cap_spec(self.lg_cur_size, self.lg_nom_size) + 1
        &&& forall|i: int| 0 <= i < self.entries@.len() ==> self.entries@[i] < self.theta || self.entries@[i] == 0
        &&& (self.lg_cur_size <= self.lg_nom_size ==> self.resize_factor.lg() > 0)
        &&& self.theta <= MAX_THETA
    }

    // state accepted by rebuild: more than k entries (trim), at most one over capacity (try_insert)
    spec fn wf_big(&self) -> bool {
        &&& 5 <= self.lg_cur_size <= self.lg_max_size
        &&& self.lg_max_size == self.lg_nom_size + 1
        &&& self.lg_max_size <= 27
        &&& tbl_ok(self.entries@, self.lg_cur_size)
        &&& self.num_entries == occ64(self.entries@).len()
        &&& pow2(self.lg_nom_size as nat) < self.num_entries <= cap_spec(self.lg_cur_size, self.lg_nom_size) + 1
        &&& forall|i: int| 0 <= i < self.entries@.len() ==> self.entries@[i] < self.theta || self.entries@[i] == 0
        &&& (self.lg_cur_size <= self.lg_nom_size ==> self.resize_factor.lg() > 0)
        &&& self.theta <= MAX_THETA
    }
    // the state `new` builds and `reset` restores
    spec fn is_initial(&self) -> bool {
        &&& self.lg_cur_size == init_lg(self.lg_nom_size, self.resize_factor)
        &&& self.lg_max_size == self.lg_nom_size + 1
        &&& self.entries@.len() == pow2(self.lg_cur_size as nat)
        &&& (forall|i: int| 0 <= i < self.entries@.len() ==> self.entries@[i] == 0)
        &&& self.num_entries == 0
        &&& self.theta == theta0_spec(self.sampling_probability)
    }

    fn find_in_curr_entries ( & self , key : u64 ) -> ( r : Option < usize > ) requires self . lg_cur_size < 32 , self . entries @ . len ( ) == pow2 ( self . lg_cur_size as nat ) ensures match r {
Some ( idx ) => idx < self . entries @ . len ( ) && ( self . entries @ [ idx as int ] == 0 || self . entries @ [ idx as int ] == key ) && exists | j : int | 0 <= j < self . entries @ . len ( ) && idx == probe_at ( home ( key , self . entries @ . len ( ) as int ) , stride_spec ( key , self . lg_cur_size ) , j , self . entries @ . len ( ) as int ) && # [ trigger ] path_clear ( self . entries @ , key , home ( key , self . entries @ . len ( ) as int ) , stride_spec ( key , self . lg_cur_size ) , j ) , None => self . entries @ . len ( ) == 0 || ( forall | i : int | 0 <= i < self . entries @ . len ( ) ==> self . entries @ [ i ] != 0 && self . entries @ [ i ] != key ) , }
{
find_in_entries ( & self . entries , key , self . lg_cur_size ) }




    #[verifier::external_body]
    fn get_capacity(&self) -> (r: usize)
      ensures r == cap_spec(self.lg_cur_size, self.lg_nom_size)
    { unimplemented!() }

    fn resize ( & mut self ) requires old ( self ) . wf_over ( ) , old ( self ) . lg_cur_size <= old ( self ) . lg_nom_size ensures final ( self ) . wf ( ) ,
/*@C04.resize.set*/ vals ( final ( self ) . entries @ ) == vals ( old ( self ) . entries @ ) ,
/*@C04.resize.theta*/ final ( self ) . theta == old ( self ) . theta , same_config ( * final ( self ) , * old ( self ) ) , final ( self ) . num_entries == old ( self ) . num_entries {
let new_lg_size = std :: cmp :: min ( self . lg_cur_size + self . resize_factor . lg_value ( ) , self . lg_max_size , ) ;
proof {
lemma_pow2_bound32 ( new_lg_size ) ;
lemma_shl_usize ( new_lg_size ) ;
}
let new_size = 1 << new_lg_size ;
let mut new_entries = vec! [ 0u64 ;
new_size ] ;
let ghost es = self . entries @ ;
proof {
lemma_empty_table_ok ( new_entries @ , new_lg_size ) ;
lemma_cap_lt_len ( self . lg_cur_size , self . lg_nom_size ) ;
lemma_resize_room ( self . lg_cur_size , new_lg_size , self . lg_nom_size ) ;
assert ( occ64 ( es . take ( 0 ) ) =~= Set :: < int > :: empty ( ) ) ;
}
let mut vx_i1 = 0 ;
while vx_i1 < self . entries . len ( ) invariant vx_i1 <= self . entries @ . len ( ) , self . entries @ == es , es == old ( self ) . entries @ , old ( self ) . wf_over ( ) , new_lg_size < 32 , new_lg_size > old ( self ) . lg_cur_size , tbl_ok ( new_entries @ , new_lg_size ) , forall | c : u64 | vals ( new_entries @ ) . contains ( c ) <==> ( c != 0 && exists | t : int | 0 <= t < vx_i1 && es [ t ] == c ) , occ64 ( new_entries @ ) . len ( ) == occ64 ( es . take ( vx_i1 as int ) ) . len ( ) , old ( self ) . num_entries < new_entries @ . len ( ) , self . lg_cur_size == old ( self ) . lg_cur_size , self . lg_nom_size == old ( self ) . lg_nom_size , self . lg_max_size == old ( self ) . lg_max_size , self . theta == old ( self ) . theta , self . num_entries == old ( self ) . num_entries , self . resize_factor == old ( self ) . resize_factor , decreases self . entries @ . len ( ) - vx_i1 {
let entry = self . entries [ vx_i1 ] ;
proof {
lemma_occ_take_step ( es , ( vx_i1 + 1 ) as int - 1 ) ;
}
if entry != 0 {
proof {
lemma_occ_take_le ( es , ( vx_i1 + 1 ) as int - 1 ) ;
}
let new_index = find_in_entries ( & new_entries , entry , new_lg_size ) ;
if let Some ( idx ) = new_index {
let ghost ne0 = new_entries @ ;
let ghost nlen = ne0 . len ( ) as int ;
let ghost jw = choose | j : int | 0 <= j < nlen && idx == probe_at ( home ( entry , nlen ) , stride_spec ( entry , new_lg_size ) , j , nlen ) && path_clear ( ne0 , entry , home ( entry , nlen ) , stride_spec ( entry , new_lg_size ) , j ) ;
proof {
if holds ( ne0 , entry ) {
assert ( vals ( ne0 ) . contains ( entry ) ) ;
let t = choose | t : int | 0 <= t < ( vx_i1 + 1 ) - 1 && es [ t ] == entry ;
assert ( no_dup ( es ) ) ;
assert ( false ) ;
}
assert ( ne0 [ idx as int ] == 0 ) by {
if ne0 [ idx as int ] == entry {
assert ( holds ( ne0 , entry ) ) ;
}
}
lemma_insert_ok ( ne0 , new_lg_size , entry , idx as int , jw ) ;
}
new_entries [ idx ] = entry ;
proof {
let ne1 = new_entries @ ;
assert ( ne1 =~= ne0 . update ( idx as int , entry ) ) ;
assert ( occ64 ( ne1 ) =~= occ64 ( ne0 ) . insert ( idx as int ) ) ;
assert ( ! occ64 ( ne0 ) . contains ( idx as int ) ) ;
assert forall | c : u64 | vals ( ne1 ) . contains ( c ) <==> ( c != 0 && exists | t : int | 0 <= t < ( vx_i1 + 1 ) && es [ t ] == c ) by {
if c == entry {
assert ( ne1 [ idx as int ] == entry ) ;
assert ( holds ( ne1 , entry ) ) ;
assert ( es [ ( vx_i1 + 1 ) as int - 1 ] == c ) ;
}
else {
if vals ( ne1 ) . contains ( c ) {
let i = choose | i : int | 0 <= i < ne1 . len ( ) && ne1 [ i ] == c ;
assert ( ne0 [ i ] == c ) ;
assert ( holds ( ne0 , c ) ) ;
assert ( vals ( ne0 ) . contains ( c ) ) ;
let t = choose | t : int | 0 <= t < ( vx_i1 + 1 ) - 1 && es [ t ] == c ;
assert ( 0 <= t < ( vx_i1 + 1 ) ) ;
}
if c != 0 && exists | t : int | 0 <= t < ( vx_i1 + 1 ) && es [ t ] == c {
let t = choose | t : int | 0 <= t < ( vx_i1 + 1 ) && es [ t ] == c ;
assert ( t < ( vx_i1 + 1 ) - 1 ) ;
assert ( vals ( ne0 ) . contains ( c ) ) ;
let i = choose | i : int | 0 <= i < ne0 . len ( ) && ne0 [ i ] == c ;
assert ( i != idx ) ;
assert ( ne1 [ i ] == c ) ;
assert ( holds ( ne1 , c ) ) ;
}
}
}
}
}
else {
proof {
lemma_occ_full ( new_entries @ ) ;
}
unreachable! ( ) ;
}
}
else {
proof {
assert forall | c : u64 | vals ( new_entries @ ) . contains ( c ) <==> ( c != 0 && exists | t : int | 0 <= t < ( vx_i1 + 1 ) && es [ t ] == c ) by {
if c != 0 && exists | t : int | 0 <= t < ( vx_i1 + 1 ) && es [ t ] == c {
let t = choose | t : int | 0 <= t < ( vx_i1 + 1 ) && es [ t ] == c ;
assert ( t < ( vx_i1 + 1 ) - 1 ) ;
}
}
}
}
vx_i1 += 1 ;
}
self . entries = new_entries ;
self . lg_cur_size = new_lg_size ;
proof {
assert ( es . take ( es . len ( ) as int ) =~= es ) ;
assert ( vals ( self . entries @ ) =~= vals ( es ) ) by {
assert forall | c : u64 | vals ( self . entries @ ) . contains ( c ) <==> vals ( es ) . contains ( c ) by {
if vals ( es ) . contains ( c ) {
let i = choose | i : int | 0 <= i < es . len ( ) && es [ i ] == c ;
}
if vals ( self . entries @ ) . contains ( c ) {
let t = choose | t : int | 0 <= t < es . len ( ) && es [ t ] == c ;
assert ( holds ( es , c ) ) ;
}
}
}
assert forall | i : int | 0 <= i < self . entries @ . len ( ) implies self . entries @ [ i ] < self . theta || self . entries @ [ i ] == 0 by {
let c = self . entries @ [ i ] ;
if c != 0 {
assert ( holds ( self . entries @ , c ) ) ;
assert ( vals ( self . entries @ ) . contains ( c ) ) ;
let t = choose | t : int | 0 <= t < es . len ( ) && es [ t ] == c ;
}
}
lemma_resize_cap ( old ( self ) . lg_cur_size , new_lg_size , self . lg_nom_size ) ;
}
}




    fn rebuild ( & mut self ) requires old ( self ) . wf_big ( ) , old ( self ) . lg_cur_size > old ( self ) . lg_nom_size ensures final ( self ) . wf ( ) ,
/*@C04.rebuild.theta*/ 0 < final ( self ) . theta < old ( self ) . theta , same_config ( * final ( self ) , * old ( self ) ) ,
/*@C04.rebuild.smallest*/ vals ( final ( self ) . entries @ ) == vals ( old ( self ) . entries @ ) . filter ( | c : u64 | c < final ( self ) . theta ) ,
/*@C04.rebuild.count*/ final ( self ) . num_entries == pow2 ( final ( self ) . lg_nom_size as nat ) {
let ghost es = self . entries @ ;
vx_retain_nonzero ( & mut self . entries ) ;
let ghost cs = self . entries @ ;
proof {
lemma_pow2_bound32 ( self . lg_nom_size ) ;
lemma_shl_u64 ( self . lg_nom_size ) ;
lemma_pow2_bound32 ( self . lg_cur_size ) ;
lemma_shl_usize ( self . lg_cur_size ) ;
lemma_filter_facts ( es ) ;
lemma_filter_len_occ ( es ) ;
lemma_rebuild_counts ( self . lg_cur_size , self . lg_nom_size ) ;
}
let k = 1u64 << self . lg_nom_size ;
let ( lesser , kth , _ ) = self . entries . select_nth_unstable ( k as usize ) ;
self . theta = * kth ;
let ghost lz = lesser @ ;
let ghost kv = * kth ;
proof {
assert ( exists | gz : Seq < u64 > | # [ trigger ] ( lz . push ( kv ) + gz ) . to_multiset ( ) == cs . to_multiset ( ) && ( forall | i : int | 0 <= i < gz . len ( ) ==> # [ trigger ] OrdSpec :: cmp_spec ( & kv , & gz [ i ] ) != core :: cmp :: Ordering :: Greater ) ) ;
assert ( exists | gz : Seq < u64 > | # [ trigger ] ( lz . push ( kv ) + gz ) . to_multiset ( ) == cs . to_multiset ( ) && ( forall | i : int | 0 <= i < gz . len ( ) ==> kv <= gz [ i ] ) ) by {
let g = choose | gz : Seq < u64 > | # [ trigger ] ( lz . push ( kv ) + gz ) . to_multiset ( ) == cs . to_multiset ( ) && ( forall | i : int | 0 <= i < gz . len ( ) ==> # [ trigger ] OrdSpec :: cmp_spec ( & kv , & gz [ i ] ) != core :: cmp :: Ordering :: Greater ) ;
assert forall | i : int | 0 <= i < g . len ( ) implies kv <= g [ i ] by {
assert ( OrdSpec :: cmp_spec ( & kv , & g [ i ] ) != core :: cmp :: Ordering :: Greater ) ;
}
}
let gz = choose | gz : Seq < u64 > | # [ trigger ] ( lz . push ( kv ) + gz ) . to_multiset ( ) == cs . to_multiset ( ) && ( forall | i : int | 0 <= i < gz . len ( ) ==> kv <= gz [ i ] ) ;
assert forall | i : int | 0 <= i < lz . len ( ) implies lz [ i ] <= kv by {
assert ( OrdSpec :: cmp_spec ( & lz [ i ] , & kv ) != core :: cmp :: Ordering :: Greater ) ;
}
lemma_select_meaning ( cs , lz , kv , gz ) ;
assert forall | a : int | 0 <= a < lz . len ( ) implies lz [ a ] != 0 by {
assert ( cs . contains ( lz [ a ] ) ) ;
let q = choose | q : int | 0 <= q < cs . len ( ) && cs [ q ] == lz [ a ] ;
}
assert ( holds ( es , kv ) && kv != 0 ) by {
let q = choose | q : int | 0 <= q < cs . len ( ) && cs [ q ] == kv ;
}
assert ( kv < old ( self ) . theta ) by {
let q = choose | q : int | 0 <= q < es . len ( ) && es [ q ] == kv ;
}
}
let size = 1 << self . lg_cur_size ;
let mut new_entries = vec! [ 0u64 ;
size ] ;
let mut num_inserted = 0 ;
proof {
lemma_empty_table_ok ( new_entries @ , self . lg_cur_size ) ;
assert ( occ64 ( new_entries @ ) . len ( ) == 0 ) ;
}
let mut vx_i1 = 0 ;
while vx_i1 < lesser . len ( ) invariant vx_i1 <= lz . len ( ) , lesser @ == lz , lz . len ( ) == k , k == pow2 ( self . lg_nom_size as nat ) , k < new_entries @ . len ( ) , self . lg_cur_size == old ( self ) . lg_cur_size , self . lg_cur_size < 32 , same_config ( * self , * old ( self ) ) , self . resize_factor == old ( self ) . resize_factor , forall | a : int | 0 <= a < lz . len ( ) ==> lz [ a ] != 0 , forall | a : int , b : int | 0 <= a < lz . len ( ) && 0 <= b < lz . len ( ) && a != b ==> lz [ a ] != lz [ b ] , tbl_ok ( new_entries @ , self . lg_cur_size ) , forall | c : u64 | vals ( new_entries @ ) . contains ( c ) <==> ( exists | t : int | 0 <= t < vx_i1 && lz [ t ] == c ) , occ64 ( new_entries @ ) . len ( ) == vx_i1 , num_inserted == vx_i1 , decreases lz . len ( ) - vx_i1 {
let entry = & lesser [ vx_i1 ] ;
if let Some ( idx ) = find_in_entries ( & new_entries , * entry , self . lg_cur_size ) {
let ghost ne0 = new_entries @ ;
let ghost nlen = ne0 . len ( ) as int ;
let ghost g_e = * entry ;
let ghost jw = choose | j : int | 0 <= j < nlen && idx == probe_at ( home ( g_e , nlen ) , stride_spec ( g_e , self . lg_cur_size ) , j , nlen ) && path_clear ( ne0 , g_e , home ( g_e , nlen ) , stride_spec ( g_e , self . lg_cur_size ) , j ) ;
proof {
if holds ( ne0 , g_e ) {
assert ( vals ( ne0 ) . contains ( g_e ) ) ;
let t = choose | t : int | 0 <= t < ( vx_i1 + 1 ) - 1 && lz [ t ] == g_e ;
assert ( false ) ;
}
assert ( ne0 [ idx as int ] == 0 ) by {
if ne0 [ idx as int ] == g_e {
assert ( holds ( ne0 , g_e ) ) ;
}
}
lemma_insert_ok ( ne0 , self . lg_cur_size , g_e , idx as int , jw ) ;
}
new_entries [ idx ] = * entry ;
num_inserted += 1 ;
proof {
let ne1 = new_entries @ ;
assert ( ne1 =~= ne0 . update ( idx as int , g_e ) ) ;
assert ( occ64 ( ne1 ) =~= occ64 ( ne0 ) . insert ( idx as int ) ) ;
assert ( ! occ64 ( ne0 ) . contains ( idx as int ) ) ;
assert forall | c : u64 | vals ( ne1 ) . contains ( c ) <==> ( exists | t : int | 0 <= t < ( vx_i1 + 1 ) && lz [ t ] == c ) by {
if c == g_e {
assert ( ne1 [ idx as int ] == g_e ) ;
assert ( holds ( ne1 , g_e ) ) ;
assert ( lz [ ( vx_i1 + 1 ) as int - 1 ] == c ) ;
}
else {
if vals ( ne1 ) . contains ( c ) {
let i = choose | i : int | 0 <= i < ne1 . len ( ) && ne1 [ i ] == c ;
assert ( ne0 [ i ] == c ) ;
assert ( holds ( ne0 , c ) ) ;
assert ( vals ( ne0 ) . contains ( c ) ) ;
let t = choose | t : int | 0 <= t < ( vx_i1 + 1 ) - 1 && lz [ t ] == c ;
assert ( 0 <= t < ( vx_i1 + 1 ) ) ;
}
if exists | t : int | 0 <= t < ( vx_i1 + 1 ) && lz [ t ] == c {
let t = choose | t : int | 0 <= t < ( vx_i1 + 1 ) && lz [ t ] == c ;
assert ( t < ( vx_i1 + 1 ) - 1 ) ;
assert ( vals ( ne0 ) . contains ( c ) ) ;
let i = choose | i : int | 0 <= i < ne0 . len ( ) && ne0 [ i ] == c ;
assert ( i != idx ) ;
assert ( ne1 [ i ] == c ) ;
assert ( holds ( ne1 , c ) ) ;
}
}
}
}
}
else {
proof {
lemma_occ_full ( new_entries @ ) ;
}
unreachable! ( ) ;
}
vx_i1 += 1 ;
}
assert! ( num_inserted == k as usize ) ;
self . num_entries = num_inserted ;
self . entries = new_entries ;
proof {
assert ( vals ( self . entries @ ) =~= vals ( es ) . filter ( | c : u64 | c < self . theta ) ) by {
assert forall | c : u64 | vals ( self . entries @ ) . contains ( c ) <==> vals ( es ) . filter ( | c : u64 | c < self . theta ) . contains ( c ) by {
if vals ( self . entries @ ) . contains ( c ) {
let t = choose | t : int | 0 <= t < lz . len ( ) && lz [ t ] == c ;
assert ( cs . contains ( lz [ t ] ) ) ;
let q = choose | q : int | 0 <= q < cs . len ( ) && cs [ q ] == c ;
assert ( holds ( es , c ) ) ;
}
if vals ( es ) . contains ( c ) && c < kv {
assert ( cs . contains ( c ) ) ;
assert ( lz . contains ( c ) ) ;
let t = choose | t : int | 0 <= t < lz . len ( ) && lz [ t ] == c ;
}
}
}
assert forall | i : int | 0 <= i < self . entries @ . len ( ) implies self . entries @ [ i ] < self . theta || self . entries @ [ i ] == 0 by {
let c = self . entries @ [ i ] ;
if c != 0 {
assert ( holds ( self . entries @ , c ) ) ;
assert ( vals ( self . entries @ ) . contains ( c ) ) ;
}
}
}
}




    fn try_insert ( & mut self , hash : u64 ) -> ( r : bool ) requires old ( self ) . wf ( ) , hash < old ( self ) . theta ensures final ( self ) . wf ( ) , same_config ( * final ( self ) , * old ( self ) ) ,
/*@C04.insert.theta*/ 0 < final ( self ) . theta <= old ( self ) . theta ,
/*@C04.insert.theta_drop*/ final ( self ) . theta < old ( self ) . theta ==> old ( self ) . num_entries >= pow2 ( old ( self ) . lg_nom_size as nat ) , hash == 0 ==> ! r && final ( self ) . entries @ == old ( self ) . entries @ && final ( self ) . theta == old ( self ) . theta && final ( self ) . num_entries == old ( self ) . num_entries ,
/*@C04.insert.new*/ hash != 0 ==> r == ! holds ( old ( self ) . entries @ , hash ) ,
/*@C04.insert.set*/ hash != 0 ==> vals ( final ( self ) . entries @ ) == vals ( old ( self ) . entries @ ) . insert ( hash ) . filter ( | c : u64 | c < final ( self ) . theta ) ,
/*@C18.theta.load*/ final ( self ) . num_entries <= max_load ( final ( self ) . lg_nom_size ) , {
proof {
lemma_cap_le_max_load ( self . lg_cur_size , self . lg_nom_size ) ;
}
if hash == 0 {
return false ;
}
proof {
lemma_pow2_bound32 ( self . lg_cur_size ) ;
}
let Some ( index ) = self . find_in_curr_entries ( hash ) else {
proof {
lemma_occ_full ( self . entries @ ) ;
lemma_cap_lt_len ( self . lg_cur_size , self . lg_nom_size ) ;
}
unreachable! ( ) ;
}
;
let ghost es0 = self . entries @ ;
let ghost len = es0 . len ( ) as int ;
let ghost jw = choose | j : int | 0 <= j < len && index == probe_at ( home ( hash , len ) , stride_spec ( hash , self . lg_cur_size ) , j , len ) && path_clear ( es0 , hash , home ( hash , len ) , stride_spec ( hash , self . lg_cur_size ) , j ) ;
if self . entries [ index ] == hash {
proof {
assert ( holds ( es0 , hash ) ) ;
assert ( vals ( es0 ) . insert ( hash ) . filter ( | c : u64 | c < self . theta ) =~= vals ( es0 ) ) by {
assert forall | c : u64 | vals ( es0 ) . contains ( c ) implies c < self . theta by {
let i = choose | i : int | 0 <= i < es0 . len ( ) && es0 [ i ] == c ;
}
}
}
return false ;
}
proof {
if holds ( es0 , hash ) {
lemma_find_hits_existing ( es0 , self . lg_cur_size , hash , index as int , jw ) ;
}
}
assert! ( self . entries [ index ] == 0 ) ;
self . entries [ index ] = hash ;
self . num_entries += 1 ;
proof {
let es1 = self . entries @ ;
lemma_insert_ok ( es0 , self . lg_cur_size , hash , index as int , jw ) ;
assert ( es1 =~= es0 . update ( index as int , hash ) ) ;
assert ( occ64 ( es1 ) =~= occ64 ( es0 ) . insert ( index as int ) ) ;
assert ( ! occ64 ( es0 ) . contains ( index as int ) ) ;
assert ( vals ( es1 ) =~= vals ( es0 ) . insert ( hash ) ) by {
assert forall | c : u64 | vals ( es1 ) . contains ( c ) <==> vals ( es0 ) . insert ( hash ) . contains ( c ) by {
if c == hash {
assert ( es1 [ index as int ] == hash ) ;
assert ( holds ( es1 , hash ) ) ;
}
else {
if vals ( es0 ) . contains ( c ) {
let i = choose | i : int | 0 <= i < es0 . len ( ) && es0 [ i ] == c ;
assert ( i != index ) ;
assert ( es1 [ i ] == c ) ;
assert ( holds ( es1 , c ) ) ;
}
if vals ( es1 ) . contains ( c ) {
let i = choose | i : int | 0 <= i < es1 . len ( ) && es1 [ i ] == c ;
assert ( es0 [ i ] == c ) ;
assert ( holds ( es0 , c ) ) ;
}
}
}
}
assert ( vals ( es1 ) . filter ( | c : u64 | c < self . theta ) =~= vals ( es1 ) ) by {
assert forall | c : u64 | vals ( es1 ) . contains ( c ) implies c < self . theta by {
let i = choose | i : int | 0 <= i < es1 . len ( ) && es1 [ i ] == c ;
}
}
}
let capacity = self . get_capacity ( ) ;
if self . num_entries > capacity {
if self . lg_cur_size <= self . lg_nom_size {
self . resize ( ) ;
}
else {
let ghost es1 = self . entries @ ;
let ghost th1 = self . theta ;
proof {
lemma_rebuild_counts ( self . lg_cur_size , self . lg_nom_size ) ;
}
self . rebuild ( ) ;
proof {
assert ( vals ( es1 ) . filter ( | c : u64 | c < self . theta ) =~= vals ( es0 ) . insert ( hash ) . filter ( | c : u64 | c < self . theta ) ) ;
}
}
}
true }




    fn new ( lg_nom_size : u8 , resize_factor : ResizeFactor , sampling_probability : f32 , hash_seed : u64 , ) -> ( r : Self ) requires 5 <= lg_nom_size <= 26 ensures
/*@C04.new.wf*/ r . wf ( ) ,
/*@C04.new.initial*/ r . is_initial ( ) , r . lg_nom_size == lg_nom_size , r . resize_factor == resize_factor , r . sampling_probability == sampling_probability , r . hash_seed == hash_seed ,
/*@C04.new.empty*/ forall | c : u64 | ! vals ( r . entries @ ) . contains ( c ) , {
let lg_max_size = lg_nom_size + 1 ;
let lg_cur_size = starting_sub_multiple ( lg_max_size , MIN_LG_K , resize_factor . lg_value ( ) ) ;
proof {
lemma_pow2_bound32 ( lg_cur_size ) ;
lemma_shl_usize ( lg_cur_size ) ;
}
let size = if lg_cur_size > 0 {
1 << lg_cur_size }
else {
0 }
;
let entries = vec! [ 0u64 ;
size ] ;
proof {
lemma_empty_table_ok ( entries @ , lg_cur_size ) ;
}
Self {
lg_cur_size , lg_nom_size , lg_max_size , resize_factor , sampling_probability , theta : starting_theta_from_sampling_probability ( sampling_probability ) , hash_seed , entries , num_entries : 0 , }
}



    fn hash_and_screen < T : Hash > ( & mut self , value : T ) -> ( r : u64 ) ensures * final ( self ) == * old ( self ) ,
/*@C04.screen*/ r == ( if ( hash_spec ( old ( self ) . hash_seed , value ) >> 1 ) < old ( self ) . theta {
hash_spec ( old ( self ) . hash_seed , value ) >> 1 }
else {
0 }
) , r != 0 ==> r < old ( self ) . theta , {
let ( h1 , _ ) = vx_hash128 ( self . hash_seed , value ) ;
let hash = h1 >> 1 ;
if hash >= self . theta {
return 0 ;
}
hash }



    fn trim ( & mut self ) requires old ( self ) . wf ( ) ensures final ( self ) . wf ( ) , same_config ( * final ( self ) , * old ( self ) ) ,
/*@C04.trim.theta*/ final ( self ) . theta <= old ( self ) . theta && ( old ( self ) . theta > 0 ==> final ( self ) . theta > 0 ) ,
/*@C04.trim.theta_drop*/ final ( self ) . theta < old ( self ) . theta ==> old ( self ) . num_entries > pow2 ( old ( self ) . lg_nom_size as nat ) ,
/*@C04.trim.smallest*/ vals ( final ( self ) . entries @ ) == vals ( old ( self ) . entries @ ) . filter ( | c : u64 | c < final ( self ) . theta ) ,
/*@C04.trim.count*/ final ( self ) . num_entries == ( if old ( self ) . num_entries <= pow2 ( old ( self ) . lg_nom_size as nat ) {
old ( self ) . num_entries as int }
else {
pow2 ( old ( self ) . lg_nom_size as nat ) as int }
) ,
/*@C18.theta.load*/ final ( self ) . num_entries <= pow2 ( final ( self ) . lg_nom_size as nat ) ,
/*@C04.trim.noop*/ old ( self ) . num_entries <= pow2 ( old ( self ) . lg_nom_size as nat ) ==> final ( self ) . entries @ == old ( self ) . entries @ && final ( self ) . theta == old ( self ) . theta , {
proof {
lemma_pow2_bound32 ( self . lg_nom_size ) ;
lemma_shl_usize ( self . lg_nom_size ) ;
lemma_cap_le_max_load ( self . lg_cur_size , self . lg_nom_size ) ;
let es = self . entries @ ;
assert ( vals ( es ) . filter ( | c : u64 | c < self . theta ) =~= vals ( es ) ) by {
assert forall | c : u64 | vals ( es ) . contains ( c ) implies c < self . theta by {
let i = choose | i : int | 0 <= i < es . len ( ) && es [ i ] == c ;
}
}
}
if self . num_entries > ( 1 << self . lg_nom_size ) {
self . rebuild ( ) ;
}
}



    fn reset ( & mut self ) requires old ( self ) . wf ( ) ensures final ( self ) . wf ( ) , same_config ( * final ( self ) , * old ( self ) ) ,
/*@C04.reset.initial*/ final ( self ) . is_initial ( ) ,
/*@C04.reset.empty*/ forall | c : u64 | ! vals ( final ( self ) . entries @ ) . contains ( c ) , {
let init_theta = starting_theta_from_sampling_probability ( self . sampling_probability ) ;
let init_lg_cur = starting_sub_multiple ( self . lg_nom_size + 1 , MIN_LG_K , self . resize_factor . lg_value ( ) , ) ;
proof {
lemma_pow2_bound32 ( init_lg_cur ) ;
lemma_shl_usize ( init_lg_cur ) ;
}
if self . entries . len ( ) != 1 << init_lg_cur {
self . entries . resize ( 1 << init_lg_cur , 0 ) ;
}
self . entries . fill ( 0 ) ;
self . num_entries = 0 ;
self . theta = init_theta ;
self . lg_cur_size = init_lg_cur ;
proof {
lemma_empty_table_ok ( self . entries @ , self . lg_cur_size ) ;
}
}



    fn num_entries ( & self ) -> ( r : usize ) ensures r == self . num_entries ,
/*@C18.theta.load*/ self . wf ( ) ==> r <= max_load ( self . lg_nom_size ) , {
proof {
if self . wf ( ) {
lemma_cap_le_max_load ( self . lg_cur_size , self . lg_nom_size ) ;
}
}
self . num_entries }



    fn theta ( & self ) -> ( r : u64 ) ensures r == self . theta {
self . theta }



    fn is_empty ( & self ) -> ( r : bool ) ensures r == ( self . num_entries == 0 ) ,
/*@C04.is_empty*/ self . wf ( ) ==> ( r <==> forall | c : u64 | ! vals ( self . entries @ ) . contains ( c ) ) , {
proof {
if self . wf ( ) {
let es = self . entries @ ;
lemma_occ_zero ( es ) ;
if self . num_entries == 0 {
assert forall | c : u64 | ! vals ( es ) . contains ( c ) by {
if vals ( es ) . contains ( c ) {
let i = choose | i : int | 0 <= i < es . len ( ) && es [ i ] == c ;
}
}
}
else {
let i = choose | i : int | 0 <= i < es . len ( ) && es [ i ] != 0 ;
assert ( holds ( es , es [ i ] ) ) ;
assert ( vals ( es ) . contains ( es [ i ] ) ) ;
}
}
}
self . num_entries == 0 }



    fn seed_hash ( & self ) -> ( r : u16 ) ensures r == seed_hash_spec ( self . hash_seed ) {
compute_seed_hash ( self . hash_seed ) }


    fn lg_nom_size ( & self ) -> ( r : u8 ) ensures r == self . lg_nom_size {
self . lg_nom_size }


}

// ---- std shims / assumed specs used by rebuild ----
spec fn nonzero_seq(es: Seq<u64>) -> Seq<u64> { es.filter(|e: u64| e != 0) }
#[verifier::external_body]
fn vx_retain_nonzero(v: &mut Vec<u64>)
  ensures final(v)@ == nonzero_seq(old(v)@)
{ v.retain(|&e| e != 0) }

pub assume_specification<T: Ord> [ <[T]>::select_nth_unstable ] (s: &mut [T], index: usize) -> (r: (&mut [T], &mut T, &mut [T]))
  requires index < old(s)@.len()
  ensures
    r.0@.len() == index,
    (r.0@.push(*r.1) + r.2@).to_multiset() == old(s)@.to_multiset(),
    T::obeys_cmp_spec() ==> forall|i: int| 0 <= i < r.0@.len() ==> #[trigger] r.0@[i].cmp_spec(&*r.1) != core::cmp::Ordering::Greater,
    T::obeys_cmp_spec() ==> forall|i: int| 0 <= i < r.2@.len() ==> (*r.1).cmp_spec(&#[trigger] r.2@[i]) != core::cmp::Ordering::Greater;

proof fn lemma_shl_u64(l: u8)
  requires l < 32
  ensures (1u64 << l) == pow2(l as nat)
{
    lemma_pow2_bound32(l);
    vstd::bits::lemma_u64_shl_is_mul(1, l as u64);
    assert((1u64 << (l as u64)) == (1u64 << l));
}
proof fn lemma_filter_facts(es: Seq<u64>)
  requires no_dup(es)
  ensures
    forall|a: int| 0 <= a < nonzero_seq(es).len() ==> nonzero_seq(es)[a] != 0 && holds(es, #[trigger] nonzero_seq(es)[a]),
    forall|c: u64| c != 0 && holds(es, c) ==> nonzero_seq(es).contains(c),
    nonzero_seq(es).no_duplicates(),
{
    let p = |e: u64| e != 0;
    let f = es.filter(p);
    assert forall|a: int| 0 <= a < f.len() implies f[a] != 0 && holds(es, #[trigger] f[a]) by {
        es.lemma_filter_pred(p, a);
        es.lemma_filter_contains_rev(p, f[a]);
    }
    assert forall|c: u64| c != 0 && holds(es, c) implies f.contains(c) by {
        let i = choose|i: int| 0 <= i < es.len() && es[i] == c;
        es.lemma_filter_contains(p, i);
    }
    lemma_filter_nodup(es);
}
proof fn lemma_filter_nodup(es: Seq<u64>)
  requires no_dup(es)
  ensures nonzero_seq(es).no_duplicates()
  decreases es.len()
{
    let p = |e: u64| e != 0;
    reveal(Seq::filter);
    if es.len() > 0 {
        let d = es.drop_last();
        assert(no_dup(d));
        lemma_filter_nodup(d);
        let sub = d.filter(p);
        if p(es.last()) {
            assert(es.filter(p) =~= sub.push(es.last()));
            assert(!sub.contains(es.last())) by {
                if sub.contains(es.last()) {
                    d.lemma_filter_contains_rev(p, es.last());
                    let i = choose|i: int| 0 <= i < d.len() && d[i] == es.last();
                    assert(es[i] == es[es.len() - 1]);
                }
            }
            assert(sub.push(es.last()).no_duplicates()) by {
                assert forall|a: int, b: int| 0 <= a < sub.len() + 1 && 0 <= b < sub.len() + 1 && a != b implies sub.push(es.last())[a] != sub.push(es.last())[b] by {
                    if a == sub.len() { assert(sub.contains(sub[b])); }
                    else if b == sub.len() { assert(sub.contains(sub[a])); }
                }
            }
        } else {
            assert(es.filter(p) =~= sub);
        }
    }
}

proof fn lemma_filter_len_occ(es: Seq<u64>)
  ensures nonzero_seq(es).len() == occ64(es).len()
  decreases es.len()
{
    let p = |e: u64| e != 0;
    reveal(Seq::filter);
    if es.len() == 0 {
        assert(occ64(es) =~= Set::<int>::empty());
    } else {
        let d = es.drop_last();
        lemma_filter_len_occ(d);
        let n = es.len() - 1;
        if p(es.last()) {
            assert(es.filter(p) =~= d.filter(p).push(es.last()));
            assert(occ64(es) =~= occ64(d).insert(n));
            assert(!occ64(d).contains(n));
        } else {
            assert(es.filter(p) =~= d.filter(p));
            assert(occ64(es) =~= occ64(d));
        }
    }
}
proof fn lemma_rebuild_counts(lg_cur: u8, lg_nom: u8)
  requires lg_cur == lg_nom + 1, 5 <= lg_cur <= 27
  ensures pow2(lg_nom as nat) < cap_spec(lg_cur, lg_nom) + 1, pow2(lg_nom as nat) < pow2(lg_cur as nat)
{
    lemma2_to64();
    lemma_pow2_unfold(lg_cur as nat);
    lemma_pow2_strictly_increases(3, lg_nom as nat);
}
proof fn lemma_select_meaning(cs: Seq<u64>, lz: Seq<u64>, kv: u64, gz: Seq<u64>)
  requires cs.no_duplicates(), (lz.push(kv) + gz).to_multiset() == cs.to_multiset(),
    forall|i: int| 0 <= i < lz.len() ==> lz[i] <= kv,
    forall|i: int| 0 <= i < gz.len() ==> kv <= gz[i],
  ensures
    forall|a: int| 0 <= a < lz.len() ==> cs.contains(#[trigger] lz[a]) && lz[a] < kv,
    cs.contains(kv),
    lz.no_duplicates(),
    forall|c: u64| cs.contains(c) && c < kv ==> lz.contains(c),
{
    let perm = lz.push(kv) + gz;
    cs.lemma_multiset_has_no_duplicates();
    perm.lemma_multiset_has_no_duplicates_conv();
    perm.to_multiset_ensures();
    cs.to_multiset_ensures();
    assert(perm.no_duplicates());
    let k = lz.len() as int;
    assert(perm[k] == kv);
    assert forall|a: int| 0 <= a < lz.len() implies cs.contains(#[trigger] lz[a]) && lz[a] < kv by {
        assert(perm[a] == lz[a]);
        assert(perm.contains(lz[a]));
        assert(perm.to_multiset().count(lz[a]) > 0);
        assert(cs.to_multiset().count(lz[a]) > 0);
        assert(perm[a] != perm[k]);
    }
    assert(perm.contains(kv));
    assert(perm.to_multiset().count(kv) > 0);
    assert(cs.to_multiset().count(kv) > 0);
    assert(lz.no_duplicates()) by {
        assert forall|a: int, b: int| 0 <= a < lz.len() && 0 <= b < lz.len() && a != b implies lz[a] != lz[b] by {
            assert(perm[a] == lz[a]); assert(perm[b] == lz[b]);
        }
    }
    assert forall|c: u64| cs.contains(c) && c < kv implies lz.contains(c) by {
        assert(cs.to_multiset().count(c) > 0);
        assert(perm.to_multiset().count(c) > 0);
        assert(perm.contains(c));
        let p = choose|p: int| 0 <= p < perm.len() && perm[p] == c;
        if p > k { assert(perm[p] == gz[p - k - 1]); }
        assert(p < k);
        assert(lz[p] == c);
    }
}

proof fn lemma_shl_usize(l: u8)
  requires l < 32
  ensures (1usize << (l as usize)) == pow2(l as nat), (1usize << l) == pow2(l as nat)
{
    lemma_pow2_bound32(l);
    vstd::bits::lemma_usize_shl_is_mul(1, l as usize);
    assert((1usize << (l as usize)) == (1usize << l));
}
proof fn lemma_empty_table_ok(es: Seq<u64>, n: u8)
  requires n < 32, es.len() == pow2(n as nat), forall|i: int| 0 <= i < es.len() ==> es[i] == 0
  ensures tbl_ok(es, n), occ64(es).len() == 0, forall|c: u64| !vals(es).contains(c)
{
    assert(occ64(es) =~= Set::<int>::empty());
}
proof fn lemma_occ_take_step(es: Seq<u64>, i: int)
  requires 0 <= i < es.len()
  ensures occ64(es.take(i + 1)).len() == occ64(es.take(i)).len() + (if es[i] != 0 { 1int } else { 0int })
{
    if es[i] != 0 {
        assert(occ64(es.take(i + 1)) =~= occ64(es.take(i)).insert(i));
        assert(!occ64(es.take(i)).contains(i));
    } else {
        assert(occ64(es.take(i + 1)) =~= occ64(es.take(i)));
    }
}
proof fn lemma_occ_take_le(es: Seq<u64>, i: int)
  requires 0 <= i <= es.len()
  ensures occ64(es.take(i)).len() <= occ64(es).len()
{
    assert(occ64(es.take(i)).subset_of(occ64(es)));
    vstd::set_lib::lemma_len_subset(occ64(es.take(i)), occ64(es));
}
proof fn lemma_resize_room(lg_cur: u8, new_lg: u8, lg_nom: u8)
  requires 5 <= lg_cur <= lg_nom, lg_cur < new_lg <= lg_nom + 1, lg_nom + 1 <= 27
  ensures cap_spec(lg_cur, lg_nom) + 1 < pow2(new_lg as nat)
{
    lemma2_to64();
    lemma_pow2_strictly_increases(lg_cur as nat, new_lg as nat);
    lemma_pow2_pos(lg_cur as nat);
}
proof fn lemma_resize_cap(lg_cur: u8, new_lg: u8, lg_nom: u8)
  requires 5 <= lg_cur <= lg_nom, lg_cur < new_lg <= lg_nom + 1, lg_nom + 1 <= 27
  ensures cap_spec(lg_cur, lg_nom) + 1 <= cap_spec(new_lg, lg_nom)
{
    lemma2_to64();
    lemma_pow2_pos(lg_cur as nat);
    lemma_pow2_unfold(new_lg as nat);
    if lg_cur + 1 < new_lg { lemma_pow2_strictly_increases((lg_cur + 1) as nat, new_lg as nat); }
    lemma_pow2_unfold((lg_cur + 1) as nat);
    lemma_pow2_strictly_increases(4, lg_cur as nat);
}
proof fn lemma_occ_full(es: Seq<u64>)
  requires forall|i: int| 0 <= i < es.len() ==> es[i] != 0
  ensures occ64(es).len() == es.len()
{
    assert(occ64(es) =~= Set::range(0, es.len() as int));
    vstd::set_lib::lemma_int_range(0, es.len() as int);
}
proof fn lemma_cap_lt_len(lg_cur: u8, lg_nom: u8)
  requires 5 <= lg_cur <= 27
  ensures cap_spec(lg_cur, lg_nom) < pow2(lg_cur as nat), cap_spec(lg_cur, lg_nom) + 1 < 0x1000_0000
{
    lemma2_to64();
    lemma_pow2_pos(lg_cur as nat);
    lemma_pow2_strictly_increases(lg_cur as nat, 28);
}
}
fn main(){}
