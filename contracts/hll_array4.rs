#![feature(allocator_api)]
use vstd::prelude::*;
use vstd::imap::*;
use vstd::iset::*;
use vstd::arithmetic::power2::*;
verus! {
global size_of usize == 8;
pub assume_specification<T, F: std::ops::FnOnce() -> T + std::marker::Destruct> [std::option::Option::<T>::get_or_insert_with] (o: &mut std::option::Option<T>, f: F) -> (r: &mut T)
  requires (*old(o)) is None ==> f.requires(()),
  ensures
     (*old(o)) matches Some(v) ==> *r == v,
     (*old(o)) is None ==> f.ensures((), *r),
     *final(o) == Some(*final(r)),
;

pub assume_specification<T, A: core::alloc::Allocator> [ Vec::<T, A>::into_boxed_slice ] (v: Vec<T, A>) -> (r: Box<[T], A>)
  ensures r@ == v@;

const AUX_TOKEN : u8 = 15 ;


// ================= coupons (hll/mod.rs) =================
const KEY_BITS_26 : u32 = 26 ;


exec const KEY_MASK_26 : u32 ensures KEY_MASK_26 == 0x3ffffff {
proof {
assert ( ( 1u32 << 26u32 ) - 1 == 0x3ffffff ) by ( bit_vector ) ;
}
( 1 << KEY_BITS_26 ) - 1 }



spec fn cslot(c: u32) -> u32 { c & 0x3ffffff }
spec fn cval(c: u32) -> u8 { (c >> 26) as u8 }
// the slot a coupon addresses in a sketch with 2^lg registers
spec fn slot_of(c: u32, lg: u8) -> int { (cslot(c) as int) % (pow2(lg as nat) as int) }

fn get_slot ( coupon : u32 ) -> ( r : u32 ) ensures r == cslot ( coupon ) {
proof {
assert ( coupon & 0x3ffffff == coupon % 0x4000000 && coupon & 0x3ffffff == 0x3ffffff & coupon ) by ( bit_vector ) ;
}
coupon & KEY_MASK_26 }



fn get_value ( coupon : u32 ) -> ( r : u8 ) ensures r == cval ( coupon ) , r <= 63 {
proof {
assert ( ( coupon >> 26 ) <= 63 ) by ( bit_vector ) ;
assert ( coupon >> 26 == coupon / 0x4000000 && ( 1u32 << 26 ) == 0x4000000 ) by ( bit_vector ) ;
}
( coupon >> KEY_BITS_26 ) as u8 }



// ================= AuxMap by contract (every function below is VERIFIED against these contracts in unit hll_auxmap,
// where inv() is the hash-table invariant wf2(), lgk() is lg_config_k, awf() is proved by lemma_awf) =================
#[verifier::external_body]
pub struct AuxMap { _p: u8 }
#[verifier::external_body]
pub struct AuxMapIter { _p: u8 }
impl AuxMap {
    pub uninterp spec fn view(&self) -> IMap<u32, u8>;
    pub uninterp spec fn lgk(&self) -> u8;
    pub uninterp spec fn inv(&self) -> bool;
    pub open spec fn awf(&self) -> bool {
        &&& self.inv()
        &&& forall|s: u32| self.view().dom().contains(s) ==> s < pow2(self.lgk() as nat) && 1 <= #[trigger] self.view()[s] <= 63
    }
    #[verifier::external_body]
    fn new(lg_config_k: u8) -> (r: Self)
      requires 4 <= lg_config_k <= 21
      ensures r.awf(), r.lgk() == lg_config_k, r.view().dom() =~= ISet::empty()
    { unimplemented!() }
    #[verifier::external_body]
    fn insert(&mut self, slot: u32, value: u8)
      requires old(self).awf(), slot < pow2(old(self).lgk() as nat), !old(self).view().dom().contains(slot), 1 <= value <= 63
      ensures final(self).awf(), final(self).lgk() == old(self).lgk(), final(self).view() == old(self).view().insert(slot, value)
    { unimplemented!() }
    #[verifier::external_body]
    fn get(&self, slot: u32) -> (r: Option<u8>)
      requires self.awf(), slot < pow2(self.lgk() as nat)
      ensures r == (if self.view().dom().contains(slot) { Some(self.view()[slot]) } else { None::<u8> })
    { unimplemented!() }
    #[verifier::external_body]
    fn replace(&mut self, slot: u32, value: u8)
      requires old(self).awf(), slot < pow2(old(self).lgk() as nat), old(self).view().dom().contains(slot), 1 <= value <= 63
      ensures final(self).awf(), final(self).lgk() == old(self).lgk(), final(self).view() == old(self).view().insert(slot, value)
    { unimplemented!() }
}
impl IntoIterator for AuxMap {
    type Item = (u32, u8);
    type IntoIter = AuxMapIter;
    #[verifier::external_body]
    fn into_iter(self) -> (it: Self::IntoIter)
      ensures self.awf() ==> it.iwf() && it.todo() == self.view()
    { unimplemented!() }
}
impl AuxMapIter {
    pub uninterp spec fn todo(&self) -> IMap<u32, u8>;
    pub uninterp spec fn left(&self) -> nat;
    pub uninterp spec fn iwf(&self) -> bool;
}
impl Iterator for AuxMapIter {
    type Item = (u32, u8);
    #[verifier::external_body]
    fn next(&mut self) -> (r: Option<Self::Item>)
      ensures old(self).iwf() ==> final(self).iwf() && match r {
          Some((s, v)) => old(self).todo().dom().contains(s) && old(self).todo()[s] == v && final(self).todo() == old(self).todo().remove(s) && final(self).left() < old(self).left(),
          None => old(self).todo().dom() =~= ISet::empty(),
      }
    { unimplemented!() }
}

// ================= estimator (float state; opaque) =================
// update() appends the transition (old_value, new_value) to a ghost log and touches nothing else.
#[verifier::external_body]
struct HipEstimator { _p: u8 }
impl HipEstimator {
    uninterp spec fn log(&self) -> Seq<(u8, u8)>;
    #[verifier::external_body]
    fn new(lg_config_k: u8) -> (r: Self)
      requires lg_config_k < 32   // `1 << lg_config_k` is an i32 shift (unit hll_api)
      ensures r.log() == Seq::<(u8, u8)>::empty()
    { unimplemented!() }
    #[verifier::external_body]
    fn update(&mut self, lg_config_k: u8, old_value: u8, new_value: u8)
      ensures final(self).log() == old(self).log().push((old_value, new_value))
    { unimplemented!() }
}

// R22 shim (VERIFIED, not assumed): `OPT.get_or_insert_with(|| AuxMap::new(LG))`.  The eraser has no form for annotating a
// zero-argument closure `||`, so the call is routed through this function whose body is the original expression plus the annotation.
fn vx_get_or_new_aux(o: &mut Option<AuxMap>, lg_config_k: u8) -> (r: &mut AuxMap)
  requires 4 <= lg_config_k <= 21
  ensures
    (*old(o)) matches Some(v) ==> *r == v,
    (*old(o)) is None ==> r.awf() && r.lgk() == lg_config_k && r.view().dom() =~= ISet::empty(),
    *final(o) == Some(*final(r)),
{
    o.get_or_insert_with(|| -> (r: AuxMap) requires 4 <= lg_config_k <= 21 ensures r.awf(), r.lgk() == lg_config_k, r.view().dom() =~= ISet::empty() { AuxMap::new(lg_config_k) })
}

// ================= hll/array4.rs (real code + overlay) =================
struct Array4 {
lg_config_k : u8 , bytes : Box < [ u8 ] > , cur_min : u8 , num_at_cur_min : u32 , aux_map : Option < AuxMap > , estimator : HipEstimator , }



spec fn nib(bytes: Seq<u8>, i: int) -> u8 { if i % 2 == 0 { bytes[i / 2] & 15 } else { bytes[i / 2] >> 4 } }

proof fn lemma_k(l: u8) requires 4 <= l <= 21 ensures 16 <= pow2(l as nat) <= 0x20_0000, pow2(l as nat) % 2 == 0, (1u32 << l) == pow2(l as nat), pow2((l - 1) as nat) * 2 == pow2(l as nat) {
    lemma2_to64(); if l < 21 { lemma_pow2_strictly_increases(l as nat, 21); } if l > 4 { lemma_pow2_strictly_increases(4, l as nat); }
    lemma_pow2_unfold(l as nat);
    vstd::bits::lemma_u32_shl_is_mul(1, l as u32);
    assert((1u32 << (l as u32)) == (1u32 << l));
}

// pure component-level specs (so that frame reasoning is by congruence)
spec fn preg(cur_min: u8, bytes: Seq<u8>, aux: IMap<u32, u8>, i: int) -> int {
    let n = nib(bytes, i);
    if n < 15 { cur_min as int + n as int } else { aux[i as u32] as int }
}
spec fn pwf(lg: u8, cur_min: u8, bytes: Seq<u8>, aux: IMap<u32, u8>) -> bool {
    let k = pow2(lg as nat) as int;
    &&& 4 <= lg <= 21
    &&& bytes.len() * 2 == k
    &&& cur_min <= 63
    &&& forall|i: int| 0 <= i < k ==> (nib(bytes, i) == 15 <==> #[trigger] aux.dom().contains(i as u32))
    &&& forall|s: u32| #[trigger] aux.dom().contains(s) ==> s < k && cur_min + 15 <= aux[s] <= 63
    &&& forall|i: int| 0 <= i < k ==> #[trigger] preg(cur_min, bytes, aux, i) <= 63
}
spec fn pcnt(cur_min: u8, bytes: Seq<u8>, aux: IMap<u32, u8>, v: int, n: int) -> int decreases n {
    if n <= 0 { 0 } else { pcnt(cur_min, bytes, aux, v, n - 1) + (if preg(cur_min, bytes, aux, n - 1) == v { 1int } else { 0int }) }
}
impl Array4 {
    spec fn k(&self) -> int { pow2(self.lg_config_k as nat) as int }
    spec fn auxv(&self) -> IMap<u32, u8> { if self.aux_map is Some { self.aux_map->0.view() } else { IMap::empty() } }
    spec fn reg(&self, i: int) -> int { preg(self.cur_min, self.bytes@, self.auxv(), i) }
    // refinement of the abstract register model of unit hll_sketch (`lg`, `regs`, `wf2` of Array4 are uninterpreted there)
    spec fn lg(&self) -> u8 { self.lg_config_k }
    spec fn regs(&self) -> Seq<u8> { Seq::new(self.k() as nat, |i: int| self.reg(i) as u8) }
    spec fn wf(&self) -> bool {
        &&& pwf(self.lg_config_k, self.cur_min, self.bytes@, self.auxv())
        &&& (self.aux_map matches Some(m) ==> m.awf() && m.lgk() == self.lg_config_k)
    }

    /// Get raw 4-bit value from slot (not adjusted for cur_min)
    #[inline]
    fn new ( lg_config_k : u8 ) -> ( r : Self ) requires 4 <= lg_config_k <= 21 ensures
/*@C02.init_wf*/ r . wf2 ( ) , r . lg_config_k == lg_config_k ,
/*@C02.init*/ forall | i : int | 0 <= i < pow2 ( lg_config_k as nat ) ==> r . reg ( i ) == 0 ,
/*@C02.init_log*/ r . estimator . log ( ) == Seq :: < ( u8 , u8 ) > :: empty ( ) , {
proof {
lemma_k ( lg_config_k ) ;
lemma_shl_usize ( ( lg_config_k - 1 ) as u8 ) ;
}
let num_bytes = 1 << ( lg_config_k - 1 ) ;
let num_at_cur_min = 1 << lg_config_k ;
proof {
assert forall | a : Array4 | a . lg_config_k == lg_config_k && a . cur_min == 0 && a . num_at_cur_min == num_at_cur_min && a . aux_map is None && a . bytes @ . len ( ) == num_bytes && ( forall | x : int | 0 <= x < a . bytes @ . len ( ) ==> a . bytes @ [ x ] == 0u8 ) implies # [ trigger ] a . wf2 ( ) && ( forall | i : int | 0 <= i < pow2 ( lg_config_k as nat ) ==> a . reg ( i ) == 0 ) by {
lemma_new4 ( a ) ;
}
}
Self {
lg_config_k , bytes : vec! [ 0u8 ;
num_bytes ] . into_boxed_slice ( ) , cur_min : 0 , num_at_cur_min , aux_map : None , estimator : HipEstimator :: new ( lg_config_k ) , }
}


    fn get ( & self , slot : u32 ) -> ( r : u8 ) requires self . wf ( ) , slot < self . k ( ) ensures
/*@C02.get*/ r as int == self . reg ( slot as int ) {
proof {
self . lemma_reg_ge ( slot as int ) ;
}
let raw = self . get_raw ( slot ) ;
if raw < AUX_TOKEN {
self . cur_min + raw }
else {
self . aux_map . as_ref ( ) . and_then ( | map : & AuxMap | -> ( r : Option < u8 > ) requires map . awf ( ) , slot < pow2 ( map . lgk ( ) as nat ) ensures r == ( if map . view ( ) . dom ( ) . contains ( slot ) {
Some ( map . view ( ) [ slot ] ) }
else {
None :: < u8 > }
) {
map . get ( slot ) }
) . unwrap_or ( self . cur_min ) }
}


    fn get_raw ( & self , slot : u32 ) -> ( r : u8 ) requires 4 <= self . lg_config_k <= 21 , self . bytes @ . len ( ) * 2 == self . k ( ) , slot < self . k ( ) ensures r == nib ( self . bytes @ , slot as int ) , r <= 15 {
proof {
lemma_k ( self . lg_config_k ) ;
assert ( slot >> 1 == slot / 2 ) by ( bit_vector ) ;
assert ( ( slot & 1 == 0 ) == ( slot % 2 == 0 ) ) by ( bit_vector ) ;
}
debug_assert! ( slot >> 1 < self . bytes . len ( ) as u32 ) ;
let byte = self . bytes [ ( slot >> 1 ) as usize ] ;
proof {
assert ( byte & 15 <= 15 ) by ( bit_vector ) ;
assert ( byte >> 4 <= 15 ) by ( bit_vector ) ;
assert ( byte & 15 == byte % 16 && byte >> 4 == byte / 16 ) by ( bit_vector ) ;
}
if slot & 1 == 0 {
byte & 15 }
else {
byte >> 4 }
}



    /// Set raw 4-bit value in slot
    #[inline]
    fn put_raw ( & mut self , slot : u32 , value : u8 ) requires 4 <= old ( self ) . lg_config_k <= 21 , old ( self ) . bytes @ . len ( ) * 2 == old ( self ) . k ( ) , slot < old ( self ) . k ( ) , value <= 15 ensures final ( self ) . bytes @ . len ( ) == old ( self ) . bytes @ . len ( ) , final ( self ) . lg_config_k == old ( self ) . lg_config_k , final ( self ) . cur_min == old ( self ) . cur_min , final ( self ) . num_at_cur_min == old ( self ) . num_at_cur_min , final ( self ) . aux_map == old ( self ) . aux_map , final ( self ) . estimator == old ( self ) . estimator , forall | j : int | 0 <= j < old ( self ) . k ( ) ==> # [ trigger ] nib ( final ( self ) . bytes @ , j ) == ( if j == slot {
value }
else {
nib ( old ( self ) . bytes @ , j ) }
) , {
proof {
lemma_k ( self . lg_config_k ) ;
assert ( slot >> 1 == slot / 2 ) by ( bit_vector ) ;
assert ( ( slot & 1 == 0 ) == ( slot % 2 == 0 ) ) by ( bit_vector ) ;
}
debug_assert! ( value <= AUX_TOKEN ) ;
debug_assert! ( slot >> 1 < self . bytes . len ( ) as u32 ) ;
let byte_idx = ( slot >> 1 ) as usize ;
let old_byte = self . bytes [ byte_idx ] ;
proof {
let v = value ;
let ob = self . bytes @ [ ( slot / 2 ) as int ] ;
assert ( v <= 15 ==> ( ( ( ob & 0xF0 ) | ( v & 0x0F ) ) & 15 ) == v && ( ( ( ob & 0xF0 ) | ( v & 0x0F ) ) >> 4 ) == ( ob >> 4 ) ) by ( bit_vector ) ;
assert ( v <= 15 ==> ( ( ( ob & 0x0F ) | ( v << 4 ) ) >> 4 ) == v && ( ( ( ob & 0x0F ) | ( v << 4 ) ) & 15 ) == ( ob & 15 ) ) by ( bit_vector ) ;
assert ( ( ob & 0xF0 ) | ( v & 0x0F ) == ( v & 0x0F ) | ( ob & 0xF0 ) && ( ob & 0x0F ) | ( v << 4 ) == ( v << 4 ) | ( ob & 0x0F ) ) by ( bit_vector ) ;
}
self . bytes [ byte_idx ] = if slot & 1 == 0 {
( old_byte & 0xF0 ) | ( value & 0x0F ) }
else {
( old_byte & 0x0F ) | ( value << 4 ) }
;
}



    spec fn cnt_at(&self, v: int, n: int) -> int { pcnt(self.cur_min, self.bytes@, self.auxv(), v, n) }
    spec fn wf2(&self) -> bool {
        &&& self.wf()
        &&& self.num_at_cur_min == self.cnt_at(self.cur_min as int, self.k())
        &&& self.num_at_cur_min > 0
    }

    fn shift_to_bigger_cur_min ( & mut self ) requires old ( self ) . wf ( ) , old ( self ) . num_at_cur_min == 0 , old ( self ) . cnt_at ( old ( self ) . cur_min as int , old ( self ) . k ( ) ) == 0 ensures final ( self ) . wf ( ) , final ( self ) . cur_min == old ( self ) . cur_min + 1 , final ( self ) . lg_config_k == old ( self ) . lg_config_k , final ( self ) . estimator == old ( self ) . estimator ,
/*@C02.shift_regs*/ forall | i : int | 0 <= i < old ( self ) . k ( ) ==> final ( self ) . reg ( i ) == old ( self ) . reg ( i ) ,
/*@C02.shift_count*/ final ( self ) . num_at_cur_min == final ( self ) . cnt_at ( final ( self ) . cur_min as int , final ( self ) . k ( ) ) , {
let ghost lg = self . lg_config_k ;
let ghost c0 = self . cur_min ;
let ghost b0 = self . bytes @ ;
let ghost a0 = self . auxv ( ) ;
let ghost kk = self . k ( ) ;
proof {
lemma_k ( lg ) ;
lemma_no_min ( lg , c0 , b0 , a0 ) ;
}
let new_cur_min = self . cur_min + 1 ;
let k = 1 << self . lg_config_k ;
let mut num_at_new = 0 ;
for slot in 0 .. k invariant k == kk , kk == pow2 ( lg as nat ) , self . lg_config_k == lg , self . cur_min == c0 , self . aux_map == old ( self ) . aux_map , self . bytes @ . len ( ) == b0 . len ( ) , self . estimator == old ( self ) . estimator , pwf ( lg , c0 , b0 , a0 ) , new_cur_min == c0 + 1 , forall | j : int | 0 <= j < kk ==> nib ( b0 , j ) >= 1 , forall | j : int | 0 <= j < kk ==> # [ trigger ] nib ( self . bytes @ , j ) == ( if j < slot && nib ( b0 , j ) < 15 {
( nib ( b0 , j ) - 1 ) as u8 }
else {
nib ( b0 , j ) }
) , num_at_new == cnt_one ( b0 , slot as int ) , num_at_new <= slot , {
let raw = self . get_raw ( slot ) ;
debug_assert! ( raw != 0 ) ;
if raw < AUX_TOKEN {
let decremented = raw - 1 ;
self . put_raw ( slot , decremented ) ;
if decremented == 0 {
num_at_new += 1 ;
}
}
}
let ghost b1 = self . bytes @ ;
proof {
assert ( forall | j : int | 0 <= j < kk ==> # [ trigger ] nib ( b1 , j ) == ( if nib ( b0 , j ) < 15 {
( nib ( b0 , j ) - 1 ) as u8 }
else {
nib ( b0 , j ) }
) ) ;
}
if let Some ( old_aux ) = self . aux_map . take ( ) {
let mut new_aux = None ;
proof {
assert ( old_aux . view ( ) == a0 ) ;
}
let mut vx_it2 = old_aux . into_iter ( ) ;
let ghost mut todo = vx_it2 . todo ( ) ;
proof {
assert ( todo == a0 ) ;
assert ( vx_it2 . iwf ( ) ) ;
assert ( self . bytes @ == b1 ) ;
assert forall | j : int | 0 <= j < kk implies # [ trigger ] nib ( self . bytes @ , j ) == shifted_nib ( c0 , b0 , a0 , todo , j ) by {
lemma_nib_le ( b0 , j ) ;
assert ( nib ( b0 , j ) == 15 <==> a0 . dom ( ) . contains ( j as u32 ) ) ;
assert ( nib ( b1 , j ) == ( if nib ( b0 , j ) < 15 {
( nib ( b0 , j ) - 1 ) as u8 }
else {
nib ( b0 , j ) }
) ) ;
}
assert ( opt_view ( new_aux ) . dom ( ) =~= ISet :: empty ( ) ) ;
}
loop invariant_except_break vx_it2 . iwf ( ) , vx_it2 . todo ( ) == todo , invariant kk == pow2 ( lg as nat ) , kk <= 0x20_0000 , self . lg_config_k == lg , self . cur_min == c0 , self . aux_map is None , self . bytes @ . len ( ) == b0 . len ( ) , pwf ( lg , c0 , b0 , a0 ) , new_cur_min == c0 + 1 , c0 <= 62 , 4 <= lg <= 21 , forall | s : u32 | # [ trigger ] todo . dom ( ) . contains ( s ) ==> a0 . dom ( ) . contains ( s ) && todo [ s ] == a0 [ s ] , opt_awf ( new_aux , lg ) , self . estimator == old ( self ) . estimator , forall | j : int | 0 <= j < kk ==> # [ trigger ] nib ( self . bytes @ , j ) == shifted_nib ( c0 , b0 , a0 , todo , j ) , forall | s : u32 | # [ trigger ] opt_view ( new_aux ) . dom ( ) . contains ( s ) <==> ( a0 . dom ( ) . contains ( s ) && ! todo . dom ( ) . contains ( s ) && a0 [ s ] - ( c0 + 1 ) >= 15 ) , forall | s : u32 | # [ trigger ] opt_view ( new_aux ) . dom ( ) . contains ( s ) ==> opt_view ( new_aux ) [ s ] == a0 [ s ] , ensures todo . dom ( ) =~= ISet :: < u32 > :: empty ( ) , decreases vx_it2 . left ( ) {
let ghost todo0 = todo ;
let ghost nb0 = self . bytes @ ;
let ghost na0 = opt_view ( new_aux ) ;
match vx_it2 . next ( ) {
Some ( ( slot , old_actual_val ) ) => {
proof {
todo = vx_it2 . todo ( ) ;
assert ( todo0 . dom ( ) . contains ( slot ) ) ;
assert ( a0 . dom ( ) . contains ( slot ) && a0 [ slot ] == old_actual_val ) ;
assert ( nib ( nb0 , slot as int ) == shifted_nib ( c0 , b0 , a0 , todo0 , slot as int ) ) ;
assert ( nib ( b0 , slot as int ) == 15 <==> a0 . dom ( ) . contains ( ( slot as int ) as u32 ) ) ;
}
debug_assert! ( self . get_raw ( slot ) == AUX_TOKEN ) ;
let new_shifted = old_actual_val - new_cur_min ;
if new_shifted < AUX_TOKEN {
self . put_raw ( slot , new_shifted ) ;
}
else {
let aux = vx_get_or_new_aux ( & mut new_aux , self . lg_config_k ) ;
aux . insert ( slot , old_actual_val ) ;
}
proof {
if new_shifted >= 15 {
assert ( self . bytes @ == nb0 ) ;
assert ( opt_view ( new_aux ) == na0 . insert ( slot , old_actual_val ) ) ;
}
else {
assert ( opt_view ( new_aux ) == na0 ) ;
}
lemma_shift_step ( lg , c0 , b0 , a0 , todo0 , todo , nb0 , self . bytes @ , na0 , opt_view ( new_aux ) , slot ) ;
}
}
None => {
break ;
}
}
}
self . aux_map = new_aux ;
proof {
assert forall | j : int | 0 <= j < kk implies # [ trigger ] nib ( self . bytes @ , j ) == final_nib ( c0 , b0 , a0 , j ) by {
assert ( nib ( self . bytes @ , j ) == shifted_nib ( c0 , b0 , a0 , todo , j ) ) ;
assert ( ! todo . dom ( ) . contains ( j as u32 ) ) ;
}
assert ( self . auxv ( ) == opt_view ( self . aux_map ) ) ;
}
}
else {
proof {
assert ( a0 . dom ( ) =~= ISet :: < u32 > :: empty ( ) ) ;
assert ( self . bytes @ == b1 ) ;
assert forall | j : int | 0 <= j < kk implies # [ trigger ] nib ( self . bytes @ , j ) == final_nib ( c0 , b0 , a0 , j ) by {
lemma_nib_le ( b0 , j ) ;
assert ( nib ( b0 , j ) == 15 <==> a0 . dom ( ) . contains ( j as u32 ) ) ;
assert ( nib ( b1 , j ) == ( if nib ( b0 , j ) < 15 {
( nib ( b0 , j ) - 1 ) as u8 }
else {
nib ( b0 , j ) }
) ) ;
}
}
}
self . cur_min = new_cur_min ;
self . num_at_cur_min = num_at_new ;
proof {
let b2 = self . bytes @ ;
let a2 = self . auxv ( ) ;
lemma_shift_done ( lg , c0 , b0 , a0 , b2 , a2 ) ;
lemma_cnt_one ( lg , c0 , b0 , a0 , b2 , a2 , kk ) ;
}
}



    fn update ( & mut self , coupon : u32 ) requires old ( self ) . wf2 ( ) ensures
/*@C02.wf*/ final ( self ) . wf2 ( ) , final ( self ) . lg_config_k == old ( self ) . lg_config_k ,
/*@C02.regs*/ forall | i : int | 0 <= i < old ( self ) . k ( ) ==> # [ trigger ] final ( self ) . reg ( i ) == ( if i == slot_of ( coupon , old ( self ) . lg_config_k ) && cval ( coupon ) as int > old ( self ) . reg ( i ) {
cval ( coupon ) as int }
else {
old ( self ) . reg ( i ) }
) ,
/*@C02.log*/ final ( self ) . estimator . log ( ) == ( if cval ( coupon ) as int > old ( self ) . reg ( slot_of ( coupon , old ( self ) . lg_config_k ) ) {
old ( self ) . estimator . log ( ) . push ( ( old ( self ) . reg ( slot_of ( coupon , old ( self ) . lg_config_k ) ) as u8 , cval ( coupon ) ) ) }
else {
old ( self ) . estimator . log ( ) }
) , {
proof {
lemma_k ( self . lg_config_k ) ;
lemma_mask ( cslot ( coupon ) , self . lg_config_k ) ;
}
let mask = ( 1 << self . lg_config_k ) - 1 ;
let slot = get_slot ( coupon ) & mask ;
let new_value = get_value ( coupon ) ;
if new_value <= self . cur_min {
proof {
assert ( self . reg ( slot as int ) >= self . cur_min ) by {
self . lemma_reg_ge ( slot as int ) ;
}
}
return ;
}
let raw_stored = self . get_raw ( slot ) ;
let lower_bound = raw_stored + self . cur_min ;
proof {
self . lemma_reg_ge ( slot as int ) ;
}
if new_value <= lower_bound {
return ;
}
let old_value = if raw_stored < AUX_TOKEN {
lower_bound }
else {
self . aux_map . as_ref ( ) . expect ( "" ) . get ( slot ) . expect ( "" ) }
;
proof {
assert ( old_value as int == self . reg ( slot as int ) ) ;
}
if new_value <= old_value {
return ;
}
proof {
assert ( self . wf ( ) ) ;
}
let ghost pre0 = * self ;
self . estimator . update ( self . lg_config_k , old_value , new_value ) ;
let shifted_new = new_value - self . cur_min ;
let ghost pre = * self ;
proof {
assert ( pre . wf ( ) ) ;
}
match ( raw_stored , shifted_new ) {
( AUX_TOKEN , shifted ) if shifted >= AUX_TOKEN => {
self . aux_map . as_mut ( ) . expect ( "" ) . replace ( slot , new_value ) ;
proof {
assert ( self . auxv ( ) == pre . auxv ( ) . insert ( slot , new_value ) ) ;
assert ( self . bytes @ == pre . bytes @ ) ;
}
}
( AUX_TOKEN , _ ) => {
unreachable! ( ) ;
}
( _ , shifted ) if shifted >= AUX_TOKEN => {
self . put_raw ( slot , AUX_TOKEN ) ;
let aux = vx_get_or_new_aux ( & mut self . aux_map , self . lg_config_k ) ;
aux . insert ( slot , new_value ) ;
proof {
assert ( self . auxv ( ) == pre . auxv ( ) . insert ( slot , new_value ) ) ;
assert ( forall | j : int | 0 <= j < pre . k ( ) ==> # [ trigger ] nib ( self . bytes @ , j ) == ( if j == slot {
15u8 }
else {
nib ( pre . bytes @ , j ) }
) ) ;
}
}
_ => {
self . put_raw ( slot , shifted_new ) ;
proof {
assert ( self . auxv ( ) == pre . auxv ( ) ) ;
assert ( forall | j : int | 0 <= j < pre . k ( ) ==> # [ trigger ] nib ( self . bytes @ , j ) == ( if j == slot {
shifted_new }
else {
nib ( pre . bytes @ , j ) }
) ) ;
}
}
}
proof {
assert ( self . cur_min == pre . cur_min && self . lg_config_k == pre . lg_config_k && self . bytes @ . len ( ) == pre . bytes @ . len ( ) ) ;
assert forall | i : int | 0 <= i < pre . k ( ) implies # [ trigger ] self . reg ( i ) == ( if i == slot {
new_value as int }
else {
pre . reg ( i ) }
) by {
pre . lemma_reg_ge ( i ) ;
if i != slot {
assert ( nib ( self . bytes @ , i ) == nib ( pre . bytes @ , i ) ) ;
if nib ( pre . bytes @ , i ) == 15 {
assert ( pre . auxv ( ) . dom ( ) . contains ( i as u32 ) ) ;
assert ( self . auxv ( ) [ i as u32 ] == pre . auxv ( ) [ i as u32 ] ) ;
}
}
}
assert forall | i : int | 0 <= i < self . k ( ) implies ( nib ( self . bytes @ , i ) == 15 <==> # [ trigger ] self . auxv ( ) . dom ( ) . contains ( i as u32 ) ) by {
pre . lemma_reg_ge ( i ) ;
if i != slot {
assert ( nib ( self . bytes @ , i ) == nib ( pre . bytes @ , i ) ) ;
assert ( pre . auxv ( ) . dom ( ) . contains ( i as u32 ) == self . auxv ( ) . dom ( ) . contains ( i as u32 ) ) ;
}
}
assert forall | s : u32 | # [ trigger ] self . auxv ( ) . dom ( ) . contains ( s ) implies s < self . k ( ) && self . cur_min + 15 <= self . auxv ( ) [ s ] <= 63 by {
if s != slot {
assert ( pre . auxv ( ) . dom ( ) . contains ( s ) ) ;
assert ( self . auxv ( ) [ s ] == pre . auxv ( ) [ s ] ) ;
}
else {
if shifted_new < 15 {
assert ( raw_stored < 15 ) ;
assert ( nib ( pre . bytes @ , slot as int ) == 15 <==> pre . auxv ( ) . dom ( ) . contains ( ( slot as int ) as u32 ) ) ;
assert ( false ) ;
}
else {
assert ( self . auxv ( ) [ slot ] == new_value ) ;
}
}
}
assert ( self . aux_map matches Some ( m ) ==> m . awf ( ) && m . lgk ( ) == self . lg_config_k ) ;
assert forall | i : int | 0 <= i < self . k ( ) implies # [ trigger ] preg ( self . cur_min , self . bytes @ , self . auxv ( ) , i ) <= 63 by {
assert ( self . reg ( i ) == ( if i == slot {
new_value as int }
else {
pre . reg ( i ) }
) ) ;
assert ( pre . reg ( i ) <= 63 ) ;
}
assert ( self . bytes @ . len ( ) * 2 == self . k ( ) ) ;
assert ( self . cur_min <= 63 && 4 <= self . lg_config_k <= 21 ) ;
assert ( forall | i : int | 0 <= i < self . k ( ) ==> ( nib ( self . bytes @ , i ) == 15 <==> # [ trigger ] self . auxv ( ) . dom ( ) . contains ( i as u32 ) ) ) ;
assert ( pwf ( self . lg_config_k , self . cur_min , self . bytes @ , self . auxv ( ) ) ) ;
assert ( self . wf ( ) ) ;
self . lemma_cnt_update ( pre , slot as int , self . k ( ) ) ;
}
if old_value == self . cur_min {
self . num_at_cur_min -= 1 ;
while self . num_at_cur_min == 0 invariant self . wf ( ) , self . lg_config_k == old ( self ) . lg_config_k , self . estimator == pre . estimator , self . num_at_cur_min == self . cnt_at ( self . cur_min as int , self . k ( ) ) , forall | i : int | 0 <= i < old ( self ) . k ( ) ==> # [ trigger ] self . reg ( i ) == ( if i == slot {
new_value as int }
else {
pre . reg ( i ) }
) , decreases 63 - self . cur_min {
self . shift_to_bigger_cur_min ( ) ;
}
}
}



    proof fn lemma_reg_ge(&self, i: int)
      requires self.wf(), 0 <= i < self.k()
      ensures self.reg(i) >= self.cur_min, nib(self.bytes@, i) < 15 ==> self.reg(i) == self.cur_min + nib(self.bytes@, i), nib(self.bytes@, i) <= 15,
        nib(self.bytes@, i) == 15 ==> (self.aux_map is Some && self.auxv().dom().contains(i as u32) && self.reg(i) >= self.cur_min + 15 && self.reg(i) == self.auxv()[i as u32]),
        nib(self.bytes@, i) < 15 ==> !self.auxv().dom().contains(i as u32),
        self.reg(i) <= 63
    {
        let b = self.bytes@[i / 2];
        assert(b & 15 <= 15) by (bit_vector); assert(b >> 4 <= 15) by (bit_vector);
        assert(nib(self.bytes@, i) == 15 <==> self.auxv().dom().contains(i as u32));
        assert(preg(self.cur_min, self.bytes@, self.auxv(), i) <= 63);
    }
    // counting lemma: changing one register from `old` (== pre.reg(slot)) to a bigger value
    proof fn lemma_cnt_update(&self, pre: Array4, slot: int, n: int)
      requires 0 <= n <= pre.k(), pre.k() == self.k(), 0 <= slot < pre.k(), self.cur_min == pre.cur_min,
        forall|i: int| 0 <= i < pre.k() ==> #[trigger] self.reg(i) == (if i == slot { self.reg(slot) } else { pre.reg(i) }),
        self.reg(slot) > pre.reg(slot), pre.reg(slot) >= pre.cur_min,
      ensures self.cnt_at(self.cur_min as int, n) == pre.cnt_at(pre.cur_min as int, n) - (if slot < n && pre.reg(slot) == pre.cur_min { 1int } else { 0int })
      decreases n
    {
        if n > 0 { self.lemma_cnt_update(pre, slot, n - 1); assert(self.reg(n - 1) == (if n - 1 == slot { self.reg(slot) } else { pre.reg(n - 1) })); }
    }
}
proof fn lemma_shl_usize(l: u8)
  requires l <= 21
  ensures (1usize << l) == pow2(l as nat)
{
    lemma2_to64();
    lemma_pow2_strictly_increases(l as nat, 22);
    vstd::bits::lemma_usize_shl_is_mul(1, l as usize);
    assert((1usize << (l as usize)) == (1usize << l));
}
proof fn lemma_pcnt_all(c: u8, b: Seq<u8>, a: IMap<u32, u8>, v: int, n: int)
  requires forall|i: int| 0 <= i < n ==> #[trigger] preg(c, b, a, i) == v
  ensures pcnt(c, b, a, v, n) == (if n >= 0 { n } else { 0 })
  decreases n
{
    if n > 0 { lemma_pcnt_all(c, b, a, v, n - 1); }
}
proof fn lemma_new4(a: Array4)
  requires 4 <= a.lg_config_k <= 21, a.cur_min == 0, a.num_at_cur_min == a.k(), a.aux_map is None, a.bytes@.len() * 2 == a.k(),
    forall|x: int| 0 <= x < a.bytes@.len() ==> a.bytes@[x] == 0u8
  ensures a.wf2(), forall|i: int| 0 <= i < a.k() ==> a.reg(i) == 0
{
    lemma_k(a.lg_config_k);
    assert(0u8 & 15 == 0u8) by (bit_vector);
    assert(0u8 >> 4 == 0u8) by (bit_vector);
    assert forall|i: int| 0 <= i < a.k() implies nib(a.bytes@, i) == 0 && #[trigger] preg(a.cur_min, a.bytes@, a.auxv(), i) == 0 by {
        assert(a.bytes@[i / 2] == 0u8);
    }
    assert(a.auxv().dom() =~= ISet::<u32>::empty());
    lemma_pcnt_all(a.cur_min, a.bytes@, a.auxv(), 0, a.k());
}
proof fn lemma_mask(x: u32, l: u8)
  requires 4 <= l <= 21
  ensures (x & (((1u32 << l) - 1) as u32)) == x % (pow2(l as nat) as u32), (x & (((1u32 << l) - 1) as u32)) < pow2(l as nat)
{
    lemma_k(l);
    vstd::bits::lemma_u32_low_bits_mask_is_mod(x, l as nat);
    lemma_lbm(l as nat);
}
proof fn lemma_lbm(n: nat)
  ensures vstd::bits::low_bits_mask(n) == pow2(n) - 1
  decreases n
{
    lemma2_to64();
    vstd::bits::lemma_low_bits_mask_values();
    if n > 0 { lemma_lbm((n - 1) as nat); vstd::bits::lemma_low_bits_mask_unfold(n); lemma_pow2_unfold(n); }
}

spec fn opt_awf(o: Option<AuxMap>, lg: u8) -> bool { o matches Some(m) ==> m.awf() && m.lgk() == lg }
spec fn opt_view(o: Option<AuxMap>) -> IMap<u32, u8> { if o is Some { o->0.view() } else { IMap::empty() } }
spec fn cnt_one(b0: Seq<u8>, n: int) -> int decreases n { if n <= 0 { 0 } else { cnt_one(b0, n - 1) + (if nib(b0, n - 1) == 1 { 1int } else { 0int }) } }
// nibble of slot j after loop 1 and after the aux entries NOT in `todo` have been processed
spec fn shifted_nib(c0: u8, b0: Seq<u8>, a0: IMap<u32, u8>, todo: IMap<u32, u8>, j: int) -> u8 {
    if nib(b0, j) < 15 { (nib(b0, j) - 1) as u8 }
    else if todo.dom().contains(j as u32) { 15u8 }
    else if a0[j as u32] - (c0 + 1) < 15 { (a0[j as u32] - (c0 + 1)) as u8 }
    else { 15u8 }
}
proof fn lemma_pcnt_zero(c: u8, b: Seq<u8>, a: IMap<u32, u8>, v: int, n: int, j: int)
  requires pcnt(c, b, a, v, n) == 0, 0 <= j < n
  ensures preg(c, b, a, j) != v
  decreases n
{
    lemma_pcnt_nonneg(c, b, a, v, n - 1);
    if j < n - 1 { lemma_pcnt_zero(c, b, a, v, n - 1, j); }
}
proof fn lemma_pcnt_nonneg(c: u8, b: Seq<u8>, a: IMap<u32, u8>, v: int, n: int)
  ensures pcnt(c, b, a, v, n) >= 0
  decreases n
{ if n > 0 { lemma_pcnt_nonneg(c, b, a, v, n - 1); } }
proof fn lemma_nib_le(b: Seq<u8>, j: int)
  requires 0 <= j < b.len() * 2
  ensures nib(b, j) <= 15
{ let x = b[j / 2]; assert(x & 15 <= 15) by (bit_vector); assert(x >> 4 <= 15) by (bit_vector); }
proof fn lemma_no_min(lg: u8, c0: u8, b0: Seq<u8>, a0: IMap<u32, u8>)
  requires pwf(lg, c0, b0, a0), pcnt(c0, b0, a0, c0 as int, pow2(lg as nat) as int) == 0
  ensures forall|j: int| 0 <= j < pow2(lg as nat) ==> nib(b0, j) >= 1, c0 <= 62
{
    let k = pow2(lg as nat) as int;
    lemma_k(lg);
    assert forall|j: int| 0 <= j < k implies nib(b0, j) >= 1 by {
        lemma_pcnt_zero(c0, b0, a0, c0 as int, k, j);
        lemma_nib_le(b0, j);
    }
    lemma_pcnt_zero(c0, b0, a0, c0 as int, k, 0);
    lemma_nib_le(b0, 0);
    assert(preg(c0, b0, a0, 0) <= 63);
    let z: int = 0;
    assert(nib(b0, z) == 15 <==> a0.dom().contains(z as u32));
}
spec fn final_nib(c0: u8, b0: Seq<u8>, a0: IMap<u32, u8>, j: int) -> u8 {
    if nib(b0, j) < 15 { (nib(b0, j) - 1) as u8 } else if a0[j as u32] - (c0 + 1) < 15 { (a0[j as u32] - (c0 + 1)) as u8 } else { 15u8 }
}
proof fn lemma_shift_done(lg: u8, c0: u8, b0: Seq<u8>, a0: IMap<u32, u8>, b2: Seq<u8>, a2: IMap<u32, u8>)
  requires pwf(lg, c0, b0, a0), c0 <= 62, b2.len() == b0.len(),
    forall|j: int| 0 <= j < pow2(lg as nat) ==> nib(b0, j) >= 1,
    forall|j: int| 0 <= j < pow2(lg as nat) ==> #[trigger] nib(b2, j) == final_nib(c0, b0, a0, j),
    forall|s: u32| #[trigger] a2.dom().contains(s) <==> (a0.dom().contains(s) && a0[s] - (c0 + 1) >= 15),
    forall|s: u32| #[trigger] a2.dom().contains(s) ==> a2[s] == a0[s],
  ensures pwf(lg, (c0 + 1) as u8, b2, a2),
    forall|i: int| 0 <= i < pow2(lg as nat) ==> #[trigger] preg((c0 + 1) as u8, b2, a2, i) == preg(c0, b0, a0, i),
{
    let k = pow2(lg as nat) as int;
    lemma_k(lg);
    assert forall|i: int| 0 <= i < k implies #[trigger] preg((c0 + 1) as u8, b2, a2, i) == preg(c0, b0, a0, i) && (nib(b2, i) == 15 <==> a2.dom().contains(i as u32)) by {
        lemma_nib_le(b0, i);
        assert(nib(b0, i) == 15 <==> a0.dom().contains(i as u32));
        assert(nib(b2, i) == final_nib(c0, b0, a0, i));
        assert(preg(c0, b0, a0, i) <= 63);
        if nib(b0, i) < 15 {
            assert(!a0.dom().contains(i as u32)); assert(!a2.dom().contains(i as u32));
        } else {
            let sl = i as u32;
            assert(a0.dom().contains(sl));
            assert(c0 + 15 <= a0[sl] <= 63);
            if a0[sl] - (c0 + 1) < 15 { assert(!a2.dom().contains(sl)); } else { assert(a2.dom().contains(sl)); assert(a2[sl] == a0[sl]); }
        }
    }
    assert forall|i: int| 0 <= i < k implies (nib(b2, i) == 15 <==> #[trigger] a2.dom().contains(i as u32)) by {
        assert(preg((c0 + 1) as u8, b2, a2, i) == preg(c0, b0, a0, i));
    }
    assert forall|i: int| 0 <= i < k implies #[trigger] preg((c0 + 1) as u8, b2, a2, i) <= 63 by { assert(preg(c0, b0, a0, i) <= 63); }
}
proof fn lemma_cnt_one(lg: u8, c0: u8, b0: Seq<u8>, a0: IMap<u32, u8>, b2: Seq<u8>, a2: IMap<u32, u8>, n: int)
  requires pwf(lg, c0, b0, a0), c0 <= 62, 0 <= n <= pow2(lg as nat),
    forall|j: int| 0 <= j < pow2(lg as nat) ==> nib(b0, j) >= 1,
    forall|i: int| 0 <= i < pow2(lg as nat) ==> #[trigger] preg((c0 + 1) as u8, b2, a2, i) == preg(c0, b0, a0, i),
  ensures pcnt((c0 + 1) as u8, b2, a2, c0 as int + 1, n) == cnt_one(b0, n)
  decreases n
{
    if n > 0 {
        lemma_cnt_one(lg, c0, b0, a0, b2, a2, n - 1);
        let j = n - 1;
        lemma_k(lg);
        lemma_nib_le(b0, j);
        assert(preg((c0 + 1) as u8, b2, a2, j) == preg(c0, b0, a0, j));
        assert(nib(b0, j) == 15 <==> a0.dom().contains(j as u32));
    }
}
// one iteration of the aux-rebuild loop, on pure values
proof fn lemma_shift_step(lg: u8, c0: u8, b0: Seq<u8>, a0: IMap<u32, u8>, todo0: IMap<u32, u8>, todo1: IMap<u32, u8>,
                          nb0: Seq<u8>, nb1: Seq<u8>, na0: IMap<u32, u8>, na1: IMap<u32, u8>, slot: u32)
  requires
    pwf(lg, c0, b0, a0), c0 <= 62, nb0.len() == b0.len(), nb1.len() == b0.len(), 4 <= lg <= 21,
    todo0.dom().contains(slot), todo1 == todo0.remove(slot),
    forall|s: u32| #[trigger] todo0.dom().contains(s) ==> a0.dom().contains(s) && todo0[s] == a0[s],
    forall|j: int| 0 <= j < pow2(lg as nat) ==> #[trigger] nib(nb0, j) == shifted_nib(c0, b0, a0, todo0, j),
    forall|s: u32| #[trigger] na0.dom().contains(s) <==> (a0.dom().contains(s) && !todo0.dom().contains(s) && a0[s] - (c0 + 1) >= 15),
    forall|s: u32| #[trigger] na0.dom().contains(s) ==> na0[s] == a0[s],
    a0[slot] - (c0 + 1) < 15 ==> (na1 == na0 && forall|j: int| 0 <= j < pow2(lg as nat) ==> #[trigger] nib(nb1, j) == (if j == slot { (a0[slot] - (c0 + 1)) as u8 } else { nib(nb0, j) })),
    a0[slot] - (c0 + 1) >= 15 ==> (na1 == na0.insert(slot, a0[slot]) && nb1 == nb0),
  ensures
    forall|s: u32| #[trigger] todo1.dom().contains(s) ==> a0.dom().contains(s) && todo1[s] == a0[s],
    forall|j: int| 0 <= j < pow2(lg as nat) ==> #[trigger] nib(nb1, j) == shifted_nib(c0, b0, a0, todo1, j),
    forall|s: u32| #[trigger] na1.dom().contains(s) <==> (a0.dom().contains(s) && !todo1.dom().contains(s) && a0[s] - (c0 + 1) >= 15),
    forall|s: u32| #[trigger] na1.dom().contains(s) ==> na1[s] == a0[s],
{
    let k = pow2(lg as nat) as int;
    lemma_k(lg);
    assert(a0.dom().contains(slot));
    assert(slot < k);
    assert forall|j: int| 0 <= j < k implies #[trigger] nib(nb1, j) == shifted_nib(c0, b0, a0, todo1, j) by {
        assert(nib(nb0, j) == shifted_nib(c0, b0, a0, todo0, j));
        assert(nib(b0, j) == 15 <==> a0.dom().contains(j as u32));
        if j == slot { assert((j as u32) == slot); } else { assert((j as u32) != slot); assert(todo1.dom().contains(j as u32) == todo0.dom().contains(j as u32)); }
    }
    assert forall|s: u32| #[trigger] na1.dom().contains(s) <==> (a0.dom().contains(s) && !todo1.dom().contains(s) && a0[s] - (c0 + 1) >= 15) by {
        if s != slot { assert(todo1.dom().contains(s) == todo0.dom().contains(s)); }
    }
}
}
fn main(){}
