use vstd::prelude::*;
use vstd::iset::*;
use vstd::arithmetic::power2::*;
use vstd::arithmetic::div_mod::*;
use vstd::arithmetic::mul::*;
verus! {
global size_of usize == 8;
const EMPTY: u32 = 0xffff_ffff;

// ---------- PairTable by contract (definitions shared with the cpc_pairtable / cpc_core units) ----------
#[derive(Clone)]
struct PairTable {
lg_size : u8 , num_valid_bits : u8 , num_items : u32 , slots : Vec < u32 > , }





spec fn pholds(ss: Seq<u32>, item: u32) -> bool { exists|i: int| 0 <= i < ss.len() && ss[i] == item }
spec fn pdistinct(ss: Seq<u32>) -> bool { forall|i: int, j: int| 0 <= i < ss.len() && 0 <= j < ss.len() && i != j && ss[i] != EMPTY ==> ss[i] != ss[j] }
spec fn pocc(ss: Seq<u32>) -> Set<int> { Set::range(0, ss.len() as int).filter(|i: int| ss[i] != EMPTY) }
impl PairTable {
    uninterp spec fn wf_rest(&self) -> bool;
    spec fn wf(&self) -> bool { self.wf_rest() && pdistinct(self.slots@) && self.num_items == pocc(self.slots@).len() }
    spec fn items(&self) -> ISet<u32> { ISet::new(|c: u32| c != EMPTY && pholds(self.slots@, c)) }
    fn slots ( & self ) -> ( r : & [ u32 ] ) ensures r @ == self . slots @ {
& self . slots }




}

spec fn rc(row: int, col: int) -> u32 { ((row as u32) << 6) | (col as u32) }
spec fn bit(x: u64, c: int) -> bool { (x >> (c as u64)) & 1 == 1 }

// ---------- C06: the union of bit matrices is the OR of the (row-folded) matrices ----------
// foldrows(src, lg)[i] = OR of src[j] for j = i (mod dst_rows); defined by prefix recursion over the source rows
spec fn fold_prefix(src: Seq<u64>, dst_rows: int, i: int, n: int) -> u64
  decreases n
{
    if n <= 0 { 0 } else {
        let prev = fold_prefix(src, dst_rows, i, n - 1);
        if (n - 1) % dst_rows == i { prev | src[n - 1] } else { prev }
    }
}
// the bit matrix denoted by a sliding window: row r = window byte r placed at the window offset
spec fn win_rows(w: Seq<u8>, off: u8) -> Seq<u64> { Seq::new(w.len(), |r: int| (w[r] as u64) << off) }
// the pair x = (row << 6 | col) lands on bit (i, c) of a matrix with `rows` rows
spec fn hits(x: u32, rows: int, i: int, c: int) -> bool { ((x >> 6) as int) % rows == i && (x & 63) == c }
// some pair held in the slot sequence lands on bit (i, c)
spec fn tbl_hit(ss: Seq<u32>, rows: int, i: int, c: int) -> bool { exists|x: u32| x != EMPTY && pholds(ss, x) && #[trigger] hits(x, rows, i, c) }

proof fn lemma_shl_us(l: u8) requires l <= 26 ensures (1usize << l) == pow2(l as nat), pow2(l as nat) <= 0x400_0000, pow2(l as nat) >= 1 {
    lemma2_to64(); if l < 26 { lemma_pow2_strictly_increases(l as nat, 26); } lemma_pow2_pos(l as nat);
    vstd::bits::lemma_usize_shl_is_mul(1, l as usize);
    assert((1usize << (l as usize)) == (1usize << l));
}
proof fn lemma_lbm(n: nat)
  ensures vstd::bits::low_bits_mask(n) == pow2(n) - 1
  decreases n
{
    lemma2_to64();
    vstd::bits::lemma_low_bits_mask_values();
    if n > 0 { lemma_lbm((n - 1) as nat); vstd::bits::lemma_low_bits_mask_unfold(n); lemma_pow2_unfold(n); }
}
proof fn lemma_mask_mod(x: usize, n: u8, size: usize)
  requires n <= 26, size == pow2(n as nat)
  ensures (x & ((size - 1) as usize)) == x % size
{
    lemma_shl_us(n);
    vstd::bits::lemma_usize_low_bits_mask_is_mod(x, n as nat);
    lemma_lbm(n as nat);
}
proof fn lemma_or_zero(d: Seq<u64>)
  ensures forall|i: int| 0 <= i < d.len() ==> #[trigger] d[i] == d[i] | 0u64
{
    assert forall|i: int| 0 <= i < d.len() implies #[trigger] d[i] == d[i] | 0u64 by { let x = d[i]; assert(x == x | 0u64) by (bit_vector); }
}
proof fn lemma_or_assoc(a: u64, b: u64, c: u64) ensures ((a | b) | c) == (a | (b | c)) { assert(((a | b) | c) == (a | (b | c))) by (bit_vector); }
proof fn lemma_or_bit(a: u64, b: u64, c: int) requires 0 <= c < 64 ensures bit(a | b, c) == (bit(a, c) || bit(b, c)) {
    let cc = c as u64;
    assert(cc < 64 ==> ((((a | b) >> cc) & 1 == 1) == (((a >> cc) & 1 == 1) || ((b >> cc) & 1 == 1)))) by (bit_vector);
}
// meaning of the fold, bit by bit: bit (i, c) of the folded matrix is set iff some source row r = i (mod dst_rows) has bit c set
spec fn fold_hit(src: Seq<u64>, dst_rows: int, i: int, n: int, c: int) -> bool { exists|r: int| 0 <= r < n && r % dst_rows == i && #[trigger] bit(src[r], c) }
proof fn lemma_fold_bit(src: Seq<u64>, dst_rows: int, i: int, n: int, c: int)
  requires 0 <= c < 64, 0 <= n <= src.len(), dst_rows > 0
  ensures bit(fold_prefix(src, dst_rows, i, n), c) == fold_hit(src, dst_rows, i, n, c)
  decreases n
{
    if n <= 0 {
        let cc = c as u64;
        assert(cc < 64 ==> !((0u64 >> cc) & 1 == 1)) by (bit_vector);
    } else {
        lemma_fold_bit(src, dst_rows, i, n - 1, c);
        let prev = fold_prefix(src, dst_rows, i, n - 1);
        lemma_or_bit(prev, src[n - 1], c);
        if fold_hit(src, dst_rows, i, n - 1, c) {
            let r = choose|r: int| 0 <= r < n - 1 && r % dst_rows == i && #[trigger] bit(src[r], c);
            assert(0 <= r < n && r % dst_rows == i && bit(src[r], c));
        }
        if fold_hit(src, dst_rows, i, n, c) {
            let r = choose|r: int| 0 <= r < n && r % dst_rows == i && #[trigger] bit(src[r], c);
            if r < n - 1 { assert(0 <= r < n - 1 && r % dst_rows == i && bit(src[r], c)); }
        }
        if (n - 1) % dst_rows == i && bit(src[n - 1], c) { assert(fold_hit(src, dst_rows, i, n, c)); }
    }
}
proof fn lemma_take_step(sv: Seq<u32>, i: int, x: u32)
  requires 0 <= i < sv.len()
  ensures pholds(sv.take(i + 1), x) == (pholds(sv.take(i), x) || sv[i] == x)
{
    let a = sv.take(i + 1); let b = sv.take(i);
    if pholds(a, x) { let t = choose|t: int| 0 <= t < a.len() && a[t] == x; if t < i { assert(b[t] == x); } }
    if pholds(b, x) { let t = choose|t: int| 0 <= t < b.len() && b[t] == x; assert(a[t] == x); }
    if sv[i] == x { assert(sv.take(i + 1)[i] == x); }
}
proof fn lemma_hit_step(sv: Seq<u32>, j: int, rows: int, i: int, c: int)
  requires 0 <= j < sv.len()
  ensures tbl_hit(sv.take(j + 1), rows, i, c) == (tbl_hit(sv.take(j), rows, i, c) || (sv[j] != EMPTY && hits(sv[j], rows, i, c)))
{
    let a = sv.take(j + 1); let b = sv.take(j);
    if tbl_hit(a, rows, i, c) {
        let x = choose|x: u32| x != EMPTY && pholds(a, x) && #[trigger] hits(x, rows, i, c);
        lemma_take_step(sv, j, x);
    }
    if tbl_hit(b, rows, i, c) {
        let x = choose|x: u32| x != EMPTY && pholds(b, x) && #[trigger] hits(x, rows, i, c);
        lemma_take_step(sv, j, x);
        assert(pholds(a, x) && hits(x, rows, i, c));
    }
    if sv[j] != EMPTY && hits(sv[j], rows, i, c) {
        lemma_take_step(sv, j, sv[j]);
        assert(pholds(a, sv[j]) && hits(sv[j], rows, i, c));
    }
}
proof fn lemma_hit_none(sv: Seq<u32>, rows: int, i: int, c: int)
  ensures !tbl_hit(sv.take(0), rows, i, c)
{
}
proof fn lemma_or_bit_us(x: u64, col: usize, c: int)
  requires col < 64, 0 <= c < 64
  ensures bit(x | (1u64 << col), c) == (bit(x, c) || c == col)
{
    let cc = c as u64;
    assert(col < 64 && cc < 64 ==> ((((x | (1u64 << col)) >> cc) & 1 == 1) == (((x >> cc) & 1 == 1) || cc == col as u64))) by (bit_vector);
}
proof fn lemma_row_col_us(x: u32)
  ensures ((x & 63) as usize) < 64, ((x >> 6) as usize) < 0x400_0000, (x & 63) == x % 64, (x >> 6) == x / 64
{
    assert((x & 63) < 64) by (bit_vector);
    assert((x >> 6) < 0x400_0000) by (bit_vector);
    assert((x & 63) == x % 64) by (bit_vector);
    assert((x >> 6) == x / 64) by (bit_vector);
}

fn or_window_into_matrix ( dst_matrix : & mut [ u64 ] , dst_lg_k : u8 , src_window : & [ u8 ] , src_offset : u8 , src_lg_k : u8 , ) requires dst_lg_k <= src_lg_k <= 26 , src_offset <= 56 , old ( dst_matrix ) @ . len ( ) == pow2 ( dst_lg_k as nat ) , src_window @ . len ( ) == pow2 ( src_lg_k as nat ) ensures final ( dst_matrix ) @ . len ( ) == old ( dst_matrix ) @ . len ( ) ,
/*@C06.or_window*/ forall | i : int | 0 <= i < final ( dst_matrix ) @ . len ( ) ==> # [ trigger ] final ( dst_matrix ) @ [ i ] == old ( dst_matrix ) @ [ i ] | fold_prefix ( win_rows ( src_window @ , src_offset ) , old ( dst_matrix ) @ . len ( ) as int , i , src_window @ . len ( ) as int ) {
assert! ( dst_lg_k <= src_lg_k ) ;
proof {
lemma_shl_us ( dst_lg_k ) ;
lemma_shl_us ( src_lg_k ) ;
}
let dst_mask = ( 1 << dst_lg_k ) - 1 ;
let src_k = 1 << src_lg_k ;
let ghost d0 = dst_matrix @ ;
let ghost rows = d0 . len ( ) as int ;
let ghost wm = win_rows ( src_window @ , src_offset ) ;
proof {
lemma_or_zero ( d0 ) ;
}
for src_row in 0 .. src_k invariant dst_matrix @ . len ( ) == rows , rows == pow2 ( dst_lg_k as nat ) , rows >= 1 , rows <= 0x400_0000 , src_k == src_window @ . len ( ) , dst_mask == rows - 1 , dst_lg_k <= 26 , src_offset <= 56 , wm == win_rows ( src_window @ , src_offset ) ,
/*@C06.or_window*/ forall | i : int | 0 <= i < rows ==> # [ trigger ] dst_matrix @ [ i ] == d0 [ i ] | fold_prefix ( wm , rows , i , src_row as int ) , {
proof {
lemma_mask_mod ( src_row , dst_lg_k , rows as usize ) ;
}
dst_matrix [ src_row & dst_mask ] |= ( src_window [ src_row ] as u64 ) << src_offset ;
proof {
assert ( wm [ src_row as int ] == ( src_window @ [ src_row as int ] as u64 ) << src_offset ) ;
assert forall | i : int | 0 <= i < rows implies
/*@C06.or_window*/ # [ trigger ] dst_matrix @ [ i ] == d0 [ i ] | fold_prefix ( wm , rows , i , src_row as int + 1 ) by {
if i == ( src_row as int ) % rows {
lemma_or_assoc ( d0 [ i ] , fold_prefix ( wm , rows , i , src_row as int ) , wm [ src_row as int ] ) ;
}
}
}
}
}





fn or_table_into_matrix ( dst_matrix : & mut [ u64 ] , dst_lg_k : u8 , src_table : & PairTable ) requires dst_lg_k <= 26 , old ( dst_matrix ) @ . len ( ) == pow2 ( dst_lg_k as nat ) ensures final ( dst_matrix ) @ . len ( ) == old ( dst_matrix ) @ . len ( ) ,
/*@C06.or_table*/ forall | i : int , c : int | 0 <= i < final ( dst_matrix ) @ . len ( ) && 0 <= c < 64 ==> # [ trigger ] bit ( final ( dst_matrix ) @ [ i ] , c ) == ( bit ( old ( dst_matrix ) @ [ i ] , c ) || exists | x : u32 | src_table . items ( ) . contains ( x ) && # [ trigger ] hits ( x , old ( dst_matrix ) @ . len ( ) as int , i , c ) ) {
proof {
lemma_shl_us ( dst_lg_k ) ;
}
let dst_mask = ( 1 << dst_lg_k ) - 1 ;
let slots = src_table . slots ( ) ;
let ghost d0 = dst_matrix @ ;
let ghost rows = d0 . len ( ) as int ;
let ghost sv = slots @ ;
let mut vx_i1 = 0 ;
while vx_i1 < slots . len ( ) invariant dst_matrix @ . len ( ) == rows , rows == pow2 ( dst_lg_k as nat ) , rows >= 1 , rows <= 0x400_0000 , dst_mask == rows - 1 , dst_lg_k <= 26 , slots @ == sv , 0 <= vx_i1 <= sv . len ( ) ,
/*@C06.or_table*/ forall | i : int , c : int | 0 <= i < rows && 0 <= c < 64 ==> # [ trigger ] bit ( dst_matrix @ [ i ] , c ) == ( bit ( d0 [ i ] , c ) || tbl_hit ( sv . take ( vx_i1 as int ) , rows , i , c ) ) , decreases sv . len ( ) - vx_i1 {
let row_col = slots [ vx_i1 ] ;
if row_col != u32 :: MAX {
let ghost gr = ( row_col >> 6 ) as usize ;
let ghost gc = ( row_col & 63 ) as usize ;
proof {
lemma_row_col_us ( row_col ) ;
lemma_mask_mod ( gr , dst_lg_k , rows as usize ) ;
}
let src_row = ( row_col >> 6 ) as usize ;
let src_col = ( row_col & 63 ) as usize ;
let dst_row = src_row & dst_mask ;
let ghost mprev = dst_matrix @ ;
dst_matrix [ dst_row ] |= 1u64 << src_col ;
proof {
assert forall | i : int , c : int | 0 <= i < rows && 0 <= c < 64 implies
/*@C06.or_table*/ # [ trigger ] bit ( dst_matrix @ [ i ] , c ) == ( bit ( d0 [ i ] , c ) || tbl_hit ( sv . take ( vx_i1 + 1 ) , rows , i , c ) ) by {
lemma_hit_step ( sv , vx_i1 as int , rows , i , c ) ;
assert ( bit ( mprev [ i ] , c ) == ( bit ( d0 [ i ] , c ) || tbl_hit ( sv . take ( vx_i1 as int ) , rows , i , c ) ) ) ;
if i == ( gr as int ) % rows {
lemma_or_bit_us ( mprev [ i ] , gc , c ) ;
}
}
}
}
else {
proof {
assert forall | i : int , c : int | 0 <= i < rows && 0 <= c < 64 implies
/*@C06.or_table*/ # [ trigger ] bit ( dst_matrix @ [ i ] , c ) == ( bit ( d0 [ i ] , c ) || tbl_hit ( sv . take ( vx_i1 + 1 ) , rows , i , c ) ) by {
lemma_hit_step ( sv , vx_i1 as int , rows , i , c ) ;
}
}
}
vx_i1 += 1 ;
}
proof {
assert ( sv . take ( sv . len ( ) as int ) =~= sv ) ;
assert forall | i : int , c : int | 0 <= i < rows && 0 <= c < 64 implies tbl_hit ( sv , rows , i , c ) == ( exists | x : u32 | src_table . items ( ) . contains ( x ) && # [ trigger ] hits ( x , rows , i , c ) ) by {
if tbl_hit ( sv , rows , i , c ) {
let x = choose | x : u32 | x != EMPTY && pholds ( sv , x ) && # [ trigger ] hits ( x , rows , i , c ) ;
assert ( src_table . items ( ) . contains ( x ) && hits ( x , rows , i , c ) ) ;
}
}
}
}





fn or_matrix_into_matrix ( dst_matrix : & mut [ u64 ] , dst_lg_k : u8 , src_matrix : & [ u64 ] , src_lg_k : u8 ) requires dst_lg_k <= src_lg_k <= 26 , old ( dst_matrix ) @ . len ( ) == pow2 ( dst_lg_k as nat ) , src_matrix @ . len ( ) == pow2 ( src_lg_k as nat ) ensures final ( dst_matrix ) @ . len ( ) == old ( dst_matrix ) @ . len ( ) ,
/*@C06.or_matrix*/ forall | i : int | 0 <= i < final ( dst_matrix ) @ . len ( ) ==> # [ trigger ] final ( dst_matrix ) @ [ i ] == old ( dst_matrix ) @ [ i ] | fold_prefix ( src_matrix @ , old ( dst_matrix ) @ . len ( ) as int , i , src_matrix @ . len ( ) as int ) {
assert! ( dst_lg_k <= src_lg_k ) ;
proof {
lemma_shl_us ( dst_lg_k ) ;
lemma_shl_us ( src_lg_k ) ;
}
let dst_mask = ( 1 << dst_lg_k ) - 1 ;
let src_k = 1 << src_lg_k ;
let ghost d0 = dst_matrix @ ;
let ghost rows = d0 . len ( ) as int ;
proof {
lemma_or_zero ( d0 ) ;
}
for src_row in 0 .. src_k invariant dst_matrix @ . len ( ) == rows , rows == pow2 ( dst_lg_k as nat ) , rows >= 1 , rows <= 0x400_0000 , src_k == src_matrix @ . len ( ) , dst_mask == rows - 1 , dst_lg_k <= 26 ,
/*@C06.or_matrix*/ forall | i : int | 0 <= i < rows ==> # [ trigger ] dst_matrix @ [ i ] == d0 [ i ] | fold_prefix ( src_matrix @ , rows , i , src_row as int ) , {
proof {
lemma_mask_mod ( src_row , dst_lg_k , rows as usize ) ;
}
let dst_row = src_row & dst_mask ;
dst_matrix [ dst_row ] |= src_matrix [ src_row ] ;
proof {
assert forall | i : int | 0 <= i < rows implies
/*@C06.or_matrix*/ # [ trigger ] dst_matrix @ [ i ] == d0 [ i ] | fold_prefix ( src_matrix @ , rows , i , src_row as int + 1 ) by {
if i == ( src_row as int ) % rows {
lemma_or_assoc ( d0 [ i ] , fold_prefix ( src_matrix @ , rows , i , src_row as int ) , src_matrix @ [ src_row as int ] ) ;
}
}
}
}
}




// ================= probe.vx =================
// odd s, 2^n | d*s  ==>  2^n | d
proof fn lemma_odd_cancel(n: nat, s: int, d: int)
  requires s % 2 == 1, (d * s) % (pow2(n) as int) == 0
  ensures d % (pow2(n) as int) == 0
  decreases n
{
    lemma_pow2_pos(n);
    if n == 0 {
        lemma2_to64();
    } else {
        let p = pow2(n) as int;
        let q = pow2((n - 1) as nat) as int;
        lemma_pow2_pos((n - 1) as nat);
        assert(p == 2 * q) by { lemma_pow2_unfold(n); }
        let m = (d * s) / p;
        assert(d * s == p * m) by { lemma_fundamental_div_mod(d * s, p); }
        assert((d * s) % 2 == 0) by {
            assert(d * s == 2 * (q * m)) by (nonlinear_arith) requires d * s == p * m, p == 2 * q;
        }
        if d % 2 != 0 {
            let a = d / 2; let b = s / 2;
            assert(d * s == 2 * (2 * a * b + a + b) + 1) by (nonlinear_arith) requires d == 2 * a + 1, s == 2 * b + 1;
            assert(false);
        }
        let d2 = d / 2;
        assert((d2 * s) % q == 0) by {
            assert(2 * (d2 * s) == 2 * (q * m)) by (nonlinear_arith) requires d == 2 * d2, d * s == p * m, p == 2 * q;
            lemma_mod_multiples_basic(m, q);
            assert(q * m == m * q) by (nonlinear_arith);
        }
        lemma_odd_cancel((n - 1) as nat, s, d2);
        let t = d2 / q;
        assert(d2 == q * t) by { lemma_fundamental_div_mod(d2, q); }
        assert(d == p * t) by (nonlinear_arith) requires d == 2 * d2, d2 == q * t, p == 2 * q;
        lemma_mod_multiples_basic(t, p);
        assert(p * t == t * p) by (nonlinear_arith);
    }
}

spec fn probe_at(p0: int, s: int, j: int, size: int) -> int { (p0 + j * s) % size }

// the probe sequence is injective on [0, 2^n)
proof fn lemma_probe_injective(n: nat, p0: int, s: int, j1: int, j2: int)
  requires s % 2 == 1, 0 <= j1 < pow2(n), 0 <= j2 < pow2(n),
           probe_at(p0, s, j1, pow2(n) as int) == probe_at(p0, s, j2, pow2(n) as int)
  ensures j1 == j2
{
    let size = pow2(n) as int;
    lemma_pow2_pos(n);
    // (p0 + j1 s) - (p0 + j2 s) = (j1 - j2) s  is a multiple of size
    let a = p0 + j1 * s; let b = p0 + j2 * s;
    lemma_fundamental_div_mod(a, size);
    lemma_fundamental_div_mod(b, size);
    let d = j1 - j2;
    assert(a - b == d * s) by (nonlinear_arith) requires a == p0 + j1 * s, b == p0 + j2 * s, d == j1 - j2;
    let qa = a / size; let qb = b / size;
    assert(a - b == size * (qa - qb)) by (nonlinear_arith) requires a == size * qa + a % size, b == size * qb + b % size, a % size == b % size;
    lemma_mod_multiples_basic(qa - qb, size);
    assert(size * (qa - qb) == (qa - qb) * size) by (nonlinear_arith);
    assert((d * s) % size == 0);
    lemma_odd_cancel(n, s, d);
    // |d| < size and size | d  ==> d == 0
    lemma_fundamental_div_mod(d, size);
    let t = d / size;
    assert(d == size * t);
    assert(-size < d < size);
    if t == 0 { assert(size * t == 0) by (nonlinear_arith) requires t == 0; }
    if t >= 1 { assert(size * t >= size) by (nonlinear_arith) requires t >= 1, size > 0; }
    if t <= -1 { assert(size * t <= -size) by (nonlinear_arith) requires t <= -1, size > 0; }
}

// one step of the exec probe: (probe + stride) & mask  ==  probe_at(.., j+1)
proof fn lemma_probe_step(p0: int, s: int, j: int, size: int, cur: int)
  requires size > 0, cur == probe_at(p0, s, j, size)
  ensures (cur + s) % size == probe_at(p0, s, j + 1, size)
{
    let a = p0 + j * s;
    assert(p0 + (j + 1) * s == a + s) by (nonlinear_arith) requires a == p0 + j * s;
    lemma_add_mod_noop(a, s, size);
    lemma_add_mod_noop(a % size, s, size);
    lemma_mod_twice(a, size);
}

// pigeonhole: j distinct probe positions, all of them "occupied", and fewer than `size` occupied slots
// We keep a ghost set of visited positions.
proof fn lemma_visited_bound(visited: Set<int>, occupied: Set<int>, size: int)
  requires visited.subset_of(occupied)
  ensures visited.len() <= occupied.len()
{
    vstd::set_lib::lemma_len_subset(visited, occupied);
}
// the first m probe positions, as a set
spec fn probe_set(p0: int, s: int, m: nat, size: int) -> Set<int> decreases m {
    if m == 0 { Set::empty() } else { probe_set(p0, s, (m - 1) as nat, size).insert(probe_at(p0, s, m - 1, size)) }
}
proof fn lemma_probe_set(n: nat, p0: int, s: int, m: nat)
  requires s % 2 == 1, m <= pow2(n)
  ensures probe_set(p0, s, m, pow2(n) as int).finite(), probe_set(p0, s, m, pow2(n) as int).len() == m,
    forall|y: int| probe_set(p0, s, m, pow2(n) as int).contains(y) <==> exists|j: int| 0 <= j < m && y == probe_at(p0, s, j, pow2(n) as int),
    probe_set(p0, s, m, pow2(n) as int).subset_of(Set::range(0, pow2(n) as int)),
  decreases m
{
    let size = pow2(n) as int;
    lemma_pow2_pos(n);
    if m > 0 {
        let prev = probe_set(p0, s, (m - 1) as nat, size);
        lemma_probe_set(n, p0, s, (m - 1) as nat);
        let y = probe_at(p0, s, m - 1, size);
        if prev.contains(y) {
            let j = choose|j: int| 0 <= j < m - 1 && y == probe_at(p0, s, j, size);
            lemma_probe_injective(n, p0, s, j, m - 1);
        }
        lemma_mod_bound(p0 + (m - 1) * s, size);
        let cur = probe_set(p0, s, m, size);
        assert forall|z: int| cur.contains(z) <==> exists|j: int| 0 <= j < m && z == probe_at(p0, s, j, size) by {
            if cur.contains(z) { if z == y { assert(0 <= m - 1 < m); } else { let j = choose|j: int| 0 <= j < m - 1 && z == probe_at(p0, s, j, size); assert(0 <= j < m); } }
            if exists|j: int| 0 <= j < m && z == probe_at(p0, s, j, size) { let j = choose|j: int| 0 <= j < m && z == probe_at(p0, s, j, size); if j < m - 1 { assert(prev.contains(z)); } }
        }
    }
}
// every slot is hit (exactly once, by injectivity) in 2^n steps of an odd stride
proof fn lemma_probe_cover(n: nat, p0: int, s: int, i: int) -> (j: int)
  requires s % 2 == 1, 0 <= i < pow2(n)
  ensures 0 <= j < pow2(n), probe_at(p0, s, j, pow2(n) as int) == i
{
    let size = pow2(n) as int;
    lemma_probe_set(n, p0, s, pow2(n));
    let v = probe_set(p0, s, pow2(n), size);
    vstd::set_lib::lemma_int_range(0, size);
    vstd::set_lib::lemma_subset_equality(v, Set::range(0, size));
    assert(v.contains(i));
    choose|j: int| 0 <= j < pow2(n) && i == probe_at(p0, s, j, size)
}

// ================= the sketch by contract (view and invariant copied VERBATIM from contracts/cpc_update.rs) =================
#[derive(Clone)]
struct CpcSketch {
lg_k : u8 , seed : u64 , seed_hash : u16 , first_interesting_column : u8 , num_coupons : u32 , surprising_value_table : Option < PairTable > , window_offset : u8 , sliding_window : Vec < u8 > , merge_flag : bool , kxp : f64 , hip_est_accum : f64 , }




spec fn bit8(x: u8, c: int) -> bool { (x >> (c as u8)) & 1 == 1 }
spec fn dco(lg_k: u8, c: u32) -> int { let k = pow2(lg_k as nat) as int; if 8 * (c as int) < 19 * k { 0 } else { (8 * (c as int) - 19 * k) / (8 * k) } }
impl CpcSketch {
    spec fn k(&self) -> int { pow2(self.lg_k as nat) as int }
    // the abstract matrix M() as an element of the algebra
    spec fn am(&self) -> AM { AM { rows: self.k(), f: |r: int, c: int| self.mbit(r, c) } }
    spec fn tbl(&self) -> ISet<u32> { if self.surprising_value_table is Some { self.surprising_value_table->0.items() } else { ISet::empty() } }
    // the abstract bit matrix, as the paper defines it
    spec fn mbit(&self, row: int, col: int) -> bool {
        let off = self.window_offset as int;
        if self.sliding_window@.len() != 0 && off <= col < off + 8 { bit8(self.sliding_window@[row], col - off) }
        else if col < off { !self.tbl().contains(rc(row, col)) }
        else { self.tbl().contains(rc(row, col)) }
    }
    spec fn wf_matrix(&self) -> bool {
        &&& 4 <= self.lg_k <= 26
        &&& self.window_offset <= 56
        &&& (self.sliding_window@.len() == 0 || self.sliding_window@.len() == self.k())
        &&& self.num_coupons != 0 ==> self.surprising_value_table is Some && self.surprising_value_table->0.wf()
              && (forall|x: u32| #[trigger] self.tbl().contains(x) ==> (x >> 6) < self.k())
              && (self.sliding_window@.len() != 0 ==> forall|x: u32| self.tbl().contains(x) ==> !(self.window_offset <= (x & 63) < self.window_offset + 8))
        &&& self.num_coupons == 0 ==> self.window_offset == 0 && self.sliding_window@.len() == 0
              && (self.surprising_value_table is Some ==> self.tbl() =~= ISet::empty())
    }
    spec fn tbl_nvb_ok(&self) -> bool { self.surprising_value_table is Some && self.surprising_value_table->0.num_valid_bits == 6 + self.lg_k }
    spec fn windowed(&self) -> bool { self.sliding_window@.len() != 0 }
    spec fn fic_ok(&self) -> bool {
        &&& self.first_interesting_column <= self.window_offset
        &&& forall|r: int, c: int| 0 <= r < self.k() && 0 <= c < self.first_interesting_column ==> self.mbit(r, c)
    }
    spec fn thresholds(&self) -> bool {
        let c = self.num_coupons as int; let k = self.k(); let off = self.window_offset as int;
        &&& !self.windowed() ==> off == 0 && 32 * c < 3 * k
        &&& self.windowed() ==> 32 * c >= 3 * k && 8 * c < (27 + 8 * off) * k && (off > 0 ==> 8 * c >= (27 + 8 * (off - 1)) * k)
    }
    spec fn wf(&self) -> bool {
        &&& self.wf_matrix()
        &&& self.fic_ok()
        &&& self.thresholds()
        &&& self.num_coupons != 0 ==> self.tbl_nvb_ok()
        &&& self.num_coupons != 0 && !self.windowed() ==> self.surprising_value_table->0.num_items == self.num_coupons
    }
    // hash-dependent assumption (see cpc_update): fewer than 59.375 K coupons
    spec fn below_last_window(&self) -> bool { 8 * (self.num_coupons as int + 1) < (27 + 8 * 56) * self.k() }

    fn lg_k ( & self ) -> ( r : u8 ) ensures r == self . lg_k {
self . lg_k }



    fn is_empty ( & self ) -> ( r : bool ) ensures r == ( self . num_coupons == 0 ) {
self . num_coupons == 0 }



    fn flavor ( & self ) -> ( r : Flavor ) requires 4 <= self . lg_k <= 26 ensures r == flavor_spec ( self . lg_k , self . num_coupons ) {
determine_flavor ( self . lg_k , self . num_coupons ) }



    fn surprising_value_table ( & self ) -> ( r : & PairTable ) requires self . surprising_value_table is Some ensures * r == self . surprising_value_table -> 0 {
self . surprising_value_table . as_ref ( ) . expect ( "" ) }



    // opaque (seed hash, float kxp): a fresh EMPTY sketch
    #[verifier::external_body]
    fn with_seed(lg_k: u8, seed: u64) -> (r: Self)
      requires 4 <= lg_k <= 26
      ensures r.lg_k == lg_k, r.seed == seed, r.first_interesting_column == 0, r.num_coupons == 0, r.surprising_value_table is None,
        r.window_offset == 0, r.sliding_window@.len() == 0, r.merge_flag == false,
    { unimplemented!() }

    // real body; proof from contracts/cpc_core.rs, precondition weakened to wf_matrix() (an EMPTY sketch has no table: early return)
    fn build_bit_matrix ( & self ) -> ( matrix : Vec < u64 > ) requires self . wf_matrix ( ) , ensures matrix @ . len ( ) == self . k ( ) , forall | r : int , c : int | 0 <= r < self . k ( ) && 0 <= c < 64 ==> bit ( matrix @ [ r ] , c ) == self . mbit ( r , c ) , {
proof {
lemma_shl_us ( self . lg_k ) ;
}
let k = 1 << self . lg_k ;
let offset = self . window_offset ;
debug_assert! ( offset <= 56 ) ;
proof {
lemma_low_mask ( offset ) ;
}
let default_row = ( 1u64 << offset ) - 1 ;
let mut matrix = vec! [ default_row ;
k ] ;
if self . num_coupons == 0 {
proof {
assert forall | r : int , c : int | 0 <= r < self . k ( ) && 0 <= c < 64 implies bit ( matrix @ [ r ] , c ) == self . mbit ( r , c ) by {
lemma_low_mask_bit ( offset , c ) ;
}
}
return matrix ;
}
if ! self . sliding_window . is_empty ( ) {
for i in 0 .. k invariant matrix @ . len ( ) == k , k == self . k ( ) , self . sliding_window @ . len ( ) == k , offset <= 56 , offset == self . window_offset , forall | r : int | 0 <= r < i ==> matrix @ [ r ] == default_row | ( ( self . sliding_window @ [ r ] as u64 ) << offset ) , forall | r : int | i <= r < k ==> matrix @ [ r ] == default_row , {
matrix [ i ] |= ( self . sliding_window [ i ] as u64 ) << offset ;
}
}
let ghost win = self . sliding_window @ . len ( ) != 0 ;
let ghost sw = self . sliding_window @ ;
let ghost m0 = matrix @ ;
assert forall | r : int , c : int | 0 <= r < k && 0 <= c < 64 implies bit ( m0 [ r ] , c ) == ( if win && offset <= c < offset + 8 {
bit8 ( sw [ r ] , c - offset ) }
else {
c < offset }
) by {
lemma_low_mask_bit ( offset , c ) ;
if win {
lemma_window_bit ( default_row , sw [ r ] , offset , c ) ;
}
}
let vx_s2 = self . surprising_value_table ( ) . slots ( ) ;
let ghost sv = vx_s2 @ ;
let mut vx_i2 = 0 ;
while vx_i2 < vx_s2 . len ( ) invariant self . surprising_value_table is Some , matrix @ . len ( ) == k , k == self . k ( ) , vx_s2 @ == sv , sv == self . surprising_value_table -> 0 . slots @ , pdistinct ( sv ) , 0 <= vx_i2 <= sv . len ( ) , forall | x : u32 | # [ trigger ] self . tbl ( ) . contains ( x ) ==> ( x >> 6 ) < self . k ( ) , 4 <= self . lg_k <= 26 , forall | r : int , c : int | 0 <= r < k && 0 <= c < 64 ==> bit ( matrix @ [ r ] , c ) == ( bit ( m0 [ r ] , c ) != ( rc ( r , c ) != EMPTY && pholds ( sv . take ( vx_i2 as int ) , rc ( r , c ) ) ) ) , decreases sv . len ( ) - vx_i2 {
let row_col = vx_s2 [ vx_i2 ] ;
if row_col != u32 :: MAX {
let col = ( row_col & 63 ) as u8 ;
let row = ( row_col >> 6 ) as usize ;
proof {
lemma_rc ( row_col ) ;
assert ( pholds ( sv , row_col ) ) ;
assert ( self . tbl ( ) . contains ( row_col ) ) ;
}
let ghost mprev = matrix @ ;
matrix [ row ] ^= 1 << col ;
proof {
lemma_k26 ( self . lg_k ) ;
assert forall | r : int , c : int | 0 <= r < k && 0 <= c < 64 implies bit ( matrix @ [ r ] , c ) == ( bit ( m0 [ r ] , c ) != ( rc ( r , c ) != EMPTY && pholds ( sv . take ( vx_i2 + 1 ) , rc ( r , c ) ) ) ) by {
lemma_take_step ( sv , vx_i2 as int , rc ( r , c ) ) ;
lemma_rc_inj ( r , c , row as int , col as int ) ;
if r == row as int {
lemma_flip_bit ( mprev [ r ] , col , c ) ;
}
if rc ( r , c ) == row_col {
if pholds ( sv . take ( vx_i2 as int ) , row_col ) {
let b = sv . take ( vx_i2 as int ) ;
let t = choose | t : int | 0 <= t < b . len ( ) && b [ t ] == row_col ;
assert ( sv [ t ] == sv [ vx_i2 as int ] ) ;
}
}
}
}
}
else {
proof {
lemma_k26 ( self . lg_k ) ;
assert forall | r : int , c : int | 0 <= r < k && 0 <= c < 64 implies bit ( matrix @ [ r ] , c ) == ( bit ( m0 [ r ] , c ) != ( rc ( r , c ) != EMPTY && pholds ( sv . take ( vx_i2 + 1 ) , rc ( r , c ) ) ) ) by {
lemma_take_step ( sv , vx_i2 as int , rc ( r , c ) ) ;
}
}
}
vx_i2 += 1 ;
}
proof {
assert ( sv . take ( sv . len ( ) as int ) =~= sv ) ;
lemma_k26 ( self . lg_k ) ;
assert forall | r : int , c : int | 0 <= r < self . k ( ) && 0 <= c < 64 implies bit ( matrix @ [ r ] , c ) == self . mbit ( r , c ) by {
lemma_rc_inj ( r , c , r , c ) ;
if self . tbl ( ) . contains ( rc ( r , c ) ) {
assert ( pholds ( sv , rc ( r , c ) ) ) ;
}
}
}
matrix }


    fn seed ( & self ) -> ( r : u64 ) ensures r == self . seed {
self . seed }





    // opaque: contract copied VERBATIM from the one PROVED in contracts/cpc_update.rs (unit cpc_update)
    #[verifier::external_body]
    fn row_col_update(&mut self, row_col: u32)
      requires old(self).wf(), row_col != EMPTY, (row_col >> 6) < old(self).k(),
        old(self).windowed() ==> old(self).lg_k <= 18,
        old(self).below_last_window(),
      ensures
        final(self).wf(),
        final(self).lg_k == old(self).lg_k, final(self).merge_flag == old(self).merge_flag,
        forall|r: int, c: int| 0 <= r < old(self).k() && 0 <= c < 64 ==>
            final(self).mbit(r, c) == (old(self).mbit(r, c) || (r == (row_col >> 6) && c == (row_col & 63))),
        final(self).num_coupons == old(self).num_coupons + (if old(self).mbit((row_col >> 6) as int, (row_col & 63) as int) { 0u32 } else { 1u32 }),
        final(self).window_offset == dco(final(self).lg_k, final(self).num_coupons),
        final(self).windowed() <==> 32 * (final(self).num_coupons as int) >= 3 * final(self).k(),
    { unimplemented!() }
}

// R15 float leaf: the golden-ratio stride.  Assumed for every table size (a power of two >= 4): 2 <= floor(0.618 n) and floor(0.618 n) + 1 < n
#[verifier::external_body]
fn vx_golden_stride(num_slots: u32) -> (r: u32)
  ensures 4 <= num_slots ==> 2 <= r && r + 1 < num_slots
{ (0.6180339887498949 * (num_slots as f64)) as u32 }

spec fn tshape(t: PairTable) -> bool { 2 <= t.lg_size <= 26 && t.slots@.len() == pow2(t.lg_size as nat) }
spec fn fold_rc(x: u32, lg: u8) -> u32 { x & (((((1u64 << lg) - 1) as u64) << 6) | 63) as u32 }
// some pair among the first t probe positions lands on bit (r, c) of a matrix with `rows` rows
spec fn hit_upto(ss: Seq<u32>, rows: int, stride: int, t: int, r: int, c: int) -> bool {
    exists|u: int| 0 <= u < t && ss[#[trigger] probe_at(0, stride, u, ss.len() as int)] != EMPTY && hits(ss[probe_at(0, stride, u, ss.len() as int)], rows, r, c)
}

fn walk_table_updating_sketch ( sketch : & mut CpcSketch , table : & PairTable ) requires old ( sketch ) . wf ( ) , old ( sketch ) . lg_k <= 18 , table . wf ( ) , tshape ( * table ) , 8 * ( old ( sketch ) . num_coupons as int + table . num_items as int ) < ( 27 + 8 * 56 ) * old ( sketch ) . k ( ) , ensures final ( sketch ) . wf ( ) , final ( sketch ) . lg_k == old ( sketch ) . lg_k , final ( sketch ) . merge_flag == old ( sketch ) . merge_flag ,
/*@C06.walk.matrix*/ forall | r : int , c : int | 0 <= r < old ( sketch ) . k ( ) && 0 <= c < 64 ==> final ( sketch ) . mbit ( r , c ) == ( old ( sketch ) . mbit ( r , c ) || exists | x : u32 | table . items ( ) . contains ( x ) && # [ trigger ] hits ( x , old ( sketch ) . k ( ) , r , c ) ) , final ( sketch ) . num_coupons <= old ( sketch ) . num_coupons + table . num_items , {
assert! ( sketch . lg_k ( ) <= 26 ) ;
let slots = table . slots ( ) ;
let ghost ss = slots @ ;
let ghost lg = sketch . lg_k ;
let ghost tl = table . lg_size ;
let ghost kk = sketch . k ( ) ;
let ghost c0 = sketch . num_coupons as int ;
proof {
lemma_tbl_len ( tl ) ;
lemma_k26 ( lg ) ;
}
let num_slots = slots . len ( ) as u32 ;
proof {
lemma_dst_mask ( lg ) ;
}
let dst_mask = ( ( ( 1u64 << sketch . lg_k ( ) ) - 1 ) << 6 ) | 63 ;
let mut stride = vx_golden_stride ( num_slots ) ;
assert! ( stride >= 2 ) ;
proof {
let s0 = stride ;
assert ( s0 == ( ( s0 >> 1 ) << 1 ) <==> s0 % 2 == 0 ) by ( bit_vector ) ;
}
if stride == ( ( stride >> 1 ) << 1 ) {
stride += 1 ;
}
assert! ( ( stride >= 3 ) && ( stride < num_slots ) ) ;
let ghost n = num_slots as int ;
let ghost sd = stride as int ;
let ghost mut vis : Set < int > = Set :: empty ( ) ;
let mut k = 0 ;
for vx_u1 in 0 .. num_slots invariant sketch . wf ( ) , sketch . lg_k == lg , old ( sketch ) . lg_k == lg , 4 <= lg <= 18 , kk == pow2 ( lg as nat ) , 16 <= kk <= 0x400_0000 , sketch . merge_flag == old ( sketch ) . merge_flag , slots @ == ss , ss == table . slots @ , ss . len ( ) == n , n == pow2 ( tl as nat ) , 2 <= tl <= 26 , n <= 0x400_0000 , num_slots == n , stride == sd , sd % 2 == 1 , 3 <= sd < n , dst_mask == ( ( ( ( ( 1u64 << lg ) - 1 ) as u64 ) << 6 ) | 63 ) , k as int == ( if vx_u1 == 0 {
0 }
else {
probe_at ( 0 , sd , vx_u1 - 1 , n ) + sd }
) , k <= 2 * n , vis . finite ( ) , vis . subset_of ( pocc ( ss ) ) , forall | p : int | vis . contains ( p ) ==> exists | u : int | 0 <= u < vx_u1 && p == probe_at ( 0 , sd , u , n ) , sketch . num_coupons <= c0 + vis . len ( ) , table . num_items == pocc ( ss ) . len ( ) , c0 == old ( sketch ) . num_coupons , 8 * ( c0 + table . num_items as int ) < ( 27 + 8 * 56 ) * kk ,
/*@C06.walk.matrix*/ forall | r : int , c : int | 0 <= r < kk && 0 <= c < 64 ==> sketch . mbit ( r , c ) == ( old ( sketch ) . mbit ( r , c ) || hit_upto ( ss , kk , sd , vx_u1 as int , r , c ) ) , {
proof {
lemma_kmask ( k , tl ) ;
if vx_u1 == 0 {
lemma_small_mod ( 0nat , n as nat ) ;
assert ( probe_at ( 0 , sd , 0 , n ) == 0 ) ;
}
else {
lemma_probe_step ( 0 , sd , vx_u1 - 1 , n , probe_at ( 0 , sd , vx_u1 - 1 , n ) ) ;
}
lemma_mod_bound ( 0 + vx_u1 * sd , n ) ;
}
k &= num_slots - 1 ;
proof {
assert ( k as int == probe_at ( 0 , sd , vx_u1 as int , n ) ) ;
}
let row_col = slots [ k as usize ] ;
let ghost pre = * sketch ;
let ghost vis0 = vis ;
if row_col != u32 :: MAX {
proof {
lemma_fold ( row_col , lg ) ;
if vis . contains ( k as int ) {
let u = choose | u : int | 0 <= u < vx_u1 && k as int == probe_at ( 0 , sd , u , n ) ;
lemma_probe_injective ( tl as nat , 0 , sd , u , vx_u1 as int ) ;
}
vis = vis . insert ( k as int ) ;
assert ( pocc ( ss ) . contains ( k as int ) ) ;
vstd :: set_lib :: lemma_len_subset ( vis , pocc ( ss ) ) ;
}
sketch . row_col_update ( row_col & ( dst_mask as u32 ) ) ;
}
proof {
assert forall | p : int | vis . contains ( p ) implies exists | u : int | 0 <= u < vx_u1 + 1 && p == probe_at ( 0 , sd , u , n ) by {
if vis0 . contains ( p ) {
let u = choose | u : int | 0 <= u < vx_u1 && p == probe_at ( 0 , sd , u , n ) ;
assert ( 0 <= u < vx_u1 + 1 ) ;
}
else {
assert ( 0 <= vx_u1 < vx_u1 + 1 && p == probe_at ( 0 , sd , vx_u1 as int , n ) ) ;
}
}
assert forall | r : int , c : int | 0 <= r < kk && 0 <= c < 64 implies
/*@C06.walk.matrix*/ sketch . mbit ( r , c ) == ( old ( sketch ) . mbit ( r , c ) || hit_upto ( ss , kk , sd , vx_u1 + 1 , r , c ) ) by {
lemma_hit_upto_step ( ss , kk , sd , vx_u1 as int , r , c ) ;
if row_col != EMPTY {
lemma_fold ( row_col , lg ) ;
assert ( pre . mbit ( r , c ) == ( old ( sketch ) . mbit ( r , c ) || hit_upto ( ss , kk , sd , vx_u1 as int , r , c ) ) ) ;
}
}
}
k += stride ;
}
proof {
vstd :: set_lib :: lemma_len_subset ( vis , pocc ( ss ) ) ;
assert forall | r : int , c : int | 0 <= r < kk && 0 <= c < 64 implies hit_upto ( ss , kk , sd , n , r , c ) == ( exists | x : u32 | table . items ( ) . contains ( x ) && # [ trigger ] hits ( x , kk , r , c ) ) by {
if exists | x : u32 | table . items ( ) . contains ( x ) && # [ trigger ] hits ( x , kk , r , c ) {
let x = choose | x : u32 | table . items ( ) . contains ( x ) && # [ trigger ] hits ( x , kk , r , c ) ;
let i = choose | i : int | 0 <= i < ss . len ( ) && ss [ i ] == x ;
let j = lemma_probe_cover ( tl as nat , 0 , sd , i ) ;
assert ( ss [ probe_at ( 0 , sd , j , n ) ] != EMPTY && hits ( ss [ probe_at ( 0 , sd , j , n ) ] , kk , r , c ) ) ;
}
if hit_upto ( ss , kk , sd , n , r , c ) {
let u = choose | u : int | 0 <= u < n && ss [ # [ trigger ] probe_at ( 0 , sd , u , n ) ] != EMPTY && hits ( ss [ probe_at ( 0 , sd , u , n ) ] , kk , r , c ) ;
lemma_mod_bound ( 0 + u * sd , n ) ;
let x = ss [ probe_at ( 0 , sd , u , n ) ] ;
assert ( pholds ( ss , x ) ) ;
assert ( table . items ( ) . contains ( x ) && hits ( x , kk , r , c ) ) ;
}
}
}
}




proof fn lemma_hit_upto_step(ss: Seq<u32>, rows: int, sd: int, t: int, r: int, c: int)
  requires 0 <= t
  ensures hit_upto(ss, rows, sd, t + 1, r, c) == (hit_upto(ss, rows, sd, t, r, c)
      || (ss[probe_at(0, sd, t, ss.len() as int)] != EMPTY && hits(ss[probe_at(0, sd, t, ss.len() as int)], rows, r, c)))
{
    let n = ss.len() as int;
    if hit_upto(ss, rows, sd, t + 1, r, c) {
        let u = choose|u: int| 0 <= u < t + 1 && ss[#[trigger] probe_at(0, sd, u, n)] != EMPTY && hits(ss[probe_at(0, sd, u, n)], rows, r, c);
        if u < t { assert(hit_upto(ss, rows, sd, t, r, c)); }
    }
    if hit_upto(ss, rows, sd, t, r, c) {
        let u = choose|u: int| 0 <= u < t && ss[#[trigger] probe_at(0, sd, u, n)] != EMPTY && hits(ss[probe_at(0, sd, u, n)], rows, r, c);
        assert(0 <= u < t + 1);
    }
    if ss[probe_at(0, sd, t, n)] != EMPTY && hits(ss[probe_at(0, sd, t, n)], rows, r, c) { assert(0 <= t < t + 1); }
}
proof fn lemma_tbl_len(tl: u8) requires 2 <= tl <= 26 ensures 4 <= pow2(tl as nat) <= 0x400_0000 {
    lemma2_to64(); if tl < 26 { lemma_pow2_strictly_increases(tl as nat, 26); } if tl > 2 { lemma_pow2_strictly_increases(2, tl as nat); }
}
proof fn lemma_dst_mask(lg: u8) requires lg <= 26 ensures (1u64 << lg) >= 1, ((((1u64 << lg) - 1) as u64) << 6) <= 0xffff_ffc0u64 {
    assert(lg <= 26 ==> (1u64 << lg) >= 1 && ((((1u64 << lg) - 1) as u64) << 6) <= 0xffff_ffc0u64) by (bit_vector);
}
proof fn lemma_kmask(k: u32, tl: u8)
  requires 2 <= tl <= 26
  ensures (k & ((pow2(tl as nat) - 1) as u32)) == (k as int) % (pow2(tl as nat) as int)
{
    lemma_tbl_len(tl);
    vstd::bits::lemma_u32_low_bits_mask_is_mod(k, tl as nat);
    lemma_lbm(tl as nat);
}
proof fn lemma_k26(lg: u8) requires 4 <= lg <= 26 ensures 16 <= pow2(lg as nat) <= 0x400_0000 {
    lemma2_to64(); if lg < 26 { lemma_pow2_strictly_increases(lg as nat, 26); } if lg > 4 { lemma_pow2_strictly_increases(4, lg as nat); }
}
// folding a row_col into a 2^lg-row matrix keeps the column and reduces the row modulo 2^lg
proof fn lemma_fold(x: u32, lg: u8)
  requires 4 <= lg <= 26, x != EMPTY
  ensures (fold_rc(x, lg) >> 6) < pow2(lg as nat), fold_rc(x, lg) != EMPTY,
    fold_rc(x, lg) == x & ((((((1u64 << lg) - 1) as u64) << 6) | 63) as u32),
    forall|r: int, c: int| 0 <= r < pow2(lg as nat) && 0 <= c < 64 ==> ((r == (fold_rc(x, lg) >> 6) && c == (fold_rc(x, lg) & 63)) <==> #[trigger] hits(x, pow2(lg as nat) as int, r, c)),
{
    lemma2_to64(); lemma_k26(lg);
    vstd::bits::lemma_u64_shl_is_mul(1, lg as u64);
    assert((1u64 << (lg as u64)) == (1u64 << lg));
    let y = fold_rc(x, lg);
    let lo = (((1u64 << lg) - 1) as u64) as u32;
    assert(4 <= lg <= 26 && x != 0xffff_ffffu32 ==> (((x & ((((((1u64 << lg) - 1) as u64) << 6) | 63) as u32)) >> 6) as u64) < (1u64 << lg)
        && (x & ((((((1u64 << lg) - 1) as u64) << 6) | 63) as u32)) != 0xffff_ffffu32
        && ((x & ((((((1u64 << lg) - 1) as u64) << 6) | 63) as u32)) & 63) == (x & 63)
        && ((x & ((((((1u64 << lg) - 1) as u64) << 6) | 63) as u32)) >> 6) == ((x >> 6) & ((((1u64 << lg) - 1) as u64) as u32))) by (bit_vector);
    vstd::bits::lemma_u32_low_bits_mask_is_mod(x >> 6, lg as nat);
    lemma_lbm(lg as nat);
    assert(lo == (pow2(lg as nat) - 1) as u32);
    assert((y >> 6) == (x >> 6) % (pow2(lg as nat) as u32));
}

// ================= CpcUnion::reduce_k: the union state folded to a smaller lg_k =================
#[derive(PartialEq, Eq, PartialOrd, Clone, Copy, Structural)]
enum Flavor {
Empty , Sparse , Hybrid , Pinned , Sliding , }



// flavor_spec and the contract of determine_flavor: copied VERBATIM from contracts/cpc_update.rs, where the body is verified
spec fn flavor_spec(lg_k: u8, c: u32) -> Flavor {
    let k = pow2(lg_k as nat) as int; let c = c as int;
    if c == 0 { Flavor::Empty } else if 32 * c < 3 * k { Flavor::Sparse } else if 2 * c < k { Flavor::Hybrid } else if 8 * c < 27 * k { Flavor::Pinned } else { Flavor::Sliding }
}
#[verifier::external_body]
fn determine_flavor(lg_k: u8, num_coupons: u32) -> (r: Flavor)
  requires 4 <= lg_k <= 26
  ensures r == flavor_spec(lg_k, num_coupons)
{ unimplemented!() }


// R15 leaves of CpcUnion::update -------------------------------------------------------------------------------------------
// `flavor > Flavor::Sparse`: the derived PartialOrd of a fieldless enum compares declaration order
spec fn frank(f: Flavor) -> int { match f { Flavor::Empty => 0, Flavor::Sparse => 1, Flavor::Hybrid => 2, Flavor::Pinned => 3, Flavor::Sliding => 4 } }
#[verifier::external_body]
fn vx_flavor_gt(a: Flavor, b: Flavor) -> (r: bool) ensures r == (frank(a) > frank(b)) { a > b }
// `sketch.clone()`: the derived Clone of a plain-data struct returns an equal value
#[verifier::external_body]
fn vx_sketch_clone(s: &CpcSketch) -> (r: CpcSketch) ensures r == *s { s.clone() }

// ================= C06: the abstract algebra of bit matrices (rows x 64 predicates) =================
ghost struct AM { rows: int, f: spec_fn(int, int) -> bool }
spec fn am_get(a: AM, i: int, c: int) -> bool { (a.f)(i, c) }
spec fn am_eq(a: AM, b: AM) -> bool { a.rows == b.rows && forall|i: int, c: int| 0 <= i < a.rows && 0 <= c < 64 ==> #[trigger] am_get(a, i, c) == am_get(b, i, c) }
spec fn am_or(a: AM, b: AM) -> AM { AM { rows: a.rows, f: |i: int, c: int| am_get(a, i, c) || am_get(b, i, c) } }
// foldrows: bit (i, c) of the folded matrix is the OR of the source bits (r, c) with r = i (mod rows)
spec fn am_fold_at(a: AM, rows: int, i: int, c: int) -> bool { exists|r: int| 0 <= r < a.rows && r % rows == i && #[trigger] am_get(a, r, c) }
spec fn am_fold(a: AM, rows: int) -> AM { AM { rows: rows, f: |i: int, c: int| am_fold_at(a, rows, i, c) } }
spec fn imin(a: int, b: int) -> int { if a <= b { a } else { b } }
// what one CpcUnion::update does to the abstract matrix of the union
spec fn am_upd(u: AM, s: AM) -> AM { let n = imin(u.rows, s.rows); am_or(am_fold(u, n), am_fold(s, n)) }

proof fn lemma_am_eq_refl(a: AM) ensures /*@C06.algebra*/ am_eq(a, a) { }
proof fn lemma_am_eq_sym(a: AM, b: AM) requires am_eq(a, b) ensures /*@C06.algebra*/ am_eq(b, a) { }
proof fn lemma_am_eq_trans(a: AM, b: AM, c: AM) requires am_eq(a, b), am_eq(b, c) ensures /*@C06.algebra*/ am_eq(a, c) {
    assert forall|i: int, j: int| 0 <= i < a.rows && 0 <= j < 64 implies #[trigger] am_get(a, i, j) == am_get(c, i, j) by { assert(am_get(a, i, j) == am_get(b, i, j)); }
}
proof fn lemma_or_comm(a: AM, b: AM) requires a.rows == b.rows ensures /*@C06.algebra*/ am_eq(am_or(a, b), am_or(b, a)) { }
proof fn lemma_or_assoc_am(a: AM, b: AM, c: AM) requires a.rows == b.rows, b.rows == c.rows ensures /*@C06.algebra*/ am_eq(am_or(am_or(a, b), c), am_or(a, am_or(b, c))) { }
proof fn lemma_or_idem(a: AM) ensures /*@C06.algebra*/ am_eq(am_or(a, a), a) { }
// OR respects equality of matrices
proof fn lemma_or_cong(a: AM, a2: AM, b: AM, b2: AM) requires am_eq(a, a2), am_eq(b, b2), a.rows == b.rows ensures /*@C06.algebra*/ am_eq(am_or(a, b), am_or(a2, b2)) {
    assert forall|i: int, j: int| 0 <= i < a.rows && 0 <= j < 64 implies #[trigger] am_get(am_or(a, b), i, j) == am_get(am_or(a2, b2), i, j) by {
        assert(am_get(a, i, j) == am_get(a2, i, j)); assert(am_get(b, i, j) == am_get(b2, i, j));
    }
}
// foldrows respects equality of matrices
proof fn lemma_fold_cong(a: AM, a2: AM, n: int) requires am_eq(a, a2) ensures /*@C06.algebra*/ am_eq(am_fold(a, n), am_fold(a2, n)) {
    assert forall|i: int, j: int| 0 <= i < n && 0 <= j < 64 implies #[trigger] am_get(am_fold(a, n), i, j) == am_get(am_fold(a2, n), i, j) by {
        if am_fold_at(a, n, i, j) { let r = choose|r: int| 0 <= r < a.rows && r % n == i && #[trigger] am_get(a, r, j); assert(am_get(a2, r, j)); }
        if am_fold_at(a2, n, i, j) { let r = choose|r: int| 0 <= r < a2.rows && r % n == i && #[trigger] am_get(a2, r, j); assert(am_get(a, r, j)); }
    }
}
// foldrows distributes over OR
proof fn lemma_fold_or(a: AM, b: AM, n: int) requires a.rows == b.rows ensures /*@C06.algebra*/ am_eq(am_fold(am_or(a, b), n), am_or(am_fold(a, n), am_fold(b, n))) {
    let ab = am_or(a, b);
    assert forall|i: int, j: int| 0 <= i < n && 0 <= j < 64 implies #[trigger] am_get(am_fold(ab, n), i, j) == am_get(am_or(am_fold(a, n), am_fold(b, n)), i, j) by {
        if am_fold_at(ab, n, i, j) {
            let r = choose|r: int| 0 <= r < ab.rows && r % n == i && #[trigger] am_get(ab, r, j);
            if am_get(a, r, j) { assert(am_fold_at(a, n, i, j)); } else { assert(am_get(b, r, j)); assert(am_fold_at(b, n, i, j)); }
        }
        if am_fold_at(a, n, i, j) { let r = choose|r: int| 0 <= r < a.rows && r % n == i && #[trigger] am_get(a, r, j); assert(am_get(ab, r, j)); }
        if am_fold_at(b, n, i, j) { let r = choose|r: int| 0 <= r < b.rows && r % n == i && #[trigger] am_get(b, r, j); assert(am_get(ab, r, j)); }
    }
}
// folding to the own number of rows is the identity
proof fn lemma_fold_id(a: AM) requires a.rows > 0 ensures /*@C06.algebra*/ am_eq(am_fold(a, a.rows), a) {
    assert forall|i: int, j: int| 0 <= i < a.rows && 0 <= j < 64 implies #[trigger] am_get(am_fold(a, a.rows), i, j) == am_get(a, i, j) by { lemma_fold_id_at(a, i, j); }
}
proof fn lemma_fold_id_at(a: AM, i: int, j: int) requires a.rows > 0, 0 <= i < a.rows ensures am_fold_at(a, a.rows, i, j) == am_get(a, i, j) {
    if am_fold_at(a, a.rows, i, j) { let r = choose|r: int| 0 <= r < a.rows && r % a.rows == i && #[trigger] am_get(a, r, j); lemma_small_mod(r as nat, a.rows as nat); }
    if am_get(a, i, j) { lemma_small_mod(i as nat, a.rows as nat); }
}
// folding twice is folding once (row counts are powers of two, so the smaller divides the larger)
proof fn lemma_fold_fold(a: AM, n1: int, n2: int, d: int) requires n2 > 0, d > 0, n1 == n2 * d, a.rows > 0 ensures /*@C06.algebra*/ am_eq(am_fold(am_fold(a, n1), n2), am_fold(a, n2)) {
    let f1 = am_fold(a, n1);
    assert(n1 > 0) by (nonlinear_arith) requires n2 > 0, d > 0, n1 == n2 * d;
    assert forall|i: int, j: int| 0 <= i < n2 && 0 <= j < 64 implies #[trigger] am_get(am_fold(f1, n2), i, j) == am_get(am_fold(a, n2), i, j) by {
        if am_fold_at(f1, n2, i, j) {
            let m = choose|m: int| 0 <= m < f1.rows && m % n2 == i && #[trigger] am_get(f1, m, j);
            assert(am_fold_at(a, n1, m, j));
            let r = choose|r: int| 0 <= r < a.rows && r % n1 == m && #[trigger] am_get(a, r, j);
            lemma_mod_mod(r, n2, d);
            assert(r % n2 == i);
            assert(am_fold_at(a, n2, i, j));
        }
        if am_fold_at(a, n2, i, j) {
            let r = choose|r: int| 0 <= r < a.rows && r % n2 == i && #[trigger] am_get(a, r, j);
            let m = r % n1;
            lemma_mod_bound(r, n1);
            lemma_mod_mod(r, n2, d);
            assert(am_fold_at(a, n1, m, j));
            assert(am_get(f1, m, j));
            assert(am_fold_at(f1, n2, i, j));
        }
    }
}


// ---- order / repetition independence of CpcUnion::update over the algebra (row counts are powers of two) ----
proof fn lemma_upd_cong(u: AM, u2: AM, s: AM) requires am_eq(u, u2) ensures /*@C06.algebra*/ am_eq(am_upd(u, s), am_upd(u2, s)) {
    let n = imin(u.rows, s.rows);
    lemma_fold_cong(u, u2, n);
    lemma_am_eq_refl(am_fold(s, n));
    lemma_or_cong(am_fold(u, n), am_fold(u2, n), am_fold(s, n), am_fold(s, n));
}
proof fn lemma_pow2_min_divides(a: nat, b: nat) -> (d: int)
  requires b <= a
  ensures d > 0, pow2(a) == pow2(b) * d, pow2(b) > 0
{
    lemma_pow2_adds(b, (a - b) as nat); lemma_pow2_pos((a - b) as nat); lemma_pow2_pos(b);
    pow2((a - b) as nat) as int
}
spec fn nmin(a: nat, b: nat) -> nat { if a <= b { a } else { b } }
proof fn lemma_pow2_imin(a: nat, b: nat) ensures pow2(nmin(a, b)) == imin(pow2(a) as int, pow2(b) as int), pow2(a) > 0 {
    if a < b { lemma_pow2_strictly_increases(a, b); }
    if b < a { lemma_pow2_strictly_increases(b, a); }
    lemma_pow2_pos(a);
}
// two updates in normal form: everything folded to the smallest row count and ORed
proof fn lemma_upd2_nf(u: AM, s1: AM, s2: AM, a: nat, b: nat, c: nat, i: int, j: int)
  requires u.rows == pow2(a), s1.rows == pow2(b), s2.rows == pow2(c), 0 <= i < pow2(nmin(nmin(a, b), c)), 0 <= j < 64
  ensures am_upd(am_upd(u, s1), s2).rows == pow2(nmin(nmin(a, b), c)),
    am_get(am_upd(am_upd(u, s1), s2), i, j) == (am_fold_at(u, pow2(nmin(nmin(a, b), c)) as int, i, j) || am_fold_at(s1, pow2(nmin(nmin(a, b), c)) as int, i, j) || am_fold_at(s2, pow2(nmin(nmin(a, b), c)) as int, i, j))
{
    let n = pow2(nmin(a, b)) as int; let m = pow2(nmin(nmin(a, b), c)) as int;
    lemma_pow2_imin(a, b); lemma_pow2_imin(nmin(a, b), c); lemma_pow2_pos(b); lemma_pow2_pos(c);
    let v = am_upd(u, s1);
    assert(v.rows == n);
    let d = lemma_pow2_min_divides(nmin(a, b), nmin(nmin(a, b), c));
    lemma_fold_or(am_fold(u, n), am_fold(s1, n), m);
    lemma_fold_fold(u, n, m, d);
    lemma_fold_fold(s1, n, m, d);
    assert(am_get(am_fold(v, m), i, j) == am_get(am_or(am_fold(am_fold(u, n), m), am_fold(am_fold(s1, n), m)), i, j));
    assert(am_get(am_fold(am_fold(u, n), m), i, j) == am_get(am_fold(u, m), i, j));
    assert(am_get(am_fold(am_fold(s1, n), m), i, j) == am_get(am_fold(s1, m), i, j));
}
// updating with s1 then s2 gives the same matrix as s2 then s1
proof fn lemma_upd_order(u: AM, s1: AM, s2: AM, a: nat, b: nat, c: nat)
  requires u.rows == pow2(a), s1.rows == pow2(b), s2.rows == pow2(c)
  ensures /*@C06.algebra*/ am_eq(am_upd(am_upd(u, s1), s2), am_upd(am_upd(u, s2), s1))
{
    let l = am_upd(am_upd(u, s1), s2); let r = am_upd(am_upd(u, s2), s1);
    assert(nmin(nmin(a, b), c) == nmin(nmin(a, c), b));
    lemma_pow2_pos(nmin(nmin(a, b), c));
    if pow2(nmin(nmin(a, b), c)) > 0 { lemma_upd2_nf(u, s1, s2, a, b, c, 0, 0); lemma_upd2_nf(u, s2, s1, a, c, b, 0, 0); }
    assert forall|i: int, j: int| 0 <= i < l.rows && 0 <= j < 64 implies #[trigger] am_get(l, i, j) == am_get(r, i, j) by {
        lemma_upd2_nf(u, s1, s2, a, b, c, i, j); lemma_upd2_nf(u, s2, s1, a, c, b, i, j);
    }
}
// updating twice with the same sketch changes nothing
proof fn lemma_upd_repeat(u: AM, s: AM, a: nat, b: nat)
  requires u.rows == pow2(a), s.rows == pow2(b)
  ensures /*@C06.algebra*/ am_eq(am_upd(am_upd(u, s), s), am_upd(u, s))
{
    let l = am_upd(am_upd(u, s), s); let r = am_upd(u, s);
    assert(nmin(nmin(a, b), b) == nmin(a, b));
    lemma_pow2_imin(a, b); lemma_pow2_pos(b);
    lemma_upd2_nf(u, s, s, a, b, b, 0, 0);
    assert forall|i: int, j: int| 0 <= i < l.rows && 0 <= j < 64 implies #[trigger] am_get(l, i, j) == am_get(r, i, j) by {
        lemma_upd2_nf(u, s, s, a, b, b, i, j);
    }
}

// number of coupons held by an accumulator (0 for the bit-matrix representation)
spec fn acc_count(u: CpcUnion) -> int { match u.state { UnionState::Accumulator(a) => a.num_coupons as int, UnionState::BitMatrix(m) => 0 } }

enum UnionState {
Accumulator ( CpcSketch ) , BitMatrix ( Vec < u64 > ) , }



struct CpcUnion {
lg_k : u8 , seed : u64 , state : UnionState , }



// R12b: a DOCUMENTED panic ("# Panics: if the seed of the provided sketch does not match the seed of this union") is modelled as 'returns
// only if the condition holds': the condition is a tagged POSTCONDITION (`*_validated`) instead of a precondition, so weakening or
// removing the check is noticed.  Body = the original statement.
#[verifier::external_body] fn vx_documented_panic(c: bool) ensures c { assert!(c); }

impl CpcUnion {
    spec fn k(&self) -> int { pow2(self.lg_k as nat) as int }
    // the abstract k x 64 matrix of the union, whichever representation holds it
    spec fn ubit(&self, r: int, c: int) -> bool {
        match self.state { UnionState::Accumulator(s) => s.mbit(r, c), UnionState::BitMatrix(m) => bit(m@[r], c) }
    }
    spec fn uwf(&self) -> bool {
        &&& 4 <= self.lg_k <= 26
        &&& match self.state {
              UnionState::Accumulator(s) => s.wf() && s.lg_k == self.lg_k && !s.windowed(),
              UnionState::BitMatrix(m) => m@.len() == self.k(),
            }
    }
    // the abstract matrix of the union as an element of the algebra
    spec fn um(&self) -> AM { AM { rows: self.k(), f: |r: int, c: int| self.ubit(r, c) } }
    // what update needs beyond uwf / wf (all of it inherited from the callees' proved contracts)
    spec fn upd_pre(&self, s: CpcSketch) -> bool {
        let lg = if s.lg_k < self.lg_k { s.lg_k } else { self.lg_k };
        &&& s.lg_k < self.lg_k ==> self.acc_reducible(s.lg_k)
        &&& match self.state {
              // Case A walks the source table into the accumulator: lg_k <= 18 (row_col_update), table shape (PairTable invariant),
              // and the hash-dependent bound "the accumulator stays below 59.375 K coupons"
              UnionState::Accumulator(a) => flavor_spec(s.lg_k, s.num_coupons) == Flavor::Sparse ==> lg <= 18 && tshape(s.surprising_value_table->0)
                    && 8 * (a.num_coupons as int + s.num_coupons as int) < (27 + 8 * 56) * pow2(lg as nat),
              UnionState::BitMatrix(m) => true,
            }
    }
    // what reduce_k needs of an accumulator beyond uwf
    spec fn acc_reducible(&self, new_lg_k: u8) -> bool {
        match self.state {
            UnionState::Accumulator(s) => new_lg_k <= 18     // inherited from row_col_update (move_window's proved contract)
                && (s.num_coupons != 0 ==> tshape(s.surprising_value_table->0))   // part of PairTable's invariant in unit cpc_pairtable (pshape), not exported by the by-contract wf()
                && 8 * (s.num_coupons as int) < (27 + 8 * 56) * pow2(new_lg_k as nat),   // hash-dependent: the folded sketch stays below 59.375 K coupons
            UnionState::BitMatrix(m) => true,
        }
    }

    fn update ( & mut self , sketch : & CpcSketch ) requires old ( self ) . uwf ( ) , sketch . wf ( ) , old ( self ) . upd_pre ( * sketch ) , ensures
/*@C06.update.seed_validated*/ old ( self ) . seed == sketch . seed ,
/*@C06.update.wf*/ final ( self ) . uwf ( ) , final ( self ) . seed == old ( self ) . seed ,
/*@C06.update.empty*/ sketch . num_coupons == 0 ==> * final ( self ) == * old ( self ) ,
/*@C06.update.lg_k*/ sketch . num_coupons != 0 ==> final ( self ) . lg_k == ( if sketch . lg_k < old ( self ) . lg_k {
sketch . lg_k }
else {
old ( self ) . lg_k }
) ,
/*@C06.update.matrix*/ sketch . num_coupons != 0 ==> am_eq ( final ( self ) . um ( ) , am_upd ( old ( self ) . um ( ) , sketch . am ( ) ) ) , {
let ghost u0 = * self ;
let ghost s = * sketch ;
let ghost lgn = if s . lg_k < u0 . lg_k {
s . lg_k }
else {
u0 . lg_k }
;
let ghost kn = pow2 ( lgn as nat ) as int ;
proof {
lemma_k26 ( self . lg_k ) ;
lemma_k26 ( sketch . lg_k ) ;
lemma_k26 ( lgn ) ;
lemma_kmin ( u0 . lg_k , s . lg_k ) ;
}
vx_documented_panic ( self . seed == sketch . seed ( ) ) ;
assert ( /*@C06.update.seed_validated*/ self . seed == sketch . seed ) ;
let flavor = sketch . flavor ( ) ;
if flavor == Flavor :: Empty {
return ;
}
if sketch . lg_k ( ) < self . lg_k {
self . reduce_k ( sketch . lg_k ( ) ) ;
}
let ghost u1 = * self ;
proof {
assert forall | i : int , c : int | 0 <= i < kn && 0 <= c < 64 implies u1 . ubit ( i , c ) == am_fold_at ( u0 . um ( ) , kn , i , c ) by {
if s . lg_k < u0 . lg_k {
lemma_fold_bridge ( u0 , kn , i , c ) ;
}
else {
lemma_fold_id_at ( u0 . um ( ) , i , c ) ;
}
}
lemma_s_facts ( s ) ;
}
if vx_flavor_gt ( flavor , Flavor :: Sparse ) {
if let UnionState :: Accumulator ( old_sketch ) = & self . state {
let bit_matrix = old_sketch . build_bit_matrix ( ) ;
self . state = UnionState :: BitMatrix ( bit_matrix ) ;
}
}
let ghost u2 = * self ;
proof {
assert forall | i : int , c : int | 0 <= i < kn && 0 <= c < 64 implies u2 . ubit ( i , c ) == u1 . ubit ( i , c ) by {
}
}
match & mut self . state {
UnionState :: Accumulator ( old_sketch ) => {
let ghost a0 = * old_sketch ;
if flavor == Flavor :: Sparse {
let old_flavor = old_sketch . flavor ( ) ;
if old_flavor != Flavor :: Sparse && old_flavor != Flavor :: Empty {
unreachable! ( ) ;
}
if old_flavor == Flavor :: Empty && self . lg_k == sketch . lg_k ( ) {
* old_sketch = vx_sketch_clone ( sketch ) ;
proof {
assert forall | i : int , c : int | 0 <= i < kn && 0 <= c < 64 implies
/*@C06.update.matrix*/ self . ubit ( i , c ) == ( am_fold_at ( u0 . um ( ) , kn , i , c ) || am_fold_at ( s . am ( ) , kn , i , c ) ) by {
assert ( ! a0 . mbit ( i , c ) ) ;
assert ( a0 . mbit ( i , c ) == u1 . ubit ( i , c ) ) ;
assert ( s . am ( ) . rows == kn ) ;
lemma_fold_id_at ( s . am ( ) , i , c ) ;
assert ( am_get ( s . am ( ) , i , c ) == s . mbit ( i , c ) ) ;
assert ( self . ubit ( i , c ) == s . mbit ( i , c ) ) ;
}
lemma_upd_wrap ( * self , u0 , s , kn ) ;
}
return ;
}
walk_table_updating_sketch ( old_sketch , sketch . surprising_value_table ( ) ) ;
let final_flavor = old_sketch . flavor ( ) ;
let ghost a1 = * old_sketch ;
if vx_flavor_gt ( final_flavor , Flavor :: Sparse ) {
let bit_matrix = old_sketch . build_bit_matrix ( ) ;
self . state = UnionState :: BitMatrix ( bit_matrix ) ;
}
proof {
assert forall | i : int , c : int | 0 <= i < kn && 0 <= c < 64 implies
/*@C06.update.matrix*/ self . ubit ( i , c ) == ( am_fold_at ( u0 . um ( ) , kn , i , c ) || am_fold_at ( s . am ( ) , kn , i , c ) ) by {
assert ( self . ubit ( i , c ) == a1 . mbit ( i , c ) ) ;
assert ( a0 . mbit ( i , c ) == u1 . ubit ( i , c ) ) ;
lemma_sparse_fold ( s , kn , i , c ) ;
}
lemma_upd_wrap ( * self , u0 , s , kn ) ;
}
return ;
}
unreachable! ( ) ;
}
UnionState :: BitMatrix ( old_matrix ) => {
let ghost m0 = old_matrix @ ;
if flavor == Flavor :: Sparse {
or_table_into_matrix ( old_matrix , self . lg_k , sketch . surprising_value_table ( ) ) ;
proof {
assert forall | i : int , c : int | 0 <= i < kn && 0 <= c < 64 implies
/*@C06.update.matrix*/ self . ubit ( i , c ) == ( am_fold_at ( u0 . um ( ) , kn , i , c ) || am_fold_at ( s . am ( ) , kn , i , c ) ) by {
assert ( bit ( m0 [ i ] , c ) == u1 . ubit ( i , c ) ) ;
lemma_sparse_fold ( s , kn , i , c ) ;
}
lemma_upd_wrap ( * self , u0 , s , kn ) ;
}
return ;
}
if matches! ( flavor , Flavor :: Hybrid | Flavor :: Pinned ) {
proof {
lemma_offset0 ( s ) ;
}
or_window_into_matrix ( old_matrix , self . lg_k , & sketch . sliding_window , sketch . window_offset , sketch . lg_k ( ) , ) ;
let ghost m1 = old_matrix @ ;
or_table_into_matrix ( old_matrix , self . lg_k , sketch . surprising_value_table ( ) ) ;
proof {
assert forall | i : int , c : int | 0 <= i < kn && 0 <= c < 64 implies
/*@C06.update.matrix*/ self . ubit ( i , c ) == ( am_fold_at ( u0 . um ( ) , kn , i , c ) || am_fold_at ( s . am ( ) , kn , i , c ) ) by {
assert ( bit ( m0 [ i ] , c ) == u1 . ubit ( i , c ) ) ;
let wm = win_rows ( s . sliding_window @ , s . window_offset ) ;
lemma_or_bit ( m0 [ i ] , fold_prefix ( wm , kn , i , s . k ( ) ) , c ) ;
lemma_fold_bit ( wm , kn , i , s . k ( ) , c ) ;
lemma_win0_fold ( s , kn , i , c ) ;
}
lemma_upd_wrap ( * self , u0 , s , kn ) ;
}
return ;
}
assert! ( flavor == Flavor :: Sliding ) ;
let src_matrix = sketch . build_bit_matrix ( ) ;
or_matrix_into_matrix ( old_matrix , self . lg_k , & src_matrix , sketch . lg_k ( ) ) ;
proof {
assert forall | i : int , c : int | 0 <= i < kn && 0 <= c < 64 implies
/*@C06.update.matrix*/ self . ubit ( i , c ) == ( am_fold_at ( u0 . um ( ) , kn , i , c ) || am_fold_at ( s . am ( ) , kn , i , c ) ) by {
assert ( bit ( m0 [ i ] , c ) == u1 . ubit ( i , c ) ) ;
lemma_or_bit ( m0 [ i ] , fold_prefix ( src_matrix @ , kn , i , s . k ( ) ) , c ) ;
lemma_fold_bit ( src_matrix @ , kn , i , s . k ( ) , c ) ;
lemma_mat_fold ( s , src_matrix @ , kn , i , c ) ;
}
lemma_upd_wrap ( * self , u0 , s , kn ) ;
}
}
}
}


    fn reduce_k ( & mut self , new_lg_k : u8 ) requires old ( self ) . uwf ( ) , 4 <= new_lg_k < old ( self ) . lg_k , old ( self ) . acc_reducible ( new_lg_k ) , ensures final ( self ) . uwf ( ) , final ( self ) . lg_k == new_lg_k , final ( self ) . seed == old ( self ) . seed , acc_count ( * final ( self ) ) <= acc_count ( * old ( self ) ) ,
/*@C06.reduce_k.fold*/ forall | i : int , c : int | 0 <= i < final ( self ) . k ( ) && 0 <= c < 64 ==> final ( self ) . ubit ( i , c ) == ( exists | r : int | 0 <= r < old ( self ) . k ( ) && r % final ( self ) . k ( ) == i && # [ trigger ] old ( self ) . ubit ( r , c ) ) , {
let ghost k0 = self . k ( ) ;
let ghost k1 = pow2 ( new_lg_k as nat ) as int ;
proof {
lemma_k26 ( self . lg_k ) ;
lemma_k26 ( new_lg_k ) ;
lemma_shl_us ( new_lg_k ) ;
}
match & mut self . state {
UnionState :: Accumulator ( sketch ) => {
let ghost s0 = * sketch ;
if sketch . is_empty ( ) {
self . lg_k = new_lg_k ;
self . state = UnionState :: Accumulator ( CpcSketch :: with_seed ( new_lg_k , self . seed ) ) ;
return ;
}
let mut new_sketch = CpcSketch :: with_seed ( new_lg_k , self . seed ) ;
let ghost e = new_sketch ;
proof {
assert ( s0 . surprising_value_table -> 0 . num_items == s0 . num_coupons ) ;
}
walk_table_updating_sketch ( & mut new_sketch , sketch . surprising_value_table ( ) ) ;
let final_new_flavor = new_sketch . flavor ( ) ;
proof {
lemma_occupied ( s0 . surprising_value_table -> 0 ) ;
let x = choose | x : u32 | s0 . surprising_value_table -> 0 . items ( ) . contains ( x ) ;
lemma_row_col_us ( x ) ;
let i = ( ( x >> 6 ) as int ) % k1 ;
let c = ( x & 63 ) as int ;
lemma_mod_bound ( ( x >> 6 ) as int , k1 ) ;
assert ( hits ( x , k1 , i , c ) ) ;
assert ( new_sketch . mbit ( i , c ) ) ;
lemma_rc_parts ( i , c ) ;
}
assert! ( final_new_flavor != Flavor :: Empty ) ;
proof {
assert forall | i : int , c : int | 0 <= i < k1 && 0 <= c < 64 implies
/*@C06.reduce_k.fold*/ new_sketch . mbit ( i , c ) == ( exists | r : int | 0 <= r < k0 && r % k1 == i && # [ trigger ] old ( self ) . ubit ( r , c ) ) by {
assert ( forall | r : int | old ( self ) . ubit ( r , c ) == s0 . mbit ( r , c ) ) ;
assert ( ! e . mbit ( i , c ) ) ;
if exists | x : u32 | s0 . tbl ( ) . contains ( x ) && # [ trigger ] hits ( x , k1 , i , c ) {
let x = choose | x : u32 | s0 . tbl ( ) . contains ( x ) && # [ trigger ] hits ( x , k1 , i , c ) ;
lemma_rc_compose ( x ) ;
lemma_row_col_us ( x ) ;
let r = ( x >> 6 ) as int ;
assert ( 0 <= r < k0 && r % k1 == i && old ( self ) . ubit ( r , c ) ) ;
}
if exists | r : int | 0 <= r < k0 && r % k1 == i && # [ trigger ] old ( self ) . ubit ( r , c ) {
let r = choose | r : int | 0 <= r < k0 && r % k1 == i && # [ trigger ] old ( self ) . ubit ( r , c ) ;
lemma_rc_parts ( r , c ) ;
assert ( s0 . tbl ( ) . contains ( rc ( r , c ) ) && hits ( rc ( r , c ) , k1 , i , c ) ) ;
}
}
}
if final_new_flavor == Flavor :: Sparse {
self . lg_k = new_lg_k ;
self . state = UnionState :: Accumulator ( new_sketch ) ;
return ;
}
self . lg_k = new_lg_k ;
self . state = UnionState :: BitMatrix ( new_sketch . build_bit_matrix ( ) ) ;
proof {
assert forall | i : int , c : int | 0 <= i < k1 && 0 <= c < 64 implies
/*@C06.reduce_k.fold*/ self . ubit ( i , c ) == ( exists | r : int | 0 <= r < k0 && r % k1 == i && # [ trigger ] old ( self ) . ubit ( r , c ) ) by {
assert ( self . ubit ( i , c ) == new_sketch . mbit ( i , c ) ) ;
assert ( new_sketch . mbit ( i , c ) == ( exists | r : int | 0 <= r < k0 && r % k1 == i && # [ trigger ] old ( self ) . ubit ( r , c ) ) ) ;
}
}
}
UnionState :: BitMatrix ( matrix ) => {
let ghost m0 = matrix @ ;
let new_k = 1 << new_lg_k ;
let mut new_matrix = vec! [ 0 ;
new_k ] ;
let ghost z = new_matrix @ ;
or_matrix_into_matrix ( & mut new_matrix , new_lg_k , matrix , self . lg_k ) ;
proof {
assert forall | i : int , c : int | 0 <= i < k1 && 0 <= c < 64 implies
/*@C06.reduce_k.fold*/ bit ( new_matrix @ [ i ] , c ) == ( exists | r : int | 0 <= r < k0 && r % k1 == i && # [ trigger ] old ( self ) . ubit ( r , c ) ) by {
assert ( forall | r : int | old ( self ) . ubit ( r , c ) == bit ( m0 [ r ] , c ) ) ;
if fold_hit ( m0 , k1 , i , k0 , c ) {
let r = choose | r : int | 0 <= r < k0 && r % k1 == i && # [ trigger ] bit ( m0 [ r ] , c ) ;
assert ( 0 <= r < k0 && r % k1 == i && old ( self ) . ubit ( r , c ) ) ;
}
if exists | r : int | 0 <= r < k0 && r % k1 == i && # [ trigger ] old ( self ) . ubit ( r , c ) {
let r = choose | r : int | 0 <= r < k0 && r % k1 == i && # [ trigger ] old ( self ) . ubit ( r , c ) ;
assert ( 0 <= r < k0 && r % k1 == i && bit ( m0 [ r ] , c ) ) ;
}
lemma_fold_bit ( m0 , k1 , i , k0 , c ) ;
let f = fold_prefix ( m0 , k1 , i , k0 ) ;
assert ( z [ i ] == 0u64 ) ;
assert ( 0u64 | f == f ) by ( bit_vector ) ;
}
}
self . lg_k = new_lg_k ;
self . state = UnionState :: BitMatrix ( new_matrix ) ;
}
}
}


}

proof fn lemma_low_mask(o: u8) requires o <= 56 ensures (1u64 << o) >= 1 { assert(o <= 56 ==> (1u64 << o) >= 1) by (bit_vector); }
proof fn lemma_low_mask_bit(o: u8, c: int) requires o <= 56, 0 <= c < 64 ensures bit(((1u64 << o) - 1) as u64, c) == (c < o) {
    let cc = c as u64;
    assert(o <= 56 && cc < 64 ==> ((((((1u64 << o) - 1) as u64) >> cc) & 1 == 1) == (cc < o as u64))) by (bit_vector);
}
proof fn lemma_window_bit(d: u64, w: u8, o: u8, c: int)
  requires o <= 56, 0 <= c < 64, d == ((1u64 << o) - 1) as u64
  ensures bit(d | ((w as u64) << o), c) == (if o <= c < o + 8 { bit8(w, c - o) } else { c < o })
{
    let cc = c as u64;
    assert(o <= 56 && cc < 64 && d == ((1u64 << o) - 1) as u64 ==>
        ((((d | ((w as u64) << o)) >> cc) & 1 == 1) == (if (o as u64) <= cc && cc < (o as u64) + 8 { (w >> ((cc - o as u64) as u8)) & 1 == 1 } else { cc < o as u64 }))) by (bit_vector);
}
proof fn lemma_flip_bit(x: u64, col: u8, c: int)
  requires col < 64, 0 <= c < 64
  ensures bit(x ^ (1u64 << col), c) == (bit(x, c) != (c == col))
{
    let cc = c as u64;
    assert(col < 64 && cc < 64 ==> ((((x ^ (1u64 << col)) >> cc) & 1 == 1) == (((x >> cc) & 1 == 1) != (cc == col as u64)))) by (bit_vector);
}
proof fn lemma_rc(x: u32)
  ensures rc((x >> 6) as int, (x & 63) as int) == x, (x & 63) < 64
{
    assert((((x >> 6) << 6) | (x & 63)) == x) by (bit_vector);
    assert((x & 63) < 64) by (bit_vector);
}
proof fn lemma_rc_inj(r: int, c: int, r2: int, c2: int)
  requires 0 <= r < 0x400_0000, 0 <= c < 64, 0 <= r2 < 0x400_0000, 0 <= c2 < 64
  ensures (rc(r, c) == rc(r2, c2)) <==> (r == r2 && c == c2), rc(r, c) >> 6 == r, rc(r, c) & 63 == c
{
    let a = r as u32; let b = c as u32; let a2 = r2 as u32; let b2 = c2 as u32;
    assert(a < 0x400_0000 && b < 64 && a2 < 0x400_0000 && b2 < 64 ==> ((((a << 6) | b) == ((a2 << 6) | b2)) <==> (a == a2 && b == b2))) by (bit_vector);
    assert(a < 0x400_0000 && b < 64 ==> (((a << 6) | b) >> 6) == a && (((a << 6) | b) & 63) == b) by (bit_vector);
}

// ---------- lemmas for CpcUnion::update ----------
proof fn lemma_kmin(a: u8, b: u8) ensures pow2((if b < a { b } else { a }) as nat) == imin(pow2(a as nat) as int, pow2(b as nat) as int) {
    if a < b { lemma_pow2_strictly_increases(a as nat, b as nat); }
    if b < a { lemma_pow2_strictly_increases(b as nat, a as nat); }
}
// reduce_k's clause, restated over the algebra
proof fn lemma_fold_bridge(u: CpcUnion, rows: int, i: int, c: int)
  ensures (exists|r: int| 0 <= r < u.k() && r % rows == i && #[trigger] u.ubit(r, c)) == am_fold_at(u.um(), rows, i, c)
{
    if exists|r: int| 0 <= r < u.k() && r % rows == i && #[trigger] u.ubit(r, c) {
        let r = choose|r: int| 0 <= r < u.k() && r % rows == i && #[trigger] u.ubit(r, c);
        assert(am_get(u.um(), r, c));
    }
    if am_fold_at(u.um(), rows, i, c) {
        let r = choose|r: int| 0 <= r < u.um().rows && r % rows == i && #[trigger] am_get(u.um(), r, c);
        assert(u.ubit(r, c));
    }
}
// the final step: the pointwise statement is the algebraic one
proof fn lemma_upd_wrap(f: CpcUnion, u0: CpcUnion, s: CpcSketch, n: int)
  requires f.k() == n, n == imin(u0.k(), s.k()),
    forall|i: int, c: int| 0 <= i < n && 0 <= c < 64 ==> #[trigger] f.ubit(i, c) == (am_fold_at(u0.um(), n, i, c) || am_fold_at(s.am(), n, i, c)),
  ensures am_eq(f.um(), am_upd(u0.um(), s.am()))
{
    let t = am_upd(u0.um(), s.am());
    assert forall|i: int, c: int| 0 <= i < n && 0 <= c < 64 implies #[trigger] am_get(f.um(), i, c) == am_get(t, i, c) by {
        assert(f.ubit(i, c) == (am_fold_at(u0.um(), n, i, c) || am_fold_at(s.am(), n, i, c)));
    }
}
// consequences of the sketch invariant per flavor
proof fn lemma_s_facts(s: CpcSketch)
  requires s.wf()
  ensures
    frank(flavor_spec(s.lg_k, s.num_coupons)) > 1 <==> s.windowed(),
    s.num_coupons == 0 <==> flavor_spec(s.lg_k, s.num_coupons) == Flavor::Empty,
{
    lemma_k26(s.lg_k);
}
// Hybrid and Pinned sketches have their window at offset 0
proof fn lemma_offset0(s: CpcSketch)
  requires s.wf(), flavor_spec(s.lg_k, s.num_coupons) == Flavor::Hybrid || flavor_spec(s.lg_k, s.num_coupons) == Flavor::Pinned
  ensures s.window_offset == 0, s.windowed(), s.num_coupons != 0
{
    lemma_k26(s.lg_k);
    let k = s.k(); let off = s.window_offset as int; let c = s.num_coupons as int;
    if off > 0 {
        assert((27 + 8 * (off - 1)) * k >= 27 * k) by (nonlinear_arith) requires off >= 1, k > 0;
    }
}
proof fn lemma_win_row_bit(w: u8, c: int)
  requires 0 <= c < 64
  ensures bit((w as u64) << 0u8, c) == (c < 8 && bit8(w, c))
{
    let cc = c as u64;
    assert(cc < 64 ==> (((((w as u64) << 0u8) >> cc) & 1 == 1) == (cc < 8 && (w >> (cc as u8)) & 1 == 1))) by (bit_vector);
}
// a Sparse sketch: the table items ARE the matrix
proof fn lemma_sparse_fold(s: CpcSketch, rows: int, i: int, c: int)
  requires s.wf_matrix(), !s.windowed(), s.window_offset == 0, rows > 0, 0 <= c < 64
  ensures (exists|x: u32| s.tbl().contains(x) && #[trigger] hits(x, rows, i, c)) == am_fold_at(s.am(), rows, i, c)
{
    lemma_k26(s.lg_k);
    if exists|x: u32| s.tbl().contains(x) && #[trigger] hits(x, rows, i, c) {
        let x = choose|x: u32| s.tbl().contains(x) && #[trigger] hits(x, rows, i, c);
        lemma_rc_compose(x); lemma_row_col_us(x);
        let r = (x >> 6) as int;
        assert(s.num_coupons != 0);
        assert(r < s.k());
        assert(s.mbit(r, c));
        assert(am_get(s.am(), r, c));
    }
    if am_fold_at(s.am(), rows, i, c) {
        let r = choose|r: int| 0 <= r < s.am().rows && r % rows == i && #[trigger] am_get(s.am(), r, c);
        lemma_rc_parts(r, c);
        assert(s.tbl().contains(rc(r, c)) && hits(rc(r, c), rows, i, c));
    }
}
// a Hybrid / Pinned sketch: window at offset 0 plus the table items with column >= 8
proof fn lemma_win0_fold(s: CpcSketch, rows: int, i: int, c: int)
  requires s.wf_matrix(), s.windowed(), s.window_offset == 0, s.num_coupons != 0, rows > 0, 0 <= c < 64
  ensures am_fold_at(s.am(), rows, i, c) == (fold_hit(win_rows(s.sliding_window@, 0), rows, i, s.k(), c) || exists|x: u32| s.tbl().contains(x) && #[trigger] hits(x, rows, i, c))
{
    lemma_k26(s.lg_k);
    let wm = win_rows(s.sliding_window@, 0);
    if am_fold_at(s.am(), rows, i, c) {
        let r = choose|r: int| 0 <= r < s.am().rows && r % rows == i && #[trigger] am_get(s.am(), r, c);
        assert(s.mbit(r, c));
        lemma_win_row_bit(s.sliding_window@[r], c);
        if c < 8 { assert(bit(wm[r], c)); assert(fold_hit(wm, rows, i, s.k(), c)); }
        else { lemma_rc_parts(r, c); assert(s.tbl().contains(rc(r, c)) && hits(rc(r, c), rows, i, c)); }
    }
    if fold_hit(wm, rows, i, s.k(), c) {
        let r = choose|r: int| 0 <= r < s.k() && r % rows == i && #[trigger] bit(wm[r], c);
        lemma_win_row_bit(s.sliding_window@[r], c);
        assert(s.mbit(r, c));
        assert(am_get(s.am(), r, c));
    }
    if exists|x: u32| s.tbl().contains(x) && #[trigger] hits(x, rows, i, c) {
        let x = choose|x: u32| s.tbl().contains(x) && #[trigger] hits(x, rows, i, c);
        lemma_rc_compose(x); lemma_row_col_us(x);
        let r = (x >> 6) as int;
        assert(r < s.k());
        assert(!(s.window_offset <= (x & 63) < s.window_offset + 8));
        assert(s.mbit(r, c));
        assert(am_get(s.am(), r, c));
    }
}
// a sketch given by its full bit matrix
proof fn lemma_mat_fold(s: CpcSketch, m: Seq<u64>, rows: int, i: int, c: int)
  requires m.len() == s.k(), forall|r: int, cc: int| 0 <= r < s.k() && 0 <= cc < 64 ==> bit(m[r], cc) == s.mbit(r, cc), 0 <= c < 64
  ensures fold_hit(m, rows, i, s.k(), c) == am_fold_at(s.am(), rows, i, c)
{
    if fold_hit(m, rows, i, s.k(), c) {
        let r = choose|r: int| 0 <= r < s.k() && r % rows == i && #[trigger] bit(m[r], c);
        assert(am_get(s.am(), r, c));
    }
    if am_fold_at(s.am(), rows, i, c) {
        let r = choose|r: int| 0 <= r < s.am().rows && r % rows == i && #[trigger] am_get(s.am(), r, c);
        assert(bit(m[r], c));
    }
}

// a table with a non-zero item count holds some item
proof fn lemma_occupied(t: PairTable)
  requires t.wf(), t.num_items != 0
  ensures exists|x: u32| t.items().contains(x)
{
    let ss = t.slots@;
    if pocc(ss) =~= Set::<int>::empty() { }
    else {
        let i = choose|i: int| pocc(ss).contains(i);
        assert(pholds(ss, ss[i]));
        assert(t.items().contains(ss[i]));
    }
}
proof fn lemma_rc_compose(y: u32) ensures rc((y >> 6) as int, (y & 63) as int) == y {
    assert((((y >> 6) << 6) | (y & 63)) == y) by (bit_vector);
    assert((y & 63) < 64) by (bit_vector);
}
proof fn lemma_rc_parts(r: int, c: int)
  requires 0 <= r < 0x400_0000, 0 <= c < 64
  ensures rc(r, c) >> 6 == r, rc(r, c) & 63 == c
{
    let a = r as u32; let b = c as u32;
    assert(a < 0x400_0000 && b < 64 ==> (((a << 6) | b) >> 6) == a && (((a << 6) | b) & 63) == b) by (bit_vector);
}
}
fn main(){}
