use vstd::prelude::*;
use vstd::arithmetic::power2::*;
use vstd::imap::*;
use vstd::iset::*;
verus! {
global size_of usize == 8;

// =====================================================================================================================
// Unit hll_api: the public query / dispatch methods of HllSketch (hll/sketch.rs) and the accessors of Array4 / Array6 / Array8 that the
// other HLL units only assume.  Floats are opaque: an estimator result is an UNINTERPRETED function of the estimator state and the
// integer arguments it is called with; what is verified is WHICH estimator is called with WHICH arguments (C01.hll.dispatch: the
// per-mode brackets lb <= est <= ub proved by the Kani harnesses c01_hll / c01_container are statements about exactly these functions
// at exactly these arguments, so they lift to the sketch), and that queries / set_hip_accum touch nothing else (C02.frame).
// =====================================================================================================================

#[derive(Clone, Copy, PartialEq, Eq, Structural)]
enum HllType {
    Hll4,
    Hll6,
    Hll8,
}

#[derive(Clone, Copy)]
enum NumStdDev {
    One = 1,
    Two = 2,
    Three = 3,
}

proof fn lemma_k(l: u8)
  requires 4 <= l <= 21
  ensures 16 <= pow2(l as nat) <= 0x20_0000, (1u32 << l) == pow2(l as nat), (1usize << l) == pow2(l as nat)
{
    lemma2_to64();
    if l < 21 { lemma_pow2_strictly_increases(l as nat, 21); }
    if l > 4 { lemma_pow2_strictly_increases(4, l as nat); }
    vstd::bits::lemma_u32_shl_is_mul(1, l as u32);
    assert((1u32 << (l as u32)) == (1u32 << l));
    assert(l <= 21 ==> (1usize << l) == ((1u32 << l) as usize)) by (bit_vector);
}

// =====================================================================================================================
// hll/estimator.rs
// =====================================================================================================================
struct HipEstimator {
    hip_accum: f64,
    kxq0: f64,
    kxq1: f64,
    out_of_order: bool,
}

// the float leaves (bodies are float arithmetic over the kxq registers and the rel-err tables; bracket / nesting / table sanity: KX c01_hll)
uninterp spec fn composite_est(e: HipEstimator, lg: u8, cur_min: u8, n: u32) -> f64;
uninterp spec fn hip_ub(e: HipEstimator, lg: u8, cur_min: u8, n: u32, s: NumStdDev) -> f64;
uninterp spec fn hip_lb(e: HipEstimator, lg: u8, cur_min: u8, n: u32, s: NumStdDev) -> f64;
// HipEstimator::estimate, read off its body: the HIP accumulator in order, the composite estimator out of order
spec fn hip_est(e: HipEstimator, lg: u8, cur_min: u8, n: u32) -> f64 { if e.out_of_order { composite_est(e, lg, cur_min, n) } else { e.hip_accum } }

// `k as f64` (i32 -> f64): an uninterpreted function of the integer.  KX hip_new_fields (complete, lg_config_k < 31) pins it on the real
// constructor: kxq0 is exactly 2^lg_config_k.
pub uninterp spec fn i32_to_f64(n: i32) -> f64;
#[verifier::external_body] fn vx_i32_as_f64(n: i32) -> (r: f64) ensures r == i32_to_f64(n) { n as f64 }

impl HipEstimator {
    // a fresh estimator: in order, accumulator 0, kxq0 = K (all registers 0), kxq1 = 0.  `1 << lg_config_k` is an i32 shift: lg_config_k < 32
    fn new(lg_config_k: u8) -> (r: Self)
      requires lg_config_k < 32
      ensures /*@C02.hip.new.in_order*/ !r.out_of_order,
        /*@C02.hip.new.accum*/ r.hip_accum == 0.0f64,
        /*@C02.hip.new.kxq*/ r.kxq0 == i32_to_f64(1i32 << lg_config_k) && r.kxq1 == 0.0f64,
        /*@C02.hip.new.estimate_zero*/ forall|cm: u8, n: u32| #[trigger] hip_est(r, lg_config_k, cm, n) == 0.0f64,
    {
        let k = 1 << lg_config_k;
        Self {
            hip_accum: 0.0,
            kxq0: vx_i32_as_f64(k), // All registers start at 0, so kxq0 = k * (1/2^0) = k
            kxq1: 0.0,
            out_of_order: false,
        }
    }

    fn estimate(&self, lg_config_k: u8, cur_min: u8, num_at_cur_min: u32) -> (r: f64)
      ensures /*@C01.hll.dispatch*/ r == hip_est(*self, lg_config_k, cur_min, num_at_cur_min),
        /*@C02.estimate_in_order*/ !self.out_of_order ==> r == self.hip_accum,
    {
        if self.out_of_order {
            self.get_composite_estimate(lg_config_k, cur_min, num_at_cur_min)
        } else {
            self.hip_accum
        }
    }

    #[verifier::external_body]
    fn upper_bound(
        &self,
        lg_config_k: u8,
        cur_min: u8,
        num_at_cur_min: u32,
        num_std_dev: NumStdDev,
    ) -> (r: f64)
      ensures r == hip_ub(*self, lg_config_k, cur_min, num_at_cur_min, num_std_dev)
    { unimplemented!() }

    #[verifier::external_body]
    fn lower_bound(
        &self,
        lg_config_k: u8,
        cur_min: u8,
        num_at_cur_min: u32,
        num_std_dev: NumStdDev,
    ) -> (r: f64)
      ensures r == hip_lb(*self, lg_config_k, cur_min, num_at_cur_min, num_std_dev)
    { unimplemented!() }

    #[verifier::external_body]
    fn get_composite_estimate(&self, lg_config_k: u8, cur_min: u8, num_at_cur_min: u32) -> (r: f64)
      ensures r == composite_est(*self, lg_config_k, cur_min, num_at_cur_min)
    { unimplemented!() }

    fn hip_accum(&self) -> (r: f64) ensures r == self.hip_accum {
        self.hip_accum
    }

    fn is_out_of_order(&self) -> (r: bool) ensures r == self.out_of_order {
        self.out_of_order
    }

    fn set_hip_accum(&mut self, value: f64)
      ensures /*@C02.frame*/ *final(self) == (HipEstimator { hip_accum: value, ..*old(self) })
    {
        self.hip_accum = value;
    }
}

// =====================================================================================================================
// hll/container.rs, list.rs, hash_set.rs (coupon modes)
// =====================================================================================================================
struct Container {
    lg_size: usize,
    coupons: Box<[u32]>,
    len: usize,
}

// coupon-mode estimator leaves (cubic interpolation over the coupon count; bracket: KX c01_container)
uninterp spec fn cont_est(c: Container) -> f64;
uninterp spec fn cont_ub(c: Container, s: NumStdDev) -> f64;
uninterp spec fn cont_lb(c: Container, s: NumStdDev) -> f64;

impl Container {
    fn is_empty(&self) -> (r: bool) ensures r == (self.len == 0) {
        self.len == 0
    }

    #[verifier::external_body]
    fn estimate(&self) -> (r: f64) ensures r == cont_est(*self) { unimplemented!() }

    #[verifier::external_body]
    fn upper_bound(&self, num_std_dev: NumStdDev) -> (r: f64) ensures r == cont_ub(*self, num_std_dev) { unimplemented!() }

    #[verifier::external_body]
    fn lower_bound(&self, num_std_dev: NumStdDev) -> (r: f64) ensures r == cont_lb(*self, num_std_dev) { unimplemented!() }
}

struct List {
    container: Container,
}

struct HashSet {
    container: Container,
}

// the per-mode writers, BY CONTRACT (their bodies are verified against the format specs in units hll_codec_coupons / hll_codec8 /
// hll_codec4): `ser_pre` stands for the writer's precondition there, `*_image(.., b)` for "b is an image that writer produces"
impl List {
    uninterp spec fn ser_pre(&self) -> bool;
    uninterp spec fn image(&self, lg: u8, t: HllType, b: Seq<u8>) -> bool;

    fn container(&self) -> (r: &Container) ensures *r == self.container {
        &self.container
    }

    #[verifier::external_body]
    fn serialize(&self, lg_config_k: u8, hll_type: HllType) -> (r: Vec<u8>)
      requires self.ser_pre()
      ensures self.image(lg_config_k, hll_type, r@)
    { unimplemented!() }
}

impl HashSet {
    uninterp spec fn ser_pre(&self) -> bool;
    uninterp spec fn image(&self, lg: u8, t: HllType, b: Seq<u8>) -> bool;

    fn container(&self) -> (r: &Container) ensures *r == self.container {
        &self.container
    }

    #[verifier::external_body]
    fn serialize(&self, lg_config_k: u8, hll_type: HllType) -> (r: Vec<u8>)
      requires self.ser_pre()
      ensures self.image(lg_config_k, hll_type, r@)
    { unimplemented!() }
}

// =====================================================================================================================
// hll/array4.rs, array6.rs, array8.rs: accessors on the real bodies
// =====================================================================================================================
#[verifier::external_body] struct AuxMap { _p: u8 }
// ---- refinement of the abstract register model of unit hll_sketch (`lg`, `regs`, `wf2` of Array4 and `lg`, `regs`, `wf` of Array6 / Array8
// are uninterpreted there): definitions VERBATIM from contracts/hll_array4.rs / hll_array6.rs / hll_array8.rs, where new / update are
// verified against them.  set_hip_accum touches none of the fields they read.
impl AuxMap {
    pub uninterp spec fn view(&self) -> IMap<u32, u8>;
    pub uninterp spec fn lgk(&self) -> u8;
    pub uninterp spec fn inv(&self) -> bool;
    pub open spec fn awf(&self) -> bool {
        &&& self.inv()
        &&& forall|s: u32| self.view().dom().contains(s) ==> s < pow2(self.lgk() as nat) && 1 <= #[trigger] self.view()[s] <= 63
    }
}
spec fn nib(bytes: Seq<u8>, i: int) -> u8 { if i % 2 == 0 { bytes[i / 2] & 15 } else { bytes[i / 2] >> 4 } }
spec fn preg(cur_min: u8, bytes: Seq<u8>, aux: IMap<u32, u8>, i: int) -> int {
    let n = nib(bytes, i);
    if n < 15 { cur_min as int + n as int } else { aux[i as u32] as int }
}
spec fn pwf(lg: u8, cur_min: u8, bytes: Seq<u8>, aux: IMap<u32, u8>) -> bool {
    let k = pow2(lg as nat) as int;
    &&& 4 <= lg <= 21
    &&& bytes.len() * 2 == k
    &&& cur_min <= 63
    &&& forall|i: int| 0 <= i < k ==> (nib(bytes, i) == 15 <==> #[trigger] aux.dom().contains(i as u32))
    &&& forall|s: u32| #[trigger] aux.dom().contains(s) ==> s < k && cur_min + 15 <= aux[s] <= 63
    &&& forall|i: int| 0 <= i < k ==> #[trigger] preg(cur_min, bytes, aux, i) <= 63
}
spec fn pcnt(cur_min: u8, bytes: Seq<u8>, aux: IMap<u32, u8>, v: int, n: int) -> int decreases n {
    if n <= 0 { 0 } else { pcnt(cur_min, bytes, aux, v, n - 1) + (if preg(cur_min, bytes, aux, n - 1) == v { 1int } else { 0int }) }
}
spec fn le16(b0: u8, b1: u8) -> u16 { (b0 as u16) | ((b1 as u16) << 8) }
spec fn get6(w: u16, sh: u16) -> u8 { ((w >> sh) & 0x3f) as u8 }
spec fn reg6(bytes: Seq<u8>, i: int) -> u8 {
    let sb = 6 * i;
    get6(le16(bytes[sb / 8], bytes[sb / 8 + 1]), (sb % 8) as u16)
}
spec fn cnt0(r: Seq<u8>, n: int) -> int decreases n {
    if n <= 0 { 0 } else { cnt0(r, n - 1) + (if r[n - 1] == 0 { 1int } else { 0int }) }
}

struct Array4 {
    lg_config_k: u8,
    bytes: Box<[u8]>,
    cur_min: u8,
    num_at_cur_min: u32,
    aux_map: Option<AuxMap>,
    estimator: HipEstimator,
}

impl Array4 {
    spec fn k(&self) -> int { pow2(self.lg_config_k as nat) as int }
    // (unit hll_union: `hip`, `ooo` are uninterpreted there)
    spec fn hip(&self) -> f64 { self.estimator.hip_accum }
    spec fn ooo(&self) -> bool { self.estimator.out_of_order }
    spec fn auxv(&self) -> IMap<u32, u8> { if self.aux_map is Some { self.aux_map->0.view() } else { IMap::empty() } }
    spec fn reg(&self, i: int) -> int { preg(self.cur_min, self.bytes@, self.auxv(), i) }
    spec fn lg(&self) -> u8 { self.lg_config_k }
    spec fn regs(&self) -> Seq<u8> { Seq::new(self.k() as nat, |i: int| self.reg(i) as u8) }
    spec fn wf(&self) -> bool {
        &&& pwf(self.lg_config_k, self.cur_min, self.bytes@, self.auxv())
        &&& (self.aux_map matches Some(m) ==> m.awf() && m.lgk() == self.lg_config_k)
    }
    spec fn cnt_at(&self, v: int, n: int) -> int { pcnt(self.cur_min, self.bytes@, self.auxv(), v, n) }
    spec fn wf2(&self) -> bool {
        &&& self.wf()
        &&& self.num_at_cur_min == self.cnt_at(self.cur_min as int, self.k())
        &&& self.num_at_cur_min > 0
    }
    uninterp spec fn ser_pre(&self) -> bool;
    uninterp spec fn image(&self, lg: u8, b: Seq<u8>) -> bool;
    spec fn lg_ok(&self) -> bool { 4 <= self.lg_config_k <= 21 }
    // the arguments every Array4 estimator call passes on: (lg_config_k, cur_min, num_at_cur_min)
    spec fn est(&self) -> f64 { hip_est(self.estimator, self.lg_config_k, self.cur_min, self.num_at_cur_min) }
    spec fn ub(&self, s: NumStdDev) -> f64 { hip_ub(self.estimator, self.lg_config_k, self.cur_min, self.num_at_cur_min, s) }
    spec fn lb(&self, s: NumStdDev) -> f64 { hip_lb(self.estimator, self.lg_config_k, self.cur_min, self.num_at_cur_min, s) }
    spec fn empty(&self) -> bool { self.num_at_cur_min == pow2(self.lg_config_k as nat) && self.cur_min == 0 }

    fn num_registers(&self) -> (r: usize)
      requires self.lg_ok()
      ensures /*@C02.num_registers*/ r == pow2(self.lg_config_k as nat)
    {
        proof { lemma_k(self.lg_config_k); }
        1 << self.lg_config_k
    }

    fn hip_accum(&self) -> (r: f64) ensures r == self.estimator.hip_accum {
        self.estimator.hip_accum()
    }

    fn estimate(&self) -> (r: f64)
      ensures /*@C01.hll.dispatch*/ r == self.est(), /*@C02.estimate_in_order*/ !self.estimator.out_of_order ==> r == self.estimator.hip_accum,
    {
        // Array4 tracks cur_min and num_at_cur_min dynamically
        self.estimator
            .estimate(self.lg_config_k, self.cur_min, self.num_at_cur_min)
    }

    fn upper_bound(&self, num_std_dev: NumStdDev) -> (r: f64)
      ensures /*@C01.hll.dispatch*/ r == self.ub(num_std_dev)
    {
        self.estimator.upper_bound(
            self.lg_config_k,
            self.cur_min,
            self.num_at_cur_min,
            num_std_dev,
        )
    }

    fn lower_bound(&self, num_std_dev: NumStdDev) -> (r: f64)
      ensures /*@C01.hll.dispatch*/ r == self.lb(num_std_dev)
    {
        self.estimator.lower_bound(
            self.lg_config_k,
            self.cur_min,
            self.num_at_cur_min,
            num_std_dev,
        )
    }

    fn set_hip_accum(&mut self, value: f64)
      ensures /*@C02.frame*/ *final(self) == (Array4 { estimator: HipEstimator { hip_accum: value, ..old(self).estimator }, ..*old(self) })
    {
        self.estimator.set_hip_accum(value);
    }

    fn is_empty(&self) -> (r: bool)
      requires self.lg_ok()
      ensures /*@C02.is_empty*/ r == self.empty()
    {
        proof { lemma_k(self.lg_config_k); }
        self.num_at_cur_min == (1 << self.lg_config_k) && self.cur_min == 0
    }

    #[verifier::external_body]
    fn serialize(&self, lg_config_k: u8) -> (r: Vec<u8>)
      requires self.ser_pre(), lg_config_k == self.lg_config_k
      ensures self.image(lg_config_k, r@)
    { unimplemented!() }
}

struct Array6 {
    lg_config_k: u8,
    bytes: Box<[u8]>,
    num_zeros: u32,
    estimator: HipEstimator,
}

impl Array6 {
    spec fn k(&self) -> int { pow2(self.lg_config_k as nat) as int }
    // (unit hll_union: `hip`, `ooo` are uninterpreted there)
    spec fn hip(&self) -> f64 { self.estimator.hip_accum }
    spec fn ooo(&self) -> bool { self.estimator.out_of_order }
    spec fn lg(&self) -> u8 { self.lg_config_k }
    spec fn shape(&self) -> bool {
        4 <= self.lg_config_k <= 21 && self.bytes@.len() == (self.k() * 3) / 4 + 1
    }
    spec fn regs(&self) -> Seq<u8> {
        Seq::new(self.k() as nat, |i: int| reg6(self.bytes@, i))
    }
    spec fn wf(&self) -> bool {
        &&& self.shape()
        &&& self.num_zeros == cnt0(self.regs(), self.k())
    }
    uninterp spec fn ser_pre(&self) -> bool;
    uninterp spec fn image(&self, lg: u8, b: Seq<u8>) -> bool;
    spec fn lg_ok(&self) -> bool { 4 <= self.lg_config_k <= 21 }
    // Array6 has no cur_min: the estimator is called with (lg_config_k, 0, num_zeros)
    spec fn est(&self) -> f64 { hip_est(self.estimator, self.lg_config_k, 0, self.num_zeros) }
    spec fn ub(&self, s: NumStdDev) -> f64 { hip_ub(self.estimator, self.lg_config_k, 0, self.num_zeros, s) }
    spec fn lb(&self, s: NumStdDev) -> f64 { hip_lb(self.estimator, self.lg_config_k, 0, self.num_zeros, s) }
    spec fn empty(&self) -> bool { self.num_zeros == pow2(self.lg_config_k as nat) }

    fn num_registers(&self) -> (r: usize)
      requires self.lg_ok()
      ensures /*@C02.num_registers*/ r == pow2(self.lg_config_k as nat)
    {
        proof { lemma_k(self.lg_config_k); }
        1 << self.lg_config_k
    }

    fn hip_accum(&self) -> (r: f64) ensures r == self.estimator.hip_accum {
        self.estimator.hip_accum()
    }

    fn estimate(&self) -> (r: f64)
      ensures /*@C01.hll.dispatch*/ r == self.est(), /*@C02.estimate_in_order*/ !self.estimator.out_of_order ==> r == self.estimator.hip_accum,
    {
        // Array6 doesn't use cur_min (always 0), so num_at_cur_min = num_zeros
        self.estimator.estimate(self.lg_config_k, 0, self.num_zeros)
    }

    fn upper_bound(&self, num_std_dev: NumStdDev) -> (r: f64)
      ensures /*@C01.hll.dispatch*/ r == self.ub(num_std_dev)
    {
        self.estimator
            .upper_bound(self.lg_config_k, 0, self.num_zeros, num_std_dev)
    }

    fn lower_bound(&self, num_std_dev: NumStdDev) -> (r: f64)
      ensures /*@C01.hll.dispatch*/ r == self.lb(num_std_dev)
    {
        self.estimator
            .lower_bound(self.lg_config_k, 0, self.num_zeros, num_std_dev)
    }

    fn set_hip_accum(&mut self, value: f64)
      ensures /*@C02.frame*/ *final(self) == (Array6 { estimator: HipEstimator { hip_accum: value, ..old(self).estimator }, ..*old(self) })
    {
        self.estimator.set_hip_accum(value);
    }

    fn is_empty(&self) -> (r: bool)
      requires self.lg_ok()
      ensures /*@C02.is_empty*/ r == self.empty()
    {
        proof { lemma_k(self.lg_config_k); }
        self.num_zeros == (1 << self.lg_config_k)
    }

    #[verifier::external_body]
    fn serialize(&self, lg_config_k: u8) -> (r: Vec<u8>)
      requires self.ser_pre(), lg_config_k == self.lg_config_k
      ensures self.image(lg_config_k, r@)
    { unimplemented!() }
}

struct Array8 {
    lg_config_k: u8,
    bytes: Box<[u8]>,
    num_zeros: u32,
    estimator: HipEstimator,
}

impl Array8 {
    spec fn k(&self) -> int { pow2(self.lg_config_k as nat) as int }
    // (unit hll_union: `hip`, `ooo` are uninterpreted there)
    spec fn hip(&self) -> f64 { self.estimator.hip_accum }
    spec fn ooo(&self) -> bool { self.estimator.out_of_order }
    spec fn lg(&self) -> u8 { self.lg_config_k }
    spec fn shape(&self) -> bool {
        4 <= self.lg_config_k <= 21 && self.bytes@.len() == self.k()
    }
    spec fn regs(&self) -> Seq<u8> { self.bytes@ }
    spec fn wf(&self) -> bool {
        &&& self.shape()
        &&& self.num_zeros == cnt0(self.regs(), self.k())
    }
    uninterp spec fn ser_pre(&self) -> bool;
    uninterp spec fn image(&self, lg: u8, b: Seq<u8>) -> bool;
    spec fn lg_ok(&self) -> bool { 4 <= self.lg_config_k <= 21 }
    spec fn est(&self) -> f64 { hip_est(self.estimator, self.lg_config_k, 0, self.num_zeros) }
    spec fn ub(&self, s: NumStdDev) -> f64 { hip_ub(self.estimator, self.lg_config_k, 0, self.num_zeros, s) }
    spec fn lb(&self, s: NumStdDev) -> f64 { hip_lb(self.estimator, self.lg_config_k, 0, self.num_zeros, s) }
    spec fn empty(&self) -> bool { self.num_zeros == pow2(self.lg_config_k as nat) }

    fn estimate(&self) -> (r: f64)
      ensures /*@C01.hll.dispatch*/ r == self.est(), /*@C02.estimate_in_order*/ !self.estimator.out_of_order ==> r == self.estimator.hip_accum,
    {
        // Array8 doesn't use cur_min (always 0), so num_at_cur_min = num_zeros
        self.estimator.estimate(self.lg_config_k, 0, self.num_zeros)
    }

    fn upper_bound(&self, num_std_dev: NumStdDev) -> (r: f64)
      ensures /*@C01.hll.dispatch*/ r == self.ub(num_std_dev)
    {
        self.estimator
            .upper_bound(self.lg_config_k, 0, self.num_zeros, num_std_dev)
    }

    fn lower_bound(&self, num_std_dev: NumStdDev) -> (r: f64)
      ensures /*@C01.hll.dispatch*/ r == self.lb(num_std_dev)
    {
        self.estimator
            .lower_bound(self.lg_config_k, 0, self.num_zeros, num_std_dev)
    }

    fn set_hip_accum(&mut self, value: f64)
      ensures /*@C02.frame*/ *final(self) == (Array8 { estimator: HipEstimator { hip_accum: value, ..old(self).estimator }, ..*old(self) })
    {
        self.estimator.set_hip_accum(value);
    }

    fn is_empty(&self) -> (r: bool)
      requires self.lg_ok()
      ensures /*@C02.is_empty*/ r == self.empty()
    {
        proof { lemma_k(self.lg_config_k); }
        self.num_zeros == (1 << self.lg_config_k)
    }

    fn num_registers(&self) -> (r: usize)
      requires self.lg_ok()
      ensures /*@C02.num_registers*/ r == pow2(self.lg_config_k as nat)
    {
        proof { lemma_k(self.lg_config_k); }
        1 << self.lg_config_k
    }

    fn hip_accum(&self) -> (r: f64) ensures r == self.estimator.hip_accum {
        self.estimator.hip_accum()
    }

    #[verifier::external_body]
    fn serialize(&self, lg_config_k: u8) -> (r: Vec<u8>)
      requires self.ser_pre(), lg_config_k == self.lg_config_k
      ensures self.image(lg_config_k, r@)
    { unimplemented!() }
}

// =====================================================================================================================
// hll/mode.rs, hll/sketch.rs
// =====================================================================================================================
enum Mode {
    List { list: List, hll_type: HllType },
    Set { set: HashSet, hll_type: HllType },
    Array4(Array4),
    Array6(Array6),
    Array8(Array8),
}

struct HllSketch {
    lg_config_k: u8,
    mode: Mode,
}

// the estimator of the CURRENT mode at the arguments of the current state: one triple (lb, est, ub) per state
spec fn mode_est(m: Mode) -> f64 {
    match m { Mode::List { list, .. } => cont_est(list.container), Mode::Set { set, .. } => cont_est(set.container),
              Mode::Array4(a) => a.est(), Mode::Array6(a) => a.est(), Mode::Array8(a) => a.est() }
}
spec fn mode_ub(m: Mode, s: NumStdDev) -> f64 {
    match m { Mode::List { list, .. } => cont_ub(list.container, s), Mode::Set { set, .. } => cont_ub(set.container, s),
              Mode::Array4(a) => a.ub(s), Mode::Array6(a) => a.ub(s), Mode::Array8(a) => a.ub(s) }
}
spec fn mode_lb(m: Mode, s: NumStdDev) -> f64 {
    match m { Mode::List { list, .. } => cont_lb(list.container, s), Mode::Set { set, .. } => cont_lb(set.container, s),
              Mode::Array4(a) => a.lb(s), Mode::Array6(a) => a.lb(s), Mode::Array8(a) => a.lb(s) }
}
spec fn mode_empty(m: Mode) -> bool {
    match m { Mode::List { list, .. } => list.container.len == 0, Mode::Set { set, .. } => set.container.len == 0,
              Mode::Array4(a) => a.empty(), Mode::Array6(a) => a.empty(), Mode::Array8(a) => a.empty() }
}
spec fn mode_type(m: Mode) -> HllType {
    match m { Mode::List { hll_type, .. } => hll_type, Mode::Set { hll_type, .. } => hll_type,
              Mode::Array4(_) => HllType::Hll4, Mode::Array6(_) => HllType::Hll6, Mode::Array8(_) => HllType::Hll8 }
}
// the sketch invariant as far as this unit needs it: lg_k in range and shared with the array (established by new / promote / deserialize /
// union in units hll_sketch, hll_dispatch, hll_union)
spec fn mode_lg_ok(m: Mode, lg: u8) -> bool {
    match m { Mode::Array4(a) => a.lg_config_k == lg, Mode::Array6(a) => a.lg_config_k == lg, Mode::Array8(a) => a.lg_config_k == lg, _ => true }
}
spec fn mode_ser_pre(m: Mode) -> bool {
    match m { Mode::List { list, .. } => list.ser_pre(), Mode::Set { set, .. } => set.ser_pre(),
              Mode::Array4(a) => a.ser_pre(), Mode::Array6(a) => a.ser_pre(), Mode::Array8(a) => a.ser_pre() }
}
spec fn mode_image(m: Mode, lg: u8, b: Seq<u8>) -> bool {
    match m { Mode::List { list, hll_type } => list.image(lg, hll_type, b), Mode::Set { set, hll_type } => set.image(lg, hll_type, b),
              Mode::Array4(a) => a.image(lg, b), Mode::Array6(a) => a.image(lg, b), Mode::Array8(a) => a.image(lg, b) }
}

impl HllSketch {
    spec fn swf(&self) -> bool { 4 <= self.lg_config_k <= 21 && mode_lg_ok(self.mode, self.lg_config_k) }

    fn from_mode(lg_config_k: u8, mode: Mode) -> (r: Self)
      ensures /*@C02.frame*/ r.lg_config_k == lg_config_k && r.mode == mode
    {
        Self { lg_config_k, mode }
    }

    fn is_empty(&self) -> (r: bool)
      requires self.swf()
      ensures /*@C02.is_empty*/ r == mode_empty(self.mode)
    {
        match &self.mode {
            Mode::List { list, .. } => list.container().is_empty(),
            Mode::Set { set, .. } => set.container().is_empty(),
            Mode::Array4(arr) => arr.is_empty(),
            Mode::Array6(arr) => arr.is_empty(),
            Mode::Array8(arr) => arr.is_empty(),
        }
    }

    fn target_type(&self) -> (r: HllType)
      ensures /*@C02.target_type*/ r == mode_type(self.mode)
    {
        match &self.mode {
            Mode::List { hll_type, .. } => *hll_type,
            Mode::Set { hll_type, .. } => *hll_type,
            Mode::Array4(_) => HllType::Hll4,
            Mode::Array6(_) => HllType::Hll6,
            Mode::Array8(_) => HllType::Hll8,
        }
    }

    fn lg_config_k(&self) -> (r: u8) ensures r == self.lg_config_k {
        self.lg_config_k
    }

    fn estimate(&self) -> (r: f64)
      ensures /*@C01.hll.dispatch*/ r == mode_est(self.mode)
    {
        match &self.mode {
            Mode::List { list, .. } => list.container().estimate(),
            Mode::Set { set, .. } => set.container().estimate(),
            Mode::Array4(arr) => arr.estimate(),
            Mode::Array6(arr) => arr.estimate(),
            Mode::Array8(arr) => arr.estimate(),
        }
    }

    fn upper_bound(&self, num_std_dev: NumStdDev) -> (r: f64)
      ensures /*@C01.hll.dispatch*/ r == mode_ub(self.mode, num_std_dev)
    {
        match &self.mode {
            Mode::List { list, .. } => list.container().upper_bound(num_std_dev),
            Mode::Set { set, .. } => set.container().upper_bound(num_std_dev),
            Mode::Array4(arr) => arr.upper_bound(num_std_dev),
            Mode::Array6(arr) => arr.upper_bound(num_std_dev),
            Mode::Array8(arr) => arr.upper_bound(num_std_dev),
        }
    }

    fn lower_bound(&self, num_std_dev: NumStdDev) -> (r: f64)
      ensures /*@C01.hll.dispatch*/ r == mode_lb(self.mode, num_std_dev)
    {
        match &self.mode {
            Mode::List { list, .. } => list.container().lower_bound(num_std_dev),
            Mode::Set { set, .. } => set.container().lower_bound(num_std_dev),
            Mode::Array4(arr) => arr.lower_bound(num_std_dev),
            Mode::Array6(arr) => arr.lower_bound(num_std_dev),
            Mode::Array8(arr) => arr.lower_bound(num_std_dev),
        }
    }

    fn serialize(&self) -> (r: Vec<u8>)
      requires self.swf(), mode_ser_pre(self.mode)
      ensures /*@C02.serialize_dispatch*/ mode_image(self.mode, self.lg_config_k, r@)
    {
        match &self.mode {
            Mode::List { list, hll_type } => list.serialize(self.lg_config_k, *hll_type),
            Mode::Set { set, hll_type } => set.serialize(self.lg_config_k, *hll_type),
            Mode::Array4(arr) => arr.serialize(self.lg_config_k),
            Mode::Array6(arr) => arr.serialize(self.lg_config_k),
            Mode::Array8(arr) => arr.serialize(self.lg_config_k),
        }
    }
}

// =====================================================================================================================
// C01 glue: IF the per-mode estimators bracket (what the Kani harnesses c01_hll_*_lb_le_est / est_le_ub and c01_container_* prove for
// HipEstimator::{lower_bound, estimate, upper_bound} at ANY (lg_k, cur_min, n, s) and for Container::{..} at any len), THEN every
// HllSketch state brackets: a verified client, no real code.  `le` is the float order, uninterpreted here.
// =====================================================================================================================
uninterp spec fn f64_le(a: f64, b: f64) -> bool;
spec fn hip_brackets() -> bool {
    &&& forall|e: HipEstimator, lg: u8, cm: u8, n: u32, s: NumStdDev| f64_le(#[trigger] hip_lb(e, lg, cm, n, s), hip_est(e, lg, cm, n))
    &&& forall|e: HipEstimator, lg: u8, cm: u8, n: u32, s: NumStdDev| f64_le(hip_est(e, lg, cm, n), #[trigger] hip_ub(e, lg, cm, n, s))
}
spec fn cont_brackets() -> bool {
    &&& forall|c: Container, s: NumStdDev| f64_le(#[trigger] cont_lb(c, s), cont_est(c))
    &&& forall|c: Container, s: NumStdDev| f64_le(cont_est(c), #[trigger] cont_ub(c, s))
}
fn c01_bracket_lifts(sk: &HllSketch, s: NumStdDev) -> (r: (f64, f64, f64))
  requires hip_brackets(), cont_brackets()
  ensures /*@C01.hll.dispatch*/ f64_le(r.0, r.1) && f64_le(r.1, r.2)
{
    let lb = sk.lower_bound(s);
    let est = sk.estimate();
    let ub = sk.upper_bound(s);
    (lb, est, ub)
}

}
fn main(){}
