use vstd::prelude::*;
use vstd::seq_lib::*;
use vstd::iset::*;
use vstd::arithmetic::power2::*;
use std::hash::Hash;
verus! {
global size_of usize == 8;
// =====================================================================================================================
// FINDINGS UNIT: holds the two known theta defects as tagged clauses that FAIL on the current /repo (status=failed is the expected
// outcome); the proofs proper are in units theta_table and theta_sketch, which stay green.
// ThetaSketchBuilder: does the documented parameter range establish the sketch invariant that lower_bound/upper_bound
// rely on ("theta in (0,1]", see contracts/theta_sketch.rs ThetaSketch::wf)?  The table is used by contract.
// EXPECTED TO FAIL on the current /repo at /*@C01.theta.theta0_pos*/: sampling_probability = 1e-20 is inside the documented
// range (0,1] but (MAX_THETA as f64 * p as f64) as u64 == 0, so theta == 0 and lower_bound()/upper_bound() panic in .expect().
// =====================================================================================================================
pub uninterp spec fn p_ok(p: f32) -> bool;      // 0.0 < p <= 1.0 (the builder's assert)
// ---------------- theta/hash_table.rs: specs copied from contracts/theta_table.rs ----------------
const MAX_THETA : u64 = i64 :: MAX as u64 ;




spec fn probe_at(p0: int, s: int, j: int, size: int) -> int { (p0 + j * s) % size }
spec fn occ64(es: Seq<u64>) -> Set<int> { Set::range(0, es.len() as int).filter(|i: int| es[i] != 0) }
spec fn stride_spec(key: u64, lg_size: u8) -> int { (2 * ((key >> (lg_size as u64)) & 127) + 1) as int }
spec fn home(key: u64, len: int) -> int { ((key as usize) & ((len - 1) as usize)) as int }
spec fn zero_free(es: Seq<u64>, key: u64, n: u8, j: int) -> bool {
    forall|t: int| 0 <= t < j ==> es[#[trigger] probe_at(home(key, es.len() as int), stride_spec(key, n), t, es.len() as int)] != 0
}
spec fn no_dup(es: Seq<u64>) -> bool {
    forall|i: int, j: int| 0 <= i < es.len() && 0 <= j < es.len() && i != j && es[i] != 0 ==> es[i] != es[j]
}
spec fn reach_at(es: Seq<u64>, n: u8, i: int) -> bool {
    exists|j: int| 0 <= j < es.len() && i == probe_at(home(es[i], es.len() as int), stride_spec(es[i], n), j, es.len() as int) && #[trigger] zero_free(es, es[i], n, j)
}
spec fn reach(es: Seq<u64>, n: u8) -> bool {
    forall|i: int| 0 <= i < es.len() && es[i] != 0 ==> #[trigger] reach_at(es, n, i)
}
spec fn tbl_ok(es: Seq<u64>, n: u8) -> bool {
    n < 32 && es.len() == pow2(n as nat) && no_dup(es) && reach(es, n)
}
spec fn holds(es: Seq<u64>, key: u64) -> bool { exists|i: int| 0 <= i < es.len() && es[i] == key }

spec fn vals(es: Seq<u64>) -> ISet<u64> { ISet::new(|c: u64| c != 0 && holds(es, c)) }
spec fn cap_spec(lg_cur: u8, lg_nom: u8) -> int {
    if lg_cur <= lg_nom { pow2(lg_cur as nat) as int / 2 } else { pow2(lg_cur as nat) as int * 15 / 16 }
}
spec fn nonzero_seq(es: Seq<u64>) -> Seq<u64> { es.filter(|e: u64| e != 0) }
proof fn lemma_filter_facts(es: Seq<u64>)
  requires no_dup(es)
  ensures
    forall|a: int| 0 <= a < nonzero_seq(es).len() ==> nonzero_seq(es)[a] != 0 && holds(es, #[trigger] nonzero_seq(es)[a]),
    forall|c: u64| c != 0 && holds(es, c) ==> nonzero_seq(es).contains(c),
    nonzero_seq(es).no_duplicates(),
{
    let p = |e: u64| e != 0;
    let f = es.filter(p);
    assert forall|a: int| 0 <= a < f.len() implies f[a] != 0 && holds(es, #[trigger] f[a]) by {
        es.lemma_filter_pred(p, a);
        es.lemma_filter_contains_rev(p, f[a]);
    }
    assert forall|c: u64| c != 0 && holds(es, c) implies f.contains(c) by {
        let i = choose|i: int| 0 <= i < es.len() && es[i] == c;
        es.lemma_filter_contains(p, i);
    }
    lemma_filter_nodup(es);
}
proof fn lemma_filter_nodup(es: Seq<u64>)
  requires no_dup(es)
  ensures nonzero_seq(es).no_duplicates()
  decreases es.len()
{
    let p = |e: u64| e != 0;
    reveal(Seq::filter);
    if es.len() > 0 {
        let d = es.drop_last();
        assert(no_dup(d));
        lemma_filter_nodup(d);
        let sub = d.filter(p);
        if p(es.last()) {
            assert(es.filter(p) =~= sub.push(es.last()));
            assert(!sub.contains(es.last())) by {
                if sub.contains(es.last()) {
                    d.lemma_filter_contains_rev(p, es.last());
                    let i = choose|i: int| 0 <= i < d.len() && d[i] == es.last();
                    assert(es[i] == es[es.len() - 1]);
                }
            }
            assert(sub.push(es.last()).no_duplicates()) by {
                assert forall|a: int, b: int| 0 <= a < sub.len() + 1 && 0 <= b < sub.len() + 1 && a != b implies sub.push(es.last())[a] != sub.push(es.last())[b] by {
                    if a == sub.len() { assert(sub.contains(sub[b])); }
                    else if b == sub.len() { assert(sub.contains(sub[a])); }
                }
            }
        } else {
            assert(es.filter(p) =~= sub);
        }
    }
}

proof fn lemma_filter_len_occ(es: Seq<u64>)
  ensures nonzero_seq(es).len() == occ64(es).len()
  decreases es.len()
{
    let p = |e: u64| e != 0;
    reveal(Seq::filter);
    if es.len() == 0 {
        assert(occ64(es) =~= Set::<int>::empty());
    } else {
        let d = es.drop_last();
        lemma_filter_len_occ(d);
        let n = es.len() - 1;
        if p(es.last()) {
            assert(es.filter(p) =~= d.filter(p).push(es.last()));
            assert(occ64(es) =~= occ64(d).insert(n));
            assert(!occ64(d).contains(n));
        } else {
            assert(es.filter(p) =~= d.filter(p));
            assert(occ64(es) =~= occ64(d));
        }
    }
}
spec fn ssm_spec(lg_target: u8, lg_min: u8, lg_rf: u8) -> u8 {
    if lg_target <= lg_min { lg_min } else if lg_rf == 0 { lg_target } else { (((lg_target - lg_min) % (lg_rf as int)) + lg_min) as u8 }
}
spec fn init_lg(lg_nom: u8, rf: ResizeFactor) -> u8 { ssm_spec((lg_nom + 1) as u8, 5, rf.lg()) }
spec fn same_config(a: ThetaHashTable, b: ThetaHashTable) -> bool {
    a.lg_nom_size == b.lg_nom_size && a.lg_max_size == b.lg_max_size && a.resize_factor == b.resize_factor
    && a.sampling_probability == b.sampling_probability && a.hash_seed == b.hash_seed
}
// 15/16 of 2k
spec fn max_load(lg_nom: u8) -> int { pow2((lg_nom + 1) as nat) as int * 15 / 16 }

uninterp spec fn theta0_spec(p: f32) -> u64;
uninterp spec fn hash_spec<T>(seed: u64, v: T) -> u64;
uninterp spec fn seed_hash_spec(seed: u64) -> u16;

#[derive(Clone, Copy)]
enum ResizeFactor { X1, X2, X4, X8 }
impl ResizeFactor {
    fn lg_value ( self ) -> ( r : u8 ) ensures r == self . lg ( ) {
match self {
ResizeFactor :: X1 => 0 , ResizeFactor :: X2 => 1 , ResizeFactor :: X4 => 2 , ResizeFactor :: X8 => 3 , }
}

    spec fn lg(self) -> u8 { match self { ResizeFactor::X1 => 0u8, ResizeFactor::X2 => 1u8, ResizeFactor::X4 => 2u8, ResizeFactor::X8 => 3u8 } }
}
struct ThetaHashTable {
lg_cur_size : u8 , lg_nom_size : u8 , lg_max_size : u8 , resize_factor : ResizeFactor , sampling_probability : f32 , hash_seed : u64 , theta : u64 , entries : Vec < u64 > , num_entries : usize , }






impl ThetaHashTable {
    spec fn wf(&self) -> bool {
        &&& 5 <= self.lg_cur_size <= self.lg_max_size
        &&& self.lg_max_size == self.lg_nom_size + 1
        &&& self.lg_max_size <= 27
        &&& tbl_ok(self.entries@, self.lg_cur_size)
        &&& self.num_entries == occ64(self.entries@).len()
        &&& self.num_entries <= cap_spec(self.lg_cur_size, self.lg_nom_size)
        &&& forall|i: int| 0 <= i < self.entries@.len() ==> self.entries@[i] < self.theta || self.entries@[i] == 0
        &&& (self.lg_cur_size <= self.lg_nom_size ==> self.resize_factor.lg() > 0)
        &&& self.theta <= MAX_THETA
    }
    // the state `new` builds and `reset` restores
    spec fn is_initial(&self) -> bool {
        &&& self.lg_cur_size == init_lg(self.lg_nom_size, self.resize_factor)
        &&& self.lg_max_size == self.lg_nom_size + 1
        &&& self.entries@.len() == pow2(self.lg_cur_size as nat)
        &&& (forall|i: int| 0 <= i < self.entries@.len() ==> self.entries@[i] == 0)
        &&& self.num_entries == 0
        &&& self.theta == theta0_spec(self.sampling_probability)
    }



    // contracts of hash_and_screen / try_insert, verified on the real bodies in unit theta_table
    #[verifier::external_body]
    fn hash_and_screen<T: Hash>(&mut self, value: T) -> (r: u64)
      ensures *final(self) == *old(self),
        r == (if (hash_spec(old(self).hash_seed, value) >> 1) < old(self).theta { hash_spec(old(self).hash_seed, value) >> 1 } else { 0 }),
        r != 0 ==> r < old(self).theta,
    { unimplemented!() }

    #[verifier::external_body]
    fn try_insert(&mut self, hash: u64) -> (r: bool)
      requires old(self).wf(), hash < old(self).theta
      ensures final(self).wf(), same_config(*final(self), *old(self)), 0 < final(self).theta <= old(self).theta,
        hash == 0 ==> !r && final(self).entries@ == old(self).entries@ && final(self).theta == old(self).theta && final(self).num_entries == old(self).num_entries,
        hash != 0 ==> r == !holds(old(self).entries@, hash),
        hash != 0 ==> vals(final(self).entries@) == vals(old(self).entries@).insert(hash).filter(|c: u64| c < final(self).theta),
        final(self).num_entries <= max_load(final(self).lg_nom_size),
    { unimplemented!() }

    // contract of ThetaHashTable::new, verified on the real body in unit theta_table
    #[verifier::external_body]
    fn new(lg_nom_size: u8, resize_factor: ResizeFactor, sampling_probability: f32, hash_seed: u64) -> (r: Self)
      requires 5 <= lg_nom_size <= 26
      ensures r.wf(), r.is_initial(),
        r.lg_nom_size == lg_nom_size, r.resize_factor == resize_factor, r.sampling_probability == sampling_probability, r.hash_seed == hash_seed,
        forall|c: u64| !vals(r.entries@).contains(c),
    { unimplemented!() }
}

struct ThetaSketch {
table : ThetaHashTable , }



struct ThetaSketchBuilder {
lg_k : u8 , resize_factor : ResizeFactor , sampling_probability : f32 , seed : u64 , }



impl ThetaSketch {
    // identical to ThetaSketch::wf in contracts/theta_sketch.rs
    spec fn wf(&self) -> bool {
        &&& self.table.wf()
        &&& 0 < self.table.theta
        &&& 0 < theta0_spec(self.table.sampling_probability)
    }
}

impl ThetaSketch {
    // Second known issue kept visible (C01/C04 "emptiness"): is_empty() is `num_entries == 0`, so a sketch that HAS been offered items
    // still reports empty when every hash was screened out (sampling_probability < 1) - Java/C++ clear the empty flag on every update.
    // EXPECTED TO FAIL at /*@C01.theta.empty_after_update*/; input: builder().lg_k(5).sampling_probability(1e-9), 1000 updates:
    // is_empty() == true, estimate == 0, upper_bound(Three) == 0.
    fn update < T : Hash > ( & mut self , value : T ) requires old ( self ) . wf ( ) ensures final ( self ) . table . wf ( ) ,
/*@C01.theta.empty_after_update*/ final ( self ) . table . num_entries != 0 , {
let hash = self . table . hash_and_screen ( value ) ;
if hash != 0 {
self . table . try_insert ( hash ) ;
}
}

}

impl ThetaSketchBuilder {
    // what the two asserting setters lg_k() / sampling_probability() (and Default: 12, X8, 1.0) guarantee; the setters take `mut self`,
    // which Verus does not support, so they are not in the unit: their assert! conditions are this predicate
    spec fn wf(&self) -> bool { 5 <= self.lg_k <= 26 && p_ok(self.sampling_probability) }

    fn build ( self ) -> ( r : ThetaSketch ) requires self . wf ( ) ensures
/*@C04.build.table*/ r . table . wf ( ) && r . table . is_initial ( ) && r . table . lg_nom_size == self . lg_k && r . table . hash_seed == self . seed ,
/*@C01.theta.theta0_pos*/ r . wf ( ) , {
let table = ThetaHashTable :: new ( self . lg_k , self . resize_factor , self . sampling_probability , self . seed , ) ;
ThetaSketch {
table }
}


}
}
fn main(){}
