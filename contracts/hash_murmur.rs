use vstd::prelude::*;
verus! {
global size_of usize == 8;

// ================= assumptions about std =================
// u64::rotate_left: the usual definition for the rotation amounts the code uses (constants 1..63)
pub assume_specification[ u64::rotate_left ](x: u64, n: u32) -> (r: u64)
    ensures 0 < n < 64 ==> r == rotl64(x, n);
#[verifier::opaque]
pub open spec fn rotl64(x: u64, n: u32) -> u64 { (x << n) | (x >> ((64 - n) as u32)) }

// R4 shim: seed.to_le_bytes()
#[verifier::external_body]
fn vx_u64_to_le_bytes(x: u64) -> (r: [u8; 8])
  ensures r@ == le_bytes8(x)
{ x.to_le_bytes() }

// ================= leaf (assumed here; discharged by the Kani harness leaf_read_u64_le) =================
// little-endian value of at most 8 bytes, zero padded
#[verifier::opaque]
spec fn le64(b: Seq<u8>) -> u64
  decreases b.len()
{
    if b.len() == 0 { 0 } else { (b[0] as u64) | (le64(b.skip(1)) << 8) }
}
spec fn le_bytes8(x: u64) -> Seq<u8> {
    seq![(x & 0xff) as u8, ((x >> 8) & 0xff) as u8, ((x >> 16) & 0xff) as u8, ((x >> 24) & 0xff) as u8,
         ((x >> 32) & 0xff) as u8, ((x >> 40) & 0xff) as u8, ((x >> 48) & 0xff) as u8, ((x >> 56) & 0xff) as u8]
}

#[verifier::external_body]
fn read_u64_le(bytes: &[u8]) -> (r: u64)
  requires bytes.len() <= 8
  ensures r == le64(bytes@)
{
    let mut buf = [0u8; 8];
    buf[..bytes.len()].copy_from_slice(bytes);
    u64::from_le_bytes(buf)
}

// ================= reference specification: MurmurHash3_x64_128 (Appleby, MurmurHash3.cpp) =================
const C1 : u64 = 0x87c37b91114253d5 ;


const C2 : u64 = 0x4cf5ad432745937f ;



spec fn wmul(a: u64, b: u64) -> u64 { a.wrapping_mul(b) }
spec fn wadd(a: u64, b: u64) -> u64 { a.wrapping_add(b) }

spec fn mix_k1(k1: u64) -> u64 { wmul(rotl64(wmul(k1, C1), 31), C2) }
spec fn mix_k2(k2: u64) -> u64 { wmul(rotl64(wmul(k2, C2), 33), C1) }

#[verifier::opaque]
spec fn block_step(h: (u64, u64), k1: u64, k2: u64) -> (u64, u64) {
    let h1a = wadd(wmul(wadd(rotl64(h.0 ^ mix_k1(k1), 27), h.1), 5), 0x52dce729);
    let h2a = wadd(wmul(wadd(rotl64(h.1 ^ mix_k2(k2), 31), h1a), 5), 0x38495ab5);
    (h1a, h2a)
}

// state after absorbing n 16-byte blocks of s starting from state h
spec fn absorb_from(h: (u64, u64), s: Seq<u8>, n: nat) -> (u64, u64)
  decreases n
{
    if n == 0 { h } else {
        let prev = absorb_from(h, s, (n - 1) as nat);
        let off = 16 * (n - 1);
        block_step(prev, le64(s.subrange(off, off + 8)), le64(s.subrange(off + 8, off + 16)))
    }
}
spec fn absorb(seed: u64, d: Seq<u8>, n: nat) -> (u64, u64) { absorb_from((seed, seed), d, n) }

#[verifier::opaque]
spec fn fmix64_spec(k: u64) -> u64 {
    let k = k ^ (k >> 33);
    let k = wmul(k, 0xff51afd7ed558ccd);
    let k = k ^ (k >> 33);
    let k = wmul(k, 0xc4ceb9fe1a85ec53);
    k ^ (k >> 33)
}

// tail (0..15 bytes) and finalization, from state h after the full blocks; len = total message length
#[verifier::opaque]
spec fn murmur_tail(h: (u64, u64), tail: Seq<u8>) -> (u64, u64) {
    let h2 = if tail.len() > 8 { h.1 ^ mix_k2(le64(tail.subrange(8, tail.len() as int))) } else { h.1 };
    let h1 = if tail.len() > 0 { h.0 ^ mix_k1(le64(tail.subrange(0, if tail.len() < 8 { tail.len() as int } else { 8 }))) } else { h.0 };
    (h1, h2)
}
spec fn murmur_final(h: (u64, u64), len: u64) -> (u64, u64) {
    let h1 = h.0 ^ len;
    let h2 = h.1 ^ len;
    let h1 = wadd(h1, h2);
    let h2 = wadd(h2, h1);
    let h1 = fmix64_spec(h1);
    let h2 = fmix64_spec(h2);
    let h1 = wadd(h1, h2);
    let h2 = wadd(h2, h1);
    (h1, h2)
}
// the one-shot digest of the byte string d under `seed`
spec fn murmur3_x64_128(seed: u64, d: Seq<u8>) -> (u64, u64) {
    let nblocks = (d.len() / 16) as nat;
    let h = absorb(seed, d, nblocks);
    let t = murmur_tail(h, d.subrange(16 * nblocks as int, d.len() as int));
    murmur_final(t, d.len() as u64)
}
spec fn seed_hash_spec(seed: u64) -> u16 { (murmur3_x64_128(0, le_bytes8(seed)).0 & 0xffff) as u16 }

proof fn lemma_absorb_prefix(h: (u64,u64), d1: Seq<u8>, d2: Seq<u8>, n: nat)
  requires 16 * n <= d1.len(), d1.len() <= d2.len(), d2.subrange(0, d1.len() as int) =~= d1
  ensures absorb_from(h, d1, n) == absorb_from(h, d2, n)
  decreases n
{
    if n > 0 {
        lemma_absorb_prefix(h, d1, d2, (n - 1) as nat);
        let off = 16 * (n - 1);
        assert(d1.subrange(off, off + 8) =~= d2.subrange(off, off + 8));
        assert(d1.subrange(off + 8, off + 16) =~= d2.subrange(off + 8, off + 16));
    }
}

proof fn lemma_absorb_split(h: (u64,u64), s: Seq<u8>, a: nat, b: nat)
  requires 16 * (a + b) <= s.len()
  ensures absorb_from(h, s, a + b) == absorb_from(absorb_from(h, s, a), s.skip(16 * a as int), b)
  decreases b
{
    if b > 0 {
        lemma_absorb_split(h, s, a, (b - 1) as nat);
        let t = s.skip(16 * a as int);
        let off = 16 * (b - 1);
        let offs = 16 * (a + b - 1);
        assert(s.subrange(offs, offs + 8) =~= t.subrange(off, off + 8));
        assert(s.subrange(offs + 8, offs + 16) =~= t.subrange(off + 8, off + 16));
        assert((a + b - 1) as nat == a + ((b - 1) as nat));
    }
}

// the byte stream seen by the block function after `pre`: buffered bytes, then the new bytes
spec fn stream(pre: MurmurHash3X64128, all: Seq<u8>) -> Seq<u8> { pre.buf@.subrange(0, pre.buf_len as int) + all }

proof fn lemma_represents_after(pre: MurmurHash3X64128, post: MurmurHash3X64128, all: Seq<u8>, seed: u64, d: Seq<u8>)
  requires
    pre.represents(seed, d),
    post.buf_len < 16, post.total % 16 == 0, post.total >= pre.total,
    post.total + post.buf_len == pre.total + pre.buf_len + all.len(),
    (post.h1, post.h2) == absorb_from((pre.h1, pre.h2), stream(pre, all), ((post.total - pre.total) / 16) as nat),
    post.buf@.subrange(0, post.buf_len as int) =~= stream(pre, all).skip(post.total - pre.total),
  ensures post.represents(seed, d + all)
{
    reveal(MurmurHash3X64128::represents);
    let dd = d + all;
    let n0 = (pre.total / 16) as nat;
    let m = ((post.total - pre.total) / 16) as nat;
    assert(dd.skip(16 * n0 as int) =~= stream(pre, all));
    lemma_absorb_prefix((seed, seed), d, dd, n0);
    lemma_absorb_split((seed, seed), dd, n0, m);
    assert((post.total / 16) as nat == n0 + m);
    assert(post.buf@.subrange(0, post.buf_len as int) =~= dd.subrange(post.total as int, dd.len() as int));
}

// one iteration of the block loop of `write`: block base+i of the stream st is block i of bytes = st.skip(done)
proof fn lemma_block_iter(h: (u64, u64), st: Seq<u8>, bytes: Seq<u8>, done: int, base: nat, i: int)
  requires done == 16 * base, bytes =~= st.skip(done), 0 <= done, 0 <= i, done + 16 * (i + 1) <= st.len()
  ensures absorb_from(h, st, (base + i + 1) as nat)
       == block_step(absorb_from(h, st, (base + i) as nat), le64(bytes.subrange(16 * i, 16 * i + 8)), le64(bytes.subrange(16 * i + 8, 16 * i + 16)))
{
    let n: nat = (base + i) as nat;
    let off: int = 16 * (n as int);
    assert(st.subrange(off, off + 8) =~= bytes.subrange(16 * i, 16 * i + 8));
    assert(st.subrange(off + 8, off + 16) =~= bytes.subrange(16 * i + 8, 16 * i + 16));
    assert((n + 1 - 1) as nat == n);
}

proof fn lemma_tail(h: (u64, u64), tl: Seq<u8>, h1: u64, h2: u64)
  requires
    tl.len() == 0 ==> h1 == h.0,
    tl.len() > 0 ==> h1 == h.0 ^ mix_k1(le64(tl.subrange(0, if tl.len() < 8 { tl.len() as int } else { 8 }))),
    tl.len() > 8 ==> h2 == h.1 ^ mix_k2(le64(tl.subrange(8, tl.len() as int))),
    tl.len() <= 8 ==> h2 == h.1,
  ensures (h1, h2) == murmur_tail(h, tl)
{
    reveal(murmur_tail);
}

proof fn lemma_digest(st: MurmurHash3X64128, seed: u64, d: Seq<u8>)
  requires st.represents(seed, d)
  ensures murmur3_x64_128(seed, d) == murmur_final(murmur_tail((st.h1, st.h2), st.buf@.subrange(0, st.buf_len as int)), (st.total + st.buf_len) as u64)
{
    reveal(MurmurHash3X64128::represents);
    let nb = (d.len() / 16) as nat;
    assert(nb == (st.total / 16) as nat);
    assert(16 * nb == st.total);
    assert(d.subrange(16 * nb as int, d.len() as int) =~= st.buf@.subrange(0, st.buf_len as int));
}

// ================= known-answer vectors: tie the spec to the published algorithm =================
proof fn kat_murmur()
{
    assert(fmix64_spec(1) == 0xb456bcfc34c2cb2c) by (compute);
    assert(murmur3_x64_128(0, Seq::<u8>::empty()) == (0u64, 0u64)) by (compute);
    // 'The quick brown fox jumps over the lazy dog' seed 0: tail of 11 bytes; published vector, also in the repo's tests
    assert(murmur3_x64_128(0, seq![0x54u8, 0x68, 0x65, 0x20, 0x71, 0x75, 0x69, 0x63, 0x6b, 0x20, 0x62, 0x72, 0x6f, 0x77, 0x6e, 0x20, 0x66, 0x6f, 0x78, 0x20, 0x6a, 0x75, 0x6d, 0x70, 0x73, 0x20, 0x6f, 0x76, 0x65, 0x72, 0x20, 0x74, 0x68, 0x65, 0x20, 0x6c, 0x61, 0x7a, 0x79, 0x20, 0x64, 0x6f, 0x67]) == (0xe34bbc7bbc071b6cu64, 0x7a433ca9c49a9347u64)) by (compute);
    // 'The quick brown fox jumps over the lazy dogdogdog' seed 0: tail of 1 byte (repo test vector)
    assert(murmur3_x64_128(0, seq![0x54u8, 0x68, 0x65, 0x20, 0x71, 0x75, 0x69, 0x63, 0x6b, 0x20, 0x62, 0x72, 0x6f, 0x77, 0x6e, 0x20, 0x66, 0x6f, 0x78, 0x20, 0x6a, 0x75, 0x6d, 0x70, 0x73, 0x20, 0x6f, 0x76, 0x65, 0x72, 0x20, 0x74, 0x68, 0x65, 0x20, 0x6c, 0x61, 0x7a, 0x79, 0x20, 0x64, 0x6f, 0x67, 0x64, 0x6f, 0x67, 0x64, 0x6f, 0x67]) == (0x9c8205300e612fc4u64, 0xcbc0af6136aa3df9u64)) by (compute);
    // 'The quick brown fox jumps over the lazy1' seed 0: tail of 8 bytes (repo test vector)
    assert(murmur3_x64_128(0, seq![0x54u8, 0x68, 0x65, 0x20, 0x71, 0x75, 0x69, 0x63, 0x6b, 0x20, 0x62, 0x72, 0x6f, 0x77, 0x6e, 0x20, 0x66, 0x6f, 0x78, 0x20, 0x6a, 0x75, 0x6d, 0x70, 0x73, 0x20, 0x6f, 0x76, 0x65, 0x72, 0x20, 0x74, 0x68, 0x65, 0x20, 0x6c, 0x61, 0x7a, 0x79, 0x31]) == (0xe3301a827e5cdfe3u64, 0xbdbf05f8da0f0392u64)) by (compute);
    // 'The quick brown fox jumps over t' seed 0: no tail (repo test vector)
    assert(murmur3_x64_128(0, seq![0x54u8, 0x68, 0x65, 0x20, 0x71, 0x75, 0x69, 0x63, 0x6b, 0x20, 0x62, 0x72, 0x6f, 0x77, 0x6e, 0x20, 0x66, 0x6f, 0x78, 0x20, 0x6a, 0x75, 0x6d, 0x70, 0x73, 0x20, 0x6f, 0x76, 0x65, 0x72, 0x20, 0x74]) == (0xdf6af91bb29bdacfu64, 0x91a341c58df1f3a6u64)) by (compute);
    // 'The quick brown fox jumps over the lazy dog' seed 9001: non-zero seed (value from an independent Python transcription of MurmurHash3.cpp)
    assert(murmur3_x64_128(9001, seq![0x54u8, 0x68, 0x65, 0x20, 0x71, 0x75, 0x69, 0x63, 0x6b, 0x20, 0x62, 0x72, 0x6f, 0x77, 0x6e, 0x20, 0x66, 0x6f, 0x78, 0x20, 0x6a, 0x75, 0x6d, 0x70, 0x73, 0x20, 0x6f, 0x76, 0x65, 0x72, 0x20, 0x74, 0x68, 0x65, 0x20, 0x6c, 0x61, 0x7a, 0x79, 0x20, 0x64, 0x6f, 0x67]) == (0x2f67dcdbc56dbf23u64, 0x8a0a2fafd6b2155cu64)) by (compute);
}

// ================= hash/murmurhash.rs (real code + overlay) =================
struct MurmurHash3X64128 {
h1 : u64 , h2 : u64 , total : u64 , buf : [ u8 ;
16 ] , buf_len : usize , }



impl MurmurHash3X64128 {
    spec fn wf(&self) -> bool { self.buf_len < 16 && self.total % 16 == 0 }
    // number of bytes hashed so far
    spec fn len(&self) -> int { self.total + self.buf_len }

    // the hasher state is the one reached after feeding exactly the bytes d to a hasher created with `seed`
    #[verifier::opaque]
    spec fn represents(&self, seed: u64, d: Seq<u8>) -> bool {
        &&& self.buf_len < 16
        &&& self.total % 16 == 0
        &&& d.len() == self.total + self.buf_len
        &&& (self.h1, self.h2) == absorb(seed, d, (self.total / 16) as nat)
        &&& self.buf@.subrange(0, self.buf_len as int) =~= d.subrange(self.total as int, d.len() as int)
    }

    // REFINEMENT of the abstract hasher model of the sketch units (cpc_api, hll_coupons: `fresh`, `seed_of`, `fed`, `digest` are uninterpreted
    // there): a fresh hasher has absorbed nothing and still shows its seed; a fed hasher is a reachable state; its digest is the
    // MurmurHash3 of what it was fed (finish128 below proves that this does not depend on the choice)
    spec fn fresh(&self) -> bool { self.represents(self.h1, Seq::<u8>::empty()) && self.wf() && self.len() == 0 }
    spec fn seed_of(&self) -> u64 { self.h1 }
    spec fn fed(&self) -> bool { self.buf_len < 16 && self.len() <= u64::MAX && exists|seed: u64, d: Seq<u8>| #[trigger] self.represents(seed, d) }
    spec fn digest(&self) -> (u64, u64) { let p = choose|seed: u64, d: Seq<u8>| #[trigger] self.represents(seed, d); murmur3_x64_128(p.0, p.1) }

    fn with_seed ( seed : u64 ) -> ( r : Self ) ensures
/*@C16.m_init*/ r . represents ( seed , Seq :: < u8 > :: empty ( ) ) , r . wf ( ) , r . len ( ) == 0 ,
/*@C16.m_init*/ r . fresh ( ) , r . seed_of ( ) == seed , {
proof {
reveal ( MurmurHash3X64128 :: represents ) ;
}
MurmurHash3X64128 {
h1 : seed , h2 : seed , total : 0 , buf : [ 0 ;
16 ] , buf_len : 0 , }
}



    fn finish128 ( & self ) -> ( r : ( u64 , u64 ) ) requires self . buf_len < 16 , self . len ( ) <= u64 :: MAX , ensures
/*@C16.m_digest*/ forall | seed : u64 , d : Seq < u8 > | # [ trigger ] self . represents ( seed , d ) ==> r == murmur3_x64_128 ( seed , d ) ,
/*@C16.m_digest*/ self . fed ( ) ==> r == self . digest ( ) , {
hide ( vstd :: wrapping :: u64_specs :: wrapping_mul ) ;
hide ( vstd :: wrapping :: u64_specs :: wrapping_add ) ;
let mut h1 = self . h1 ;
let mut h2 = self . h2 ;
let total = self . total + self . buf_len as u64 ;
let rem = self . buf_len ;
let ghost tl = self . buf @ . subrange ( 0 , rem as int ) ;
if rem > 0 {
if rem > 8 {
let mut k2 = read_u64_le ( & self . buf [ 8 .. rem ] ) ;
proof {
assert ( self . buf @ . subrange ( 8 , rem as int ) =~= tl . subrange ( 8 , tl . len ( ) as int ) ) ;
assert forall | a : u64 , b : u64 | # [ trigger ] ( a ^ b ) == b ^ a by {
assert ( a ^ b == b ^ a ) by ( bit_vector ) ;
}
}
k2 = k2 . wrapping_mul ( C2 ) ;
k2 = k2 . rotate_left ( 33 ) ;
k2 = k2 . wrapping_mul ( C1 ) ;
h2 ^= k2 ;
}
let k1_len = rem . min ( 8 ) ;
let mut k1 = read_u64_le ( & self . buf [ .. k1_len ] ) ;
proof {
assert ( self . buf @ . subrange ( 0 , k1_len as int ) =~= tl . subrange ( 0 , k1_len as int ) ) ;
assert forall | a : u64 , b : u64 | # [ trigger ] ( a ^ b ) == b ^ a by {
assert ( a ^ b == b ^ a ) by ( bit_vector ) ;
}
}
k1 = k1 . wrapping_mul ( C1 ) ;
k1 = k1 . rotate_left ( 31 ) ;
k1 = k1 . wrapping_mul ( C2 ) ;
h1 ^= k1 ;
proof {
lemma_tail ( ( self . h1 , self . h2 ) , tl , h1 , h2 ) ;
}
}
else {
proof {
lemma_tail ( ( self . h1 , self . h2 ) , tl , h1 , h2 ) ;
}
}
let ghost t = ( h1 , h2 ) ;
h1 ^= total ;
h2 ^= total ;
h1 = h1 . wrapping_add ( h2 ) ;
h2 = h2 . wrapping_add ( h1 ) ;
h1 = fmix64 ( h1 ) ;
h2 = fmix64 ( h2 ) ;
h1 = h1 . wrapping_add ( h2 ) ;
h2 = h2 . wrapping_add ( h1 ) ;
proof {
assert ( ( h1 , h2 ) == murmur_final ( t , total ) ) ;
assert forall | seed : u64 , d : Seq < u8 > | # [ trigger ] self . represents ( seed , d ) implies ( h1 , h2 ) == murmur3_x64_128 ( seed , d ) by {
lemma_digest ( * self , seed , d ) ;
}
}
( h1 , h2 ) }



    fn update ( & mut self , mut k1 : u64 , mut k2 : u64 ) requires old ( self ) . total <= u64 :: MAX - 16 ensures
/*@C16.m_block*/ ( final ( self ) . h1 , final ( self ) . h2 ) == block_step ( ( old ( self ) . h1 , old ( self ) . h2 ) , k1 , k2 ) , final ( self ) . total == old ( self ) . total + 16 , final ( self ) . buf == old ( self ) . buf , final ( self ) . buf_len == old ( self ) . buf_len , {
hide ( vstd :: wrapping :: u64_specs :: wrapping_mul ) ;
hide ( vstd :: wrapping :: u64_specs :: wrapping_add ) ;
proof {
reveal ( block_step ) ;
}
k1 = k1 . wrapping_mul ( C1 ) ;
k1 = k1 . rotate_left ( 31 ) ;
k1 = k1 . wrapping_mul ( C2 ) ;
self . h1 ^= k1 ;
self . h1 = self . h1 . rotate_left ( 27 ) ;
self . h1 = self . h1 . wrapping_add ( self . h2 ) ;
self . h1 = self . h1 . wrapping_mul ( 5 ) . wrapping_add ( 0x52dce729 ) ;
k2 = k2 . wrapping_mul ( C2 ) ;
k2 = k2 . rotate_left ( 33 ) ;
k2 = k2 . wrapping_mul ( C1 ) ;
self . h2 ^= k2 ;
self . h2 = self . h2 . rotate_left ( 31 ) ;
self . h2 = self . h2 . wrapping_add ( self . h1 ) ;
self . h2 = self . h2 . wrapping_mul ( 5 ) . wrapping_add ( 0x38495ab5 ) ;
self . total += 16 ;
}



    fn finish ( & self ) -> ( r : u64 ) requires self . buf_len < 16 , self . len ( ) <= u64 :: MAX , ensures
/*@C16.m_digest64*/ forall | seed : u64 , d : Seq < u8 > | # [ trigger ] self . represents ( seed , d ) ==> r == murmur3_x64_128 ( seed , d ) . 0 , {
self . finish128 ( ) . 0 }



    fn write ( & mut self , mut bytes : & [ u8 ] ) requires old ( self ) . wf ( ) , old ( self ) . len ( ) + bytes . len ( ) + 16 <= u64 :: MAX , ensures
/*@C16.m_append*/ forall | seed : u64 , d : Seq < u8 > | # [ trigger ] old ( self ) . represents ( seed , d ) ==> final ( self ) . represents ( seed , d + bytes @ ) , final ( self ) . wf ( ) , final ( self ) . len ( ) == old ( self ) . len ( ) + bytes . len ( ) , {
let ghost pre = * self ;
let ghost all = bytes @ ;
let ghost st = stream ( pre , all ) ;
if self . buf_len + bytes . len ( ) < 16 {
self . buf [ self . buf_len .. self . buf_len + bytes . len ( ) ] . copy_from_slice ( bytes ) ;
self . buf_len += bytes . len ( ) ;
proof {
assert ( self . buf @ . subrange ( 0 , self . buf_len as int ) =~= st ) ;
assert forall | seed : u64 , d : Seq < u8 > | # [ trigger ] pre . represents ( seed , d ) implies self . represents ( seed , d + all ) by {
lemma_represents_after ( pre , * self , all , seed , d ) ;
}
}
return ;
}
if self . buf_len != 0 {
let wanted = 16 - self . buf_len ;
self . buf [ self . buf_len .. ] . copy_from_slice ( & bytes [ .. wanted ] ) ;
let k1 = read_u64_le ( & self . buf [ 0 .. 8 ] ) ;
let k2 = read_u64_le ( & self . buf [ 8 .. 16 ] ) ;
self . update ( k1 , k2 ) ;
bytes = & bytes [ wanted .. ] ;
self . buf_len = 0 ;
proof {
assert ( st . subrange ( 0 , 8 ) =~= self . buf @ . subrange ( 0 , 8 ) ) ;
assert ( st . subrange ( 8 , 16 ) =~= self . buf @ . subrange ( 8 , 16 ) ) ;
reveal_with_fuel ( absorb_from , 2 ) ;
}
}
let ghost done : int = self . total - pre . total ;
let ghost base : nat = if done == 0 {
0 }
else {
1 }
;
let blocks = bytes . len ( ) >> 4 ;
proof {
let l = bytes . len ( ) ;
assert ( l >> 4 == l / 16 ) by ( bit_vector ) ;
}
for i in 0 .. blocks invariant blocks == bytes @ . len ( ) / 16 , self . buf_len == 0 , self . total % 16 == 0 , self . total == pre . total + done + 16 * i , done == 0 || done == 16 , done + bytes @ . len ( ) == st . len ( ) , bytes @ =~= st . skip ( done ) , pre . total as int + st . len ( ) + 16 <= u64 :: MAX , done == 16 * base , 16 * blocks <= bytes @ . len ( ) ,
/*@C16.m_blocks*/ ( self . h1 , self . h2 ) == absorb_from ( ( pre . h1 , pre . h2 ) , st , base + i as nat ) , {
let lo = i << 4 ;
proof {
assert ( i < 0x0fff_ffff_ffff_ffffusize ==> i << 4 == i * 16 ) by ( bit_vector ) ;
}
let mi = lo + 8 ;
let hi = mi + 8 ;
let k1 = read_u64_le ( & bytes [ lo .. mi ] ) ;
let k2 = read_u64_le ( & bytes [ mi .. hi ] ) ;
self . update ( k1 , k2 ) ;
proof {
lemma_block_iter ( ( pre . h1 , pre . h2 ) , st , bytes @ , done , base , i as int ) ;
}
}
proof {
assert ( self . total - pre . total == 16 * ( base + blocks ) ) ;
assert ( ( ( self . total - pre . total ) / 16 ) as nat == base + blocks as nat ) ;
let l = bytes . len ( ) ;
assert ( l & 15 == l % 16 ) by ( bit_vector ) ;
}
let len = bytes . len ( ) % 16 ;
if len > 0 {
proof {
assert ( blocks < 0x0fff_ffff_ffff_ffffusize ==> blocks << 4 == blocks * 16 ) by ( bit_vector ) ;
}
self . buf [ 0 .. len ] . copy_from_slice ( & bytes [ blocks << 4 .. ] ) ;
self . buf_len = len ;
}
proof {
assert ( self . buf @ . subrange ( 0 , self . buf_len as int ) =~= st . skip ( self . total - pre . total ) ) ;
assert forall | seed : u64 , d : Seq < u8 > | # [ trigger ] pre . represents ( seed , d ) implies self . represents ( seed , d + all ) by {
lemma_represents_after ( pre , * self , all , seed , d ) ;
}
}
}


}

fn fmix64 ( mut k : u64 ) -> ( r : u64 ) ensures
/*@C16.m_fmix*/ r == fmix64_spec ( k ) , {
hide ( vstd :: wrapping :: u64_specs :: wrapping_mul ) ;
hide ( vstd :: wrapping :: u64_specs :: wrapping_add ) ;
proof {
reveal ( fmix64_spec ) ;
}
k ^= k >> 33 ;
k = k . wrapping_mul ( 0xff51afd7ed558ccd ) ;
k ^= k >> 33 ;
k = k . wrapping_mul ( 0xc4ceb9fe1a85ec53 ) ;
k ^ ( k >> 33 ) }



// ================= hash/mod.rs =================
// R12b: a DOCUMENTED panic ("Panics if the computed seed hash is zero") is modelled as 'returns only if the condition holds': the
// condition is a tagged POSTCONDITION instead of a precondition, so weakening or removing the check is noticed.  Body = the original statement.
#[verifier::external_body] fn vx_documented_panic(c: bool) ensures c { assert!(c); }
fn compute_seed_hash ( seed : u64 ) -> ( r : u16 ) ensures
/*@C16.seed_hash*/ r == seed_hash_spec ( seed ) ,
/*@C16.seed_hash_nonzero_validated*/ r != 0 && seed_hash_spec ( seed ) != 0 , {
use std :: hash :: Hasher ;
let mut hasher = MurmurHash3X64128 :: with_seed ( 0 ) ;
hasher . write ( & vx_u64_to_le_bytes ( seed ) ) ;
proof {
assert ( Seq :: < u8 > :: empty ( ) + le_bytes8 ( seed ) =~= le_bytes8 ( seed ) ) ;
}
let ( h1 , _ ) = hasher . finish128 ( ) ;
proof {
assert ( h1 & 0xffff == h1 % 0x10000 && h1 & 0xffff == 0xffff & h1 ) by ( bit_vector ) ;
}
let seed_hash = ( h1 & 0xffff ) as u16 ;
vx_documented_panic ( seed_hash != 0 ) ;
seed_hash }




// Count-Min per-row hash seeds (countmin/sketch.rs): row r hashes with h1 of murmur3(seed, le64(r)) - the documented derivation
#[verifier::external_body] fn vx_u64_from_u8(i: u8) -> (r: u64) ensures r == i as u64 { u64::from(i) }
spec fn cm_row_seed(seed: u64, r: int) -> u64 { murmur3_x64_128(seed, le_bytes8(r as u64)).0 }
spec fn cm_seeds_spec(seed: u64, n: u8) -> Seq<u64> { Seq::new(n as nat, |r: int| cm_row_seed(seed, r)) }
fn make_hash_seeds ( seed : u64 , num_hashes : u8 ) -> ( r : Vec < u64 > ) ensures
/*@C08.row_seeds,C16.cm_row_seeds*/ r @ =~= cm_seeds_spec ( seed , num_hashes ) , r @ . len ( ) == num_hashes , {
let mut seeds = Vec :: with_capacity ( num_hashes as usize ) ;
for i in 0 .. num_hashes invariant seeds @ . len ( ) == i , forall | j : int | 0 <= j < i ==> seeds @ [ j ] == cm_row_seed ( seed , j ) , {
let mut hasher = MurmurHash3X64128 :: with_seed ( seed ) ;
hasher . write ( & vx_u64_to_le_bytes ( vx_u64_from_u8 ( i ) ) ) ;
proof {
assert ( Seq :: < u8 > :: empty ( ) + le_bytes8 ( i as u64 ) =~= le_bytes8 ( i as u64 ) ) ;
}
let ( h1 , _ ) = hasher . finish128 ( ) ;
seeds . push ( h1 ) ;
}
seeds }


}
fn main(){}
