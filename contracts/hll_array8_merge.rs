use vstd::prelude::*;
use vstd::arithmetic::power2::*;
verus! {
global size_of usize == 8;
// Unit hll_array8_merge (C03, C17): the real bodies of Array8::merge_array_same_lgk / merge_array_with_downsample against
//   regs' == pmax(regs, src)   and   regs' == pmax(regs, fold(src, lg))   with fold(src, lg)[i] = max{ src[j] : j % 2^lg == i },
// num_zeros recomputed (wf) and the estimator flagged out of order.  Unit hll_union uses exactly these clauses as the (opaque) contract
// of the two methods.  Opaque: rebuild_cached_values (float kxq sums + iterator count), HipEstimator::set_out_of_order.

// ================= estimator (float state; opaque) =================
// Only the out-of-order flag is modelled here; kxq/hip accumulators are floats (C01's business).
#[verifier::external_body]
struct HipEstimator { _p: u8 }
impl HipEstimator {
    uninterp spec fn ooo(&self) -> bool;
    #[verifier::external_body]
    fn set_out_of_order(&mut self, ooo: bool)
      ensures final(self).ooo() == ooo
    { unimplemented!() }
}


struct Array8 {
lg_config_k : u8 , bytes : Box < [ u8 ] > , num_zeros : u32 , estimator : HipEstimator , }


spec fn max8(a: u8, b: u8) -> u8 { if a >= b { a } else { b } }
spec fn pmax(a: Seq<u8>, b: Seq<u8>) -> Seq<u8> { Seq::new(a.len(), |i: int| max8(a[i], b[i])) }
// max of the source registers j < n with j % k == i  (the registers that fold onto slot i of a k-register sketch)
spec fn foldmax(src: Seq<u8>, k: int, i: int, n: int) -> u8 decreases n {
    if n <= 0 { 0 } else {
        let prev = foldmax(src, k, i, n - 1);
        if (n - 1) % k == i { max8(prev, src[n - 1]) } else { prev }
    }
}
spec fn fold(src: Seq<u8>, lg: u8) -> Seq<u8> {
    Seq::new(pow2(lg as nat), |i: int| foldmax(src, pow2(lg as nat) as int, i, src.len() as int))
}
spec fn cnt0(r: Seq<u8>, n: int) -> int decreases n {
    if n <= 0 { 0 } else { cnt0(r, n - 1) + (if r[n - 1] == 0 { 1int } else { 0int }) }
}

proof fn lemma_k(l: u8)
  requires 4 <= l <= 21
  ensures 16 <= pow2(l as nat) <= 0x20_0000, (1u32 << l) == pow2(l as nat), (1usize << l) == pow2(l as nat)
{
    lemma2_to64();
    if l < 21 { lemma_pow2_strictly_increases(l as nat, 21); }
    if l > 4 { lemma_pow2_strictly_increases(4, l as nat); }
    vstd::bits::lemma_u32_shl_is_mul(1, l as u32);
    assert((1u32 << (l as u32)) == (1u32 << l));
    assert(l <= 21 ==> (1usize << l) == ((1u32 << l) as usize)) by (bit_vector);
}
proof fn lemma_lbm(n: nat)
  ensures vstd::bits::low_bits_mask(n) == pow2(n) - 1
  decreases n
{
    lemma2_to64();
    vstd::bits::lemma_low_bits_mask_values();
    if n > 0 { lemma_lbm((n - 1) as nat); vstd::bits::lemma_low_bits_mask_unfold(n); lemma_pow2_unfold(n); }
}
proof fn lemma_mask(x: u32, l: u8)
  requires 4 <= l <= 21
  ensures (x & (((1u32 << l) - 1) as u32)) == (x as int) % (pow2(l as nat) as int), (x & (((1u32 << l) - 1) as u32)) < pow2(l as nat),
{
    lemma_k(l);
    vstd::bits::lemma_u32_low_bits_mask_is_mod(x, l as nat);
    lemma_lbm(l as nat);
}

// R12b: a DOCUMENTED panic ("# Panics: if src length doesn't match self length" / "if src_lg_k <= self.lg_config_k") is modelled as
// 'returns only if the condition holds': the condition is a tagged POSTCONDITION (`*_validated`) instead of a precondition, so weakening
// or removing the check is noticed.  Body = the original statement.  (The shims of these two kernels in unit hll_union keep the
// conditions as `requires`, so their callers still have to establish them.)
#[verifier::external_body] fn vx_documented_panic(c: bool) ensures c { assert!(c); }

impl Array8 {
    spec fn k(&self) -> int { pow2(self.lg_config_k as nat) as int }
    spec fn shape(&self) -> bool { 4 <= self.lg_config_k <= 21 && self.bytes@.len() == self.k() }
    spec fn regs(&self) -> Seq<u8> { self.bytes@ }
    spec fn lg(&self) -> u8 { self.lg_config_k }
    spec fn ooo(&self) -> bool { self.estimator.ooo() }
    spec fn wf(&self) -> bool { self.shape() && self.num_zeros == cnt0(self.regs(), self.k()) }

    #[verifier::external_body]
    fn rebuild_cached_values(&mut self)
      requires old(self).shape()
      ensures final(self).bytes@ == old(self).bytes@, final(self).lg_config_k == old(self).lg_config_k,
        final(self).num_zeros == cnt0(final(self).regs(), final(self).k()), final(self).estimator.ooo() == old(self).estimator.ooo()
    { unimplemented!() }

    fn merge_array_same_lgk ( & mut self , src : & [ u8 ] ) requires old ( self ) . shape ( ) ensures final ( self ) . wf ( ) ,
/*@C03.same_lgk.len_validated*/ src @ . len ( ) == old ( self ) . regs ( ) . len ( ) , final ( self ) . lg ( ) == old ( self ) . lg ( ) ,
/*@C03.same_lgk.regs*/ final ( self ) . regs ( ) == pmax ( old ( self ) . regs ( ) , src @ ) ,
/*@C03.flagflow.merged*/ final ( self ) . ooo ( ) , {
vx_documented_panic ( src . len ( ) == self . bytes . len ( ) ) ;
let mut vx_i1 = 0 ;
while vx_i1 < src . len ( ) invariant self . lg_config_k == old ( self ) . lg_config_k , self . bytes @ . len ( ) == old ( self ) . bytes @ . len ( ) ,
/*@C03.same_lgk.len_validated*/ src @ . len ( ) == self . bytes @ . len ( ) , 0 <= vx_i1 <= src . len ( ) , self . estimator == old ( self ) . estimator ,
/*@C03.same_lgk.regs*/ forall | j : int | 0 <= j < self . bytes @ . len ( ) ==> # [ trigger ] self . bytes @ [ j ] == ( if j < vx_i1 {
max8 ( old ( self ) . bytes @ [ j ] , src @ [ j ] ) }
else {
old ( self ) . bytes @ [ j ] }
) , decreases src . len ( ) - vx_i1 {
let i = vx_i1 ;
let val = src [ vx_i1 ] ;
self . bytes [ i ] = self . bytes [ i ] . max ( val ) ;
vx_i1 += 1 ;
}
self . rebuild_cached_values ( ) ;
self . estimator . set_out_of_order ( true ) ;
proof {
assert ( self . regs ( ) =~= pmax ( old ( self ) . regs ( ) , src @ ) ) ;
}
}


    fn merge_array_with_downsample ( & mut self , src : & [ u8 ] , src_lg_k : u8 ) requires old ( self ) . shape ( ) , src_lg_k <= 21 ensures final ( self ) . wf ( ) ,
/*@C03.downsample.args_validated*/ old ( self ) . lg ( ) < src_lg_k && src @ . len ( ) == pow2 ( src_lg_k as nat ) , final ( self ) . lg ( ) == old ( self ) . lg ( ) ,
/*@C03.downsample.regs*/ final ( self ) . regs ( ) == pmax ( old ( self ) . regs ( ) , fold ( src @ , old ( self ) . lg ( ) ) ) ,
/*@C03.flagflow.merged*/ final ( self ) . ooo ( ) , {
proof {
lemma_k ( self . lg_config_k ) ;
}
vx_documented_panic ( src_lg_k > self . lg_config_k ) ;
proof {
lemma_k ( src_lg_k ) ;
}
vx_documented_panic ( src . len ( ) == 1 << src_lg_k ) ;
let dst_mask = ( 1 << self . lg_config_k ) - 1 ;
let mut vx_i1 = 0 ;
while vx_i1 < src . len ( ) invariant self . lg_config_k == old ( self ) . lg_config_k , self . bytes @ . len ( ) == old ( self ) . bytes @ . len ( ) , old ( self ) . shape ( ) , 0 <= vx_i1 <= src . len ( ) , src @ . len ( ) <= 0x20_0000 , self . estimator == old ( self ) . estimator , dst_mask == ( ( 1u32 << self . lg_config_k ) - 1 ) as u32 ,
/*@C03.downsample.regs*/ forall | j : int | 0 <= j < self . bytes @ . len ( ) ==> # [ trigger ] self . bytes @ [ j ] == max8 ( old ( self ) . bytes @ [ j ] , foldmax ( src @ , self . k ( ) , j , vx_i1 as int ) ) , decreases src . len ( ) - vx_i1 {
let src_slot = vx_i1 ;
let val = src [ vx_i1 ] ;
proof {
lemma_mask ( src_slot as u32 , self . lg_config_k ) ;
}
let dst_slot = ( src_slot as u32 & dst_mask ) as usize ;
self . bytes [ dst_slot ] = self . bytes [ dst_slot ] . max ( val ) ;
vx_i1 += 1 ;
}
self . rebuild_cached_values ( ) ;
self . estimator . set_out_of_order ( true ) ;
proof {
assert ( self . regs ( ) =~= pmax ( old ( self ) . regs ( ) , fold ( src @ , old ( self ) . lg ( ) ) ) ) ;
}
}

}
}
fn main(){}
