use vstd::prelude::*;
use std::io;
use std::io::Cursor;
verus! {
global size_of usize == 8;

// =====================================================================================================================
// shims shared with hll_codec8 / hll_codec_coupons
// =====================================================================================================================
#[verifier::external_type_specification]
#[verifier::external_body]
pub struct ExIoError(std::io::Error);

struct Error { k: u8 }
#[verifier::external_body] fn vx_err_deserial() -> Error { unimplemented!() }   // `Error::deserial(format!(..))`
trait VxIo<T> { fn vx_io(self, tag: &'static str) -> Result<T, Error>; }
impl<T> VxIo<T> for Result<T, std::io::Error> {
  #[verifier::external_body]
  fn vx_io(self, tag: &'static str) -> (r: Result<T, Error>)
    ensures self matches Ok(v) ==> r == Ok::<T, Error>(v), self is Err ==> r is Err
  { unimplemented!() }
}
// `(4..=21).contains(&x)` (RangeInclusive::contains, std leaf)
#[verifier::external_body] fn vx_in_4_21(x: u8) -> (r: bool) ensures r == (4 <= x <= 21) { (4..=21).contains(&x) }

#[verifier::external_body]
struct SketchSlice < 'a > {
slice : Cursor < & 'a [ u8 ] > , }


impl SketchSlice<'_> {
    uninterp spec fn rem(&self) -> Seq<u8>;

    #[verifier::external_body]
    fn new(slice: &[u8]) -> (r: SketchSlice<'_>) ensures r.rem() == slice@ {
        unimplemented!()
    }

    // verified on its real body in unit hll_codec8
    #[verifier::external_body]
    fn read_u8(&mut self) -> (r: io::Result<u8>)
      ensures
        old(self).rem().len() >= 1 ==> (r matches Ok(v) && v == old(self).rem()[0] && final(self).rem() == old(self).rem().skip(1)),
        old(self).rem().len() < 1 ==> r is Err,
    {
        unimplemented!()
    }
}

// =====================================================================================================================
// constants, header helpers (taken from /repo every run)
// =====================================================================================================================
const SERIAL_VERSION : u8 = 1 ;

const EMPTY_FLAG_MASK : u8 = 4 ;

const COMPACT_FLAG_MASK : u8 = 8 ;

const OUT_OF_ORDER_FLAG_MASK : u8 = 16 ;

const LIST_PREINTS : u8 = 2 ;

const HASH_SET_PREINTS : u8 = 3 ;

const HLL_PREINTS : u8 = 10 ;

const CUR_MODE_LIST : u8 = 0 ;

const CUR_MODE_SET : u8 = 1 ;

const CUR_MODE_HLL : u8 = 2 ;

const TGT_HLL4 : u8 = 0 ;

const TGT_HLL6 : u8 = 1 ;

const TGT_HLL8 : u8 = 2 ;


struct Family {
id : u8 , name : & 'static str , min_pre_longs : u8 , max_pre_longs : u8 , }


impl Family {
    const HLL : Family = Family {
id : 7 , name : "HLL" , min_pre_longs : 1 , max_pre_longs : 1 , }
;


    fn validate_id ( & self , family_id : u8 ) -> ( r : Result < ( ) , Error > ) ensures r is Ok <==> family_id == self . id {
if family_id != self . id {
Err ( vx_err_invalid_family ( ) ) }
else {
Ok ( ( ) ) }
}

}
#[verifier::external_body] fn vx_err_invalid_family() -> Error { unimplemented!() }

fn ensure_serial_version_is ( expected : u8 , actual : u8 ) -> ( r : Result < ( ) , Error > ) ensures r is Ok <==> expected == actual {
if expected == actual {
Ok ( ( ) ) }
else {
Err ( vx_err_deserial ( ) ) }
}


fn extract_cur_mode ( mode_byte : u8 ) -> ( r : u8 ) ensures r == mode_byte & 0x3 {
mode_byte & 0x3 }


fn extract_tgt_hll_type ( mode_byte : u8 ) -> ( r : u8 ) ensures r == ( mode_byte >> 2 ) & 0x3 {
( mode_byte >> 2 ) & 0x3 }


enum HllType {
Hll4 , Hll6 , Hll8 , }


// =====================================================================================================================
// the per-mode parsers, by contract.  REFINEMENT MAPPING (tools/linkprove.py): for each parser T this unit speaks of
//     T_accepts(payload, header fields)        a sufficient condition for Ok
//     T_parsed(result, payload, header fields) what an Ok result is (fields read, rejections, invariant clauses)
// and leaves both UNINTERPRETED; the units that verify the real bodies (hll_codec4, hll_codec8, hll_codec_coupons) DEFINE the same
// names as the conjunction of the clauses they prove (C13.hll4.* / C13.hll6.* / C13.hll8.* / C13.list.* / C13.set.* and the C14 ones),
// so each stub below is implied by the proved contract.  (Before: `r.ok() == T_parse(..)` with an uninterpreted FUNCTION T_parse, i.e.
// determinism of the whole result including float fields, which no codec unit states.)
// The arrays are opaque model types here; Array4's parser takes the header's lgArr byte as a ghost argument, as in hll_codec4
// (the real function does not receive it; the format spec needs it for the updatable aux table).
// =====================================================================================================================
#[verifier::external_body] struct Array4 { x: u8 }
#[verifier::external_body] struct Array6 { x: u8 }
#[verifier::external_body] struct Array8 { x: u8 }
#[verifier::external_body] struct List { x: u8 }
#[verifier::external_body] struct HashSet { x: u8 }
uninterp spec fn array4_accepts(p: Seq<u8>, cur_min: u8, lg_k: u8, compact: bool, ooo: bool, lg_arr: u8) -> bool;
uninterp spec fn array4_parsed(a: Array4, p: Seq<u8>, cur_min: u8, lg_k: u8, compact: bool, ooo: bool, lg_arr: u8) -> bool;
uninterp spec fn array6_accepts(p: Seq<u8>, lg_k: u8, compact: bool, ooo: bool) -> bool;
uninterp spec fn array6_parsed(a: Array6, p: Seq<u8>, lg_k: u8, compact: bool, ooo: bool) -> bool;
uninterp spec fn array8_accepts(p: Seq<u8>, lg_k: u8, compact: bool, ooo: bool) -> bool;
uninterp spec fn array8_parsed(a: Array8, p: Seq<u8>, lg_k: u8, compact: bool, ooo: bool) -> bool;
uninterp spec fn list_accepts(p: Seq<u8>, lg_arr: usize, count: usize, empty: bool, compact: bool) -> bool;
uninterp spec fn list_parsed(a: List, p: Seq<u8>, lg_arr: usize, count: usize, empty: bool, compact: bool) -> bool;
uninterp spec fn set_accepts(p: Seq<u8>, lg_arr: usize, compact: bool) -> bool;
uninterp spec fn set_parsed(a: HashSet, p: Seq<u8>, lg_arr: usize, compact: bool) -> bool;
impl Array4 {
    #[verifier::external_body]
    fn deserialize(mut cursor: SketchSlice, cur_min: u8, lg_config_k: u8, _compact: bool, ooo: bool, Ghost(lg_arr): Ghost<u8>,) -> (r: Result<Self, Error>)
      requires 4 <= lg_config_k <= 21
      ensures array4_accepts(cursor.rem(), cur_min, lg_config_k, _compact, ooo, lg_arr) ==> r is Ok,
        r matches Ok(a) ==> array4_parsed(a, cursor.rem(), cur_min, lg_config_k, _compact, ooo, lg_arr),
    { unimplemented!() }
}
impl Array6 {
    #[verifier::external_body]
    fn deserialize(mut cursor: SketchSlice, lg_config_k: u8, _compact: bool, ooo: bool,) -> (r: Result<Self, Error>)
      requires 4 <= lg_config_k <= 21
      ensures array6_accepts(cursor.rem(), lg_config_k, _compact, ooo) ==> r is Ok,
        r matches Ok(a) ==> array6_parsed(a, cursor.rem(), lg_config_k, _compact, ooo),
    { unimplemented!() }
}
impl Array8 {
    #[verifier::external_body]
    fn deserialize(mut cursor: SketchSlice, lg_config_k: u8, _compact: bool, ooo: bool,) -> (r: Result<Self, Error>)
      requires 4 <= lg_config_k <= 21
      ensures array8_accepts(cursor.rem(), lg_config_k, _compact, ooo) ==> r is Ok,
        r matches Ok(a) ==> array8_parsed(a, cursor.rem(), lg_config_k, _compact, ooo),
    { unimplemented!() }
}
impl List {
    #[verifier::external_body]
    fn deserialize(mut cursor: SketchSlice, lg_arr: usize, coupon_count: usize, empty: bool, compact: bool,) -> (r: Result<Self, Error>)
      requires lg_arr <= 255, coupon_count <= 255
      ensures list_accepts(cursor.rem(), lg_arr, coupon_count, empty, compact) ==> r is Ok,
        r matches Ok(a) ==> list_parsed(a, cursor.rem(), lg_arr, coupon_count, empty, compact),
    { unimplemented!() }
}
impl HashSet {
    #[verifier::external_body]
    fn deserialize(mut cursor: SketchSlice, lg_arr: usize, compact: bool,) -> (r: Result<Self, Error>)
      requires lg_arr <= 255
      ensures set_accepts(cursor.rem(), lg_arr, compact) ==> r is Ok,
        r matches Ok(a) ==> set_parsed(a, cursor.rem(), lg_arr, compact),
    { unimplemented!() }
}
// `r.map(Mode::ArrayN)` (enum constructor passed as a function: language leaf)
#[verifier::external_body] fn vx_map_array4(r: Result<Array4, Error>) -> (m: Result<Mode, Error>) ensures r matches Ok(a) ==> m == Ok::<Mode, Error>(Mode::Array4(a)), r is Err ==> m is Err { r.map(Mode::Array4) }
#[verifier::external_body] fn vx_map_array6(r: Result<Array6, Error>) -> (m: Result<Mode, Error>) ensures r matches Ok(a) ==> m == Ok::<Mode, Error>(Mode::Array6(a)), r is Err ==> m is Err { r.map(Mode::Array6) }
#[verifier::external_body] fn vx_map_array8(r: Result<Array8, Error>) -> (m: Result<Mode, Error>) ensures r matches Ok(a) ==> m == Ok::<Mode, Error>(Mode::Array8(a)), r is Err ==> m is Err { r.map(Mode::Array8) }

enum Mode {
List {
list : List , hll_type : HllType }
, Set {
set : HashSet , hll_type : HllType }
, Array4 ( Array4 ) , Array6 ( Array6 ) , Array8 ( Array8 ) , }


struct HllSketch {
lg_config_k : u8 , mode : Mode , }


// =====================================================================================================================
// FORMAT SPEC (DESIGN.md Appendix A, "HLL"): the 8-byte preamble and what it selects
// =====================================================================================================================
spec fn hdr_ok(b: Seq<u8>) -> bool {
    &&& b.len() >= 8
    &&& b[1] == 1 && b[2] == 7 && 4 <= b[3] <= 21
    &&& (b[7] >> 2) & 3 <= 2
    &&& (b[7] & 3 == 0 ==> b[0] == 2) && (b[7] & 3 == 1 ==> b[0] == 3) && (b[7] & 3 == 2 ==> b[0] == 10) && b[7] & 3 != 3
}
spec fn hdr_tgt(b: Seq<u8>) -> HllType { if (b[7] >> 2) & 3 == 0 { HllType::Hll4 } else if (b[7] >> 2) & 3 == 1 { HllType::Hll6 } else { HllType::Hll8 } }
spec fn hdr_empty(b: Seq<u8>) -> bool { b[5] & 4 != 0 }
spec fn hdr_compact(b: Seq<u8>) -> bool { b[5] & 8 != 0 }
spec fn hdr_ooo(b: Seq<u8>) -> bool { b[5] & 16 != 0 }
// the mode the header selects: the per-mode parser, applied to the payload after the 8 header bytes with the header fields it is due
// (List: lgArr byte 4, count byte 6, EMPTY and COMPACT flags; Set: lgArr, COMPACT; arrays: lgK byte 3, COMPACT and OUT_OF_ORDER flags,
// Array4 also curMin byte 6), accepts ...
spec fn dispatch_accepts(b: Seq<u8>) -> bool {
    let p = b.skip(8); let m = b[7] & 3; let t = (b[7] >> 2) & 3;
    if m == 0 { list_accepts(p, b[4] as usize, b[6] as usize, hdr_empty(b), hdr_compact(b)) }
    else if m == 1 { set_accepts(p, b[4] as usize, hdr_compact(b)) }
    else if t == 0 { array4_accepts(p, b[6], b[3], hdr_compact(b), hdr_ooo(b), b[4]) }
    else if t == 1 { array6_accepts(p, b[3], hdr_compact(b), hdr_ooo(b)) }
    else { array8_accepts(p, b[3], hdr_compact(b), hdr_ooo(b)) }
}
// ... and `mode` is what it returned, in the variant of the header's current mode, with the header's target type
spec fn dispatch_parsed(b: Seq<u8>, mode: Mode) -> bool {
    let p = b.skip(8); let m = b[7] & 3; let t = (b[7] >> 2) & 3;
    if m == 0 { mode matches Mode::List { list, hll_type } && hll_type == hdr_tgt(b) && list_parsed(list, p, b[4] as usize, b[6] as usize, hdr_empty(b), hdr_compact(b)) }
    else if m == 1 { mode matches Mode::Set { set, hll_type } && hll_type == hdr_tgt(b) && set_parsed(set, p, b[4] as usize, hdr_compact(b)) }
    else if t == 0 { mode matches Mode::Array4(a) && array4_parsed(a, p, b[6], b[3], hdr_compact(b), hdr_ooo(b), b[4]) }
    else if t == 1 { mode matches Mode::Array6(a) && array6_parsed(a, p, b[3], hdr_compact(b), hdr_ooo(b)) }
    else { mode matches Mode::Array8(a) && array8_parsed(a, p, b[3], hdr_compact(b), hdr_ooo(b)) }
}

impl HllSketch {
    fn deserialize ( bytes : & [ u8 ] ) -> ( r : Result < HllSketch , Error > ) ensures
/*@C14.hll.hdr.rejects_short*/ bytes @ . len ( ) < 8 ==> r is Err ,
/*@C14.hll.hdr.validates*/ r is Ok ==> hdr_ok ( bytes @ ) ,
/*@C13.hll.hdr.accepts*/ hdr_ok ( bytes @ ) && dispatch_accepts ( bytes @ ) ==> r is Ok ,
/*@C13.hll.hdr.lg_k*/ r matches Ok ( s ) ==> s . lg_config_k == bytes @ [ 3 ] ,
/*@C13.hll.hdr.dispatch*/ r matches Ok ( s ) ==> dispatch_parsed ( bytes @ , s . mode ) , {
let mut cursor = SketchSlice :: new ( bytes ) ;
let ghost b = bytes @ ;
let preamble_ints = cursor . read_u8 ( ) . vx_io ( "preamble_ints" ) ? ;
let serial_version = cursor . read_u8 ( ) . vx_io ( "serial_version" ) ? ;
let family_id = cursor . read_u8 ( ) . vx_io ( "family_id" ) ? ;
let lg_config_k = cursor . read_u8 ( ) . vx_io ( "lg_config_k" ) ? ;
let lg_arr = cursor . read_u8 ( ) . vx_io ( "lg_arr" ) ? ;
let flags = cursor . read_u8 ( ) . vx_io ( "flags" ) ? ;
let state = cursor . read_u8 ( ) . vx_io ( "state" ) ? ;
let mode_byte = cursor . read_u8 ( ) . vx_io ( "mode" ) ? ;
proof {
assert ( b . skip ( 1 ) . skip ( 1 ) . skip ( 1 ) . skip ( 1 ) . skip ( 1 ) . skip ( 1 ) . skip ( 1 ) . skip ( 1 ) =~= b . skip ( 8 ) ) ;
assert ( b . skip ( 1 ) [ 0 ] == b [ 1 ] && b . skip ( 1 ) . skip ( 1 ) [ 0 ] == b [ 2 ] && b . skip ( 1 ) . skip ( 1 ) . skip ( 1 ) [ 0 ] == b [ 3 ] ) ;
assert ( b . skip ( 1 ) . skip ( 1 ) . skip ( 1 ) . skip ( 1 ) [ 0 ] == b [ 4 ] && b . skip ( 1 ) . skip ( 1 ) . skip ( 1 ) . skip ( 1 ) . skip ( 1 ) [ 0 ] == b [ 5 ] ) ;
assert ( b . skip ( 1 ) . skip ( 1 ) . skip ( 1 ) . skip ( 1 ) . skip ( 1 ) . skip ( 1 ) [ 0 ] == b [ 6 ] && b . skip ( 1 ) . skip ( 1 ) . skip ( 1 ) . skip ( 1 ) . skip ( 1 ) . skip ( 1 ) . skip ( 1 ) [ 0 ] == b [ 7 ] ) ;
assert ( ( mode_byte >> 2 ) & 3 <= 3 && mode_byte & 3 <= 3 ) by ( bit_vector ) ;
}
Family :: HLL . validate_id ( family_id ) ? ;
ensure_serial_version_is ( SERIAL_VERSION , serial_version ) ? ;
if ! vx_in_4_21 ( lg_config_k ) {
return Err ( vx_err_deserial ( ) ) ;
}
let hll_type = match extract_tgt_hll_type ( mode_byte ) {
TGT_HLL4 => HllType :: Hll4 , TGT_HLL6 => HllType :: Hll6 , TGT_HLL8 => HllType :: Hll8 , hll_type => {
return Err ( vx_err_deserial ( ) ) ;
}
}
;
let empty = ( flags & EMPTY_FLAG_MASK ) != 0 ;
let compact = ( flags & COMPACT_FLAG_MASK ) != 0 ;
let ooo = ( flags & OUT_OF_ORDER_FLAG_MASK ) != 0 ;
let mode = match extract_cur_mode ( mode_byte ) {
CUR_MODE_LIST => {
if preamble_ints != LIST_PREINTS {
return Err ( vx_err_deserial ( ) ) ;
}
let lg_arr = lg_arr as usize ;
let coupon_count = state as usize ;
let list = List :: deserialize ( cursor , lg_arr , coupon_count , empty , compact ) ? ;
Mode :: List {
list , hll_type }
}
CUR_MODE_SET => {
if preamble_ints != HASH_SET_PREINTS {
return Err ( vx_err_deserial ( ) ) ;
}
let lg_arr = lg_arr as usize ;
let set = HashSet :: deserialize ( cursor , lg_arr , compact ) ? ;
Mode :: Set {
set , hll_type }
}
CUR_MODE_HLL => {
if preamble_ints != HLL_PREINTS {
return Err ( vx_err_deserial ( ) ) ;
}
match hll_type {
HllType :: Hll4 => {
let cur_min = state ;
vx_map_array4 ( Array4 :: deserialize ( cursor , cur_min , lg_config_k , compact , ooo , Ghost ( lg_arr ) ) ) ? }
HllType :: Hll6 => vx_map_array6 ( Array6 :: deserialize ( cursor , lg_config_k , compact , ooo ) ) ? , HllType :: Hll8 => vx_map_array8 ( Array8 :: deserialize ( cursor , lg_config_k , compact , ooo ) ) ? , }
}
mode => return Err ( vx_err_deserial ( ) ) , }
;
Ok ( HllSketch {
lg_config_k , mode }
) }

}

}
fn main(){}
