#![feature(allocator_api)]
use vstd::prelude::*;
use vstd::arithmetic::power2::*;
verus! {
global size_of usize == 8;

// ================= coupons (hll/mod.rs) =================
const KEY_BITS_26 : u32 = 26 ;



exec const KEY_MASK_26 : u32 ensures KEY_MASK_26 == 0x3ffffff {
proof {
assert ( ( 1u32 << 26u32 ) - 1 == 0x3ffffff ) by ( bit_vector ) ;
}
( 1 << KEY_BITS_26 ) - 1 }




spec fn cslot(c: u32) -> u32 { c & 0x3ffffff }
spec fn cval(c: u32) -> u8 { (c >> 26) as u8 }

fn get_slot ( coupon : u32 ) -> ( r : u32 ) ensures r == cslot ( coupon ) {
proof {
assert ( coupon & 0x3ffffff == coupon % 0x4000000 && coupon & 0x3ffffff == 0x3ffffff & coupon ) by ( bit_vector ) ;
}
coupon & KEY_MASK_26 }




fn get_value ( coupon : u32 ) -> ( r : u8 ) ensures r == cval ( coupon ) , r <= 63 {
proof {
assert ( ( coupon >> 26 ) <= 63 ) by ( bit_vector ) ;
assert ( coupon >> 26 == coupon / 0x4000000 && ( 1u32 << 26 ) == 0x4000000 ) by ( bit_vector ) ;
}
( coupon >> KEY_BITS_26 ) as u8 }




pub assume_specification<T, A: core::alloc::Allocator> [ Vec::<T, A>::into_boxed_slice ] (v: Vec<T, A>) -> (r: Box<[T], A>)
  ensures r@ == v@;

// ================= estimator (float state; opaque) =================
// The HIP estimator holds only floating-point accumulators.  Its contract here: update() appends the transition
// (old_value, new_value) to a ghost log and touches nothing else (it has no access to the register array).
#[verifier::external_body]
struct HipEstimator { _p: u8 }
impl HipEstimator {
    uninterp spec fn log(&self) -> Seq<(u8, u8)>;
    #[verifier::external_body]
    fn new(lg_config_k: u8) -> (r: Self)
      requires lg_config_k < 32   // `1 << lg_config_k` is an i32 shift (unit hll_api proves the body under this precondition)
      ensures r.log() == Seq::<(u8, u8)>::empty()
    { unimplemented!() }
    #[verifier::external_body]
    fn update(&mut self, lg_config_k: u8, old_value: u8, new_value: u8)
      ensures final(self).log() == old(self).log().push((old_value, new_value))
    { unimplemented!() }
    // the out-of-order flag (C03 flag flow); set_out_of_order writes the flag (and clears the float accumulator when setting it)
    uninterp spec fn ooo(&self) -> bool;
    #[verifier::external_body]
    fn set_out_of_order(&mut self, ooo: bool)
      ensures final(self).ooo() == ooo
    { unimplemented!() }
}

// ================= hll/array8.rs (real code + overlay) =================
struct Array8 {
lg_config_k : u8 , bytes : Box < [ u8 ] > , num_zeros : u32 , estimator : HipEstimator , }


proof fn lemma_k(l: u8)
  requires 4 <= l <= 21
  ensures 16 <= pow2(l as nat) <= 0x20_0000, pow2(l as nat) % 4 == 0, (1u32 << l) == pow2(l as nat)
{
    lemma2_to64();
    if l < 21 { lemma_pow2_strictly_increases(l as nat, 21); }
    if l > 4 { lemma_pow2_strictly_increases(4, l as nat); }
    lemma_pow2_adds(2, (l - 2) as nat);
    vstd::bits::lemma_u32_shl_is_mul(1, l as u32);
    assert((1u32 << (l as u32)) == (1u32 << l));
}
proof fn lemma_lbm(n: nat)
  ensures vstd::bits::low_bits_mask(n) == pow2(n) - 1
  decreases n
{
    lemma2_to64();
    vstd::bits::lemma_low_bits_mask_values();
    if n > 0 { lemma_lbm((n - 1) as nat); vstd::bits::lemma_low_bits_mask_unfold(n); lemma_pow2_unfold(n); }
}
proof fn lemma_mask(x: u32, l: u8)
  requires 4 <= l <= 21
  ensures (x & (((1u32 << l) - 1) as u32)) == x % (pow2(l as nat) as u32), (x & (((1u32 << l) - 1) as u32)) < pow2(l as nat),
    ((((1u32 << l) - 1) as u32) & x) == (x & (((1u32 << l) - 1) as u32))
{
    lemma_k(l);
    let m = ((1u32 << l) - 1) as u32;
    assert(m & x == x & m) by (bit_vector);
    vstd::bits::lemma_u32_low_bits_mask_is_mod(x, l as nat);
    lemma_lbm(l as nat);
}

// number of zero registers among the first n
spec fn cnt0(r: Seq<u8>, n: int) -> int decreases n {
    if n <= 0 { 0 } else { cnt0(r, n - 1) + (if r[n - 1] == 0 { 1int } else { 0int }) }
}
proof fn lemma_cnt0_bounds(r: Seq<u8>, n: int, s: int)
  requires 0 <= s < n <= r.len()
  ensures 0 <= cnt0(r, n) <= n, r[s] == 0 ==> cnt0(r, n) >= 1
  decreases n
{
    if n - 1 > s { lemma_cnt0_bounds(r, n - 1, s); }
    else { lemma_cnt0_nonneg(r, n - 1); }
}
proof fn lemma_cnt0_nonneg(r: Seq<u8>, n: int)
  ensures 0 <= cnt0(r, n) <= (if n >= 0 { n } else { 0 })
  decreases n
{
    if n > 0 { lemma_cnt0_nonneg(r, n - 1); }
}
proof fn lemma_cnt0_update(r: Seq<u8>, s: int, v: u8, n: int)
  requires 0 <= s < r.len(), 0 <= n <= r.len(), v != 0
  ensures cnt0(r.update(s, v), n) == cnt0(r, n) - (if s < n && r[s] == 0 { 1int } else { 0int })
  decreases n
{
    if n > 0 { lemma_cnt0_update(r, s, v, n - 1); }
}

proof fn lemma_cnt0_zero(r: Seq<u8>, n: int)
  requires 0 <= n <= r.len(), forall|i: int| 0 <= i < r.len() ==> r[i] == 0
  ensures cnt0(r, n) == n
  decreases n
{
    if n > 0 { lemma_cnt0_zero(r, n - 1); }
}
spec fn max8(a: u8, b: u8) -> u8 { if a >= b { a } else { b } }
// the slot a coupon addresses in a sketch with 2^lg registers
spec fn slot_of(c: u32, lg: u8) -> int { (cslot(c) as int) % (pow2(lg as nat) as int) }


proof fn lemma_new8(a: Array8)
  requires 4 <= a.lg_config_k <= 21, a.num_zeros == a.k(), a.bytes@.len() == a.k(),
    forall|x: int| 0 <= x < a.bytes@.len() ==> a.bytes@[x] == 0u8
  ensures a.wf(), a.regs() == Seq::new(pow2(a.lg_config_k as nat), |i: int| 0u8)
{
    lemma_k(a.lg_config_k);
    assert(a.regs() =~= Seq::new(pow2(a.lg_config_k as nat), |i: int| 0u8));
    lemma_cnt0_zero(a.regs(), a.k());
}

impl Array8 {
    spec fn k(&self) -> int { pow2(self.lg_config_k as nat) as int }
    spec fn shape(&self) -> bool {
        4 <= self.lg_config_k <= 21 && self.bytes@.len() == self.k()
    }
    // the abstract view: 2^lg_k registers, one byte each
    spec fn regs(&self) -> Seq<u8> { self.bytes@ }
    // (name used by units hll_sketch / hll_union for the configured lg_k of an array: refinement mapping for tools/linkprove.py)
    spec fn lg(&self) -> u8 { self.lg_config_k }
    spec fn wf(&self) -> bool {
        &&& self.shape()
        &&& self.num_zeros == cnt0(self.regs(), self.k())
    }

    fn new ( lg_config_k : u8 ) -> ( r : Self ) requires 4 <= lg_config_k <= 21 ensures
/*@C02.init_wf*/ r . wf ( ) , r . lg_config_k == lg_config_k ,
/*@C02.init*/ r . regs ( ) == Seq :: new ( pow2 ( lg_config_k as nat ) , | i : int | 0u8 ) ,
/*@C02.init_log*/ r . estimator . log ( ) == Seq :: < ( u8 , u8 ) > :: empty ( ) , {
proof {
lemma_k ( lg_config_k ) ;
}
let k = 1 << lg_config_k ;
proof {
assert forall | a : Array8 | a . lg_config_k == lg_config_k && a . num_zeros == k && a . bytes @ . len ( ) == k as usize && ( forall | x : int | 0 <= x < a . bytes @ . len ( ) ==> a . bytes @ [ x ] == 0u8 ) implies # [ trigger ] a . wf ( ) && a . regs ( ) == Seq :: new ( pow2 ( lg_config_k as nat ) , | i : int | 0u8 ) by {
lemma_new8 ( a ) ;
}
}
Self {
lg_config_k , bytes : vec! [ 0u8 ;
k as usize ] . into_boxed_slice ( ) , num_zeros : k , estimator : HipEstimator :: new ( lg_config_k ) , }
}


    fn get ( & self , slot : u32 ) -> ( r : u8 ) requires self . shape ( ) , slot < self . k ( ) ensures
/*@C02.get*/ r == self . regs ( ) [ slot as int ] {
self . bytes [ slot as usize ] }


    fn put ( & mut self , slot : u32 , value : u8 ) requires old ( self ) . shape ( ) , slot < old ( self ) . k ( ) ensures final ( self ) . shape ( ) , final ( self ) . lg_config_k == old ( self ) . lg_config_k , final ( self ) . num_zeros == old ( self ) . num_zeros , final ( self ) . estimator == old ( self ) . estimator ,
/*@C02.put*/ final ( self ) . regs ( ) == old ( self ) . regs ( ) . update ( slot as int , value ) {
self . bytes [ slot as usize ] = value ;
}


    fn update ( & mut self , coupon : u32 ) requires old ( self ) . wf ( ) ensures
/*@C02.num_zeros*/ final ( self ) . wf ( ) , final ( self ) . lg_config_k == old ( self ) . lg_config_k ,
/*@C02.regs*/ final ( self ) . regs ( ) == old ( self ) . regs ( ) . update ( slot_of ( coupon , old ( self ) . lg_config_k ) , max8 ( old ( self ) . regs ( ) [ slot_of ( coupon , old ( self ) . lg_config_k ) ] , cval ( coupon ) ) ) ,
/*@C02.log*/ final ( self ) . estimator . log ( ) == ( if cval ( coupon ) > old ( self ) . regs ( ) [ slot_of ( coupon , old ( self ) . lg_config_k ) ] {
old ( self ) . estimator . log ( ) . push ( ( old ( self ) . regs ( ) [ slot_of ( coupon , old ( self ) . lg_config_k ) ] , cval ( coupon ) ) ) }
else {
old ( self ) . estimator . log ( ) }
) , {
proof {
lemma_k ( self . lg_config_k ) ;
lemma_mask ( cslot ( coupon ) , self . lg_config_k ) ;
}
let mask = ( 1 << self . lg_config_k ) - 1 ;
let slot = get_slot ( coupon ) & mask ;
let new_value = get_value ( coupon ) ;
let old_value = self . get ( slot ) ;
if new_value > old_value {
self . estimator . update ( self . lg_config_k , old_value , new_value ) ;
self . put ( slot , new_value ) ;
proof {
lemma_cnt0_update ( old ( self ) . regs ( ) , slot as int , new_value , self . k ( ) ) ;
lemma_cnt0_bounds ( old ( self ) . regs ( ) , self . k ( ) , slot as int ) ;
}
if old_value == 0 {
self . num_zeros -= 1 ;
}
}
else {
proof {
assert ( old ( self ) . regs ( ) . update ( slot as int , old_value ) =~= old ( self ) . regs ( ) ) ;
}
}
}


    fn values ( & self ) -> ( r : & [ u8 ] ) ensures
/*@C02.values*/ r @ == self . regs ( ) {
& self . bytes }


    fn num_registers ( & self ) -> ( r : usize ) requires 4 <= self . lg_config_k <= 21 ensures r == self . k ( ) {
proof {
lemma_k ( self . lg_config_k ) ;
lemma_shl_usize ( self . lg_config_k ) ;
}
1 << self . lg_config_k }


    // opaque (same contract as in unit hll_array8_merge): recounts num_zeros (iterator count) and recomputes the float kxq sums;
    // registers, lg_k and the out-of-order flag are untouched
    #[verifier::external_body]
    fn rebuild_cached_values(&mut self)
      requires old(self).shape()
      ensures final(self).bytes@ == old(self).bytes@, final(self).lg_config_k == old(self).lg_config_k,
        final(self).num_zeros == cnt0(final(self).regs(), final(self).k()), final(self).estimator.ooo() == old(self).estimator.ooo()
    { unimplemented!() }

    // the clauses unit hll_union assumes for this method (there: regs()/lg()/ooo()/cache_ok() over the abstract Array8; cache_ok is wf() here)
    fn rebuild_estimator_from_registers ( & mut self ) requires old ( self ) . shape ( ) ensures
/*@C03.rebuild.regs*/ final ( self ) . regs ( ) == old ( self ) . regs ( ) , final ( self ) . lg_config_k == old ( self ) . lg_config_k ,
/*@C03.flagflow.merged*/ final ( self ) . estimator . ooo ( ) ,
/*@C03.rebuild.cache*/ final ( self ) . wf ( ) , {
self . rebuild_cached_values ( ) ;
self . estimator . set_out_of_order ( true ) ;
}


    fn set_register ( & mut self , slot : usize , value : u8 ) requires old ( self ) . shape ( ) , slot < old ( self ) . k ( ) ensures final ( self ) . shape ( ) , final ( self ) . lg_config_k == old ( self ) . lg_config_k , final ( self ) . num_zeros == old ( self ) . num_zeros , final ( self ) . estimator == old ( self ) . estimator ,
/*@C02.set_register*/ final ( self ) . regs ( ) == old ( self ) . regs ( ) . update ( slot as int , value ) {
self . bytes [ slot ] = value ;
}

}
proof fn lemma_shl_usize(l: u8)
  requires 4 <= l <= 21
  ensures (1usize << l) == pow2(l as nat)
{
    lemma_k(l);
    assert(l <= 21 ==> (1usize << l) == ((1u32 << l) as usize)) by (bit_vector);
}
}
fn main(){}
