#![feature(allocator_api)]
use vstd::prelude::*;
use vstd::std_specs::iter::IteratorSpec;
use vstd::std_specs::cmp::*;
use vstd::iset::*;
use vstd::imap::*;
use vstd::arithmetic::power2::*;
use vstd::arithmetic::div_mod::*;
use vstd::arithmetic::mul::*;
verus! {
global size_of usize == 8;
pub assume_specification<T, A: std::alloc::Allocator> [std::vec::Vec::<T, A>::into_boxed_slice] (v: std::vec::Vec<T, A>) -> (r: std::boxed::Box<[T], A>)
  ensures r@ == v@;


// ================= probe.vx =================
// odd s, 2^n | d*s  ==>  2^n | d
proof fn lemma_odd_cancel(n: nat, s: int, d: int)
  requires s % 2 == 1, (d * s) % (pow2(n) as int) == 0
  ensures d % (pow2(n) as int) == 0
  decreases n
{
    lemma_pow2_pos(n);
    if n == 0 {
        lemma2_to64();
    } else {
        let p = pow2(n) as int;
        let q = pow2((n - 1) as nat) as int;
        lemma_pow2_pos((n - 1) as nat);
        assert(p == 2 * q) by { lemma_pow2_unfold(n); }
        let m = (d * s) / p;
        assert(d * s == p * m) by { lemma_fundamental_div_mod(d * s, p); }
        assert((d * s) % 2 == 0) by {
            assert(d * s == 2 * (q * m)) by (nonlinear_arith) requires d * s == p * m, p == 2 * q;
        }
        if d % 2 != 0 {
            let a = d / 2; let b = s / 2;
            assert(d * s == 2 * (2 * a * b + a + b) + 1) by (nonlinear_arith) requires d == 2 * a + 1, s == 2 * b + 1;
            assert(false);
        }
        let d2 = d / 2;
        assert((d2 * s) % q == 0) by {
            assert(2 * (d2 * s) == 2 * (q * m)) by (nonlinear_arith) requires d == 2 * d2, d * s == p * m, p == 2 * q;
            lemma_mod_multiples_basic(m, q);
            assert(q * m == m * q) by (nonlinear_arith);
        }
        lemma_odd_cancel((n - 1) as nat, s, d2);
        let t = d2 / q;
        assert(d2 == q * t) by { lemma_fundamental_div_mod(d2, q); }
        assert(d == p * t) by (nonlinear_arith) requires d == 2 * d2, d2 == q * t, p == 2 * q;
        lemma_mod_multiples_basic(t, p);
        assert(p * t == t * p) by (nonlinear_arith);
    }
}

spec fn probe_at(p0: int, s: int, j: int, size: int) -> int { (p0 + j * s) % size }

// the probe sequence is injective on [0, 2^n)
proof fn lemma_probe_injective(n: nat, p0: int, s: int, j1: int, j2: int)
  requires s % 2 == 1, 0 <= j1 < pow2(n), 0 <= j2 < pow2(n),
           probe_at(p0, s, j1, pow2(n) as int) == probe_at(p0, s, j2, pow2(n) as int)
  ensures j1 == j2
{
    let size = pow2(n) as int;
    lemma_pow2_pos(n);
    // (p0 + j1 s) - (p0 + j2 s) = (j1 - j2) s  is a multiple of size
    let a = p0 + j1 * s; let b = p0 + j2 * s;
    lemma_fundamental_div_mod(a, size);
    lemma_fundamental_div_mod(b, size);
    let d = j1 - j2;
    assert(a - b == d * s) by (nonlinear_arith) requires a == p0 + j1 * s, b == p0 + j2 * s, d == j1 - j2;
    let qa = a / size; let qb = b / size;
    assert(a - b == size * (qa - qb)) by (nonlinear_arith) requires a == size * qa + a % size, b == size * qb + b % size, a % size == b % size;
    lemma_mod_multiples_basic(qa - qb, size);
    assert(size * (qa - qb) == (qa - qb) * size) by (nonlinear_arith);
    assert((d * s) % size == 0);
    lemma_odd_cancel(n, s, d);
    // |d| < size and size | d  ==> d == 0
    lemma_fundamental_div_mod(d, size);
    let t = d / size;
    assert(d == size * t);
    assert(-size < d < size);
    if t == 0 { assert(size * t == 0) by (nonlinear_arith) requires t == 0; }
    if t >= 1 { assert(size * t >= size) by (nonlinear_arith) requires t >= 1, size > 0; }
    if t <= -1 { assert(size * t <= -size) by (nonlinear_arith) requires t <= -1, size > 0; }
}

// one step of the exec probe: (probe + stride) & mask  ==  probe_at(.., j+1)
proof fn lemma_probe_step(p0: int, s: int, j: int, size: int, cur: int)
  requires size > 0, cur == probe_at(p0, s, j, size)
  ensures (cur + s) % size == probe_at(p0, s, j + 1, size)
{
    let a = p0 + j * s;
    assert(p0 + (j + 1) * s == a + s) by (nonlinear_arith) requires a == p0 + j * s;
    lemma_add_mod_noop(a, s, size);
    lemma_add_mod_noop(a % size, s, size);
    lemma_mod_twice(a, size);
}

// pigeonhole: j distinct probe positions, all of them "occupied", and fewer than `size` occupied slots
// We keep a ghost set of visited positions.
proof fn lemma_visited_bound(visited: Set<int>, occupied: Set<int>, size: int)
  requires visited.subset_of(occupied)
  ensures visited.len() <= occupied.len()
{
    vstd::set_lib::lemma_len_subset(visited, occupied);
}


// ================= hll/aux_map.rs (real code + overlay) =================
const KEY_BITS_26 : u32 = 26 ;


exec const KEY_MASK_26 : u32 ensures KEY_MASK_26 == 0x3ffffff {
proof {
assert ( ( 1u32 << 26u32 ) - 1 == 0x3ffffff ) by ( bit_vector ) ;
}
( 1 << KEY_BITS_26 ) - 1 }


const RESIZE_NUMERATOR : u32 = 3 ;


const RESIZE_DENOMINATOR : u32 = 4 ;


const ENTRY_EMPTY : u32 = 0 ;



spec fn aslot(e: u32) -> u32 { e & 0x3ffffff }
spec fn aval(e: u32) -> u8 { (e >> 26) as u8 }
spec fn apack(slot: u32, value: u8) -> u32 { ((value as u32) << 26) | (slot & 0x3ffffff) }

fn get_slot ( coupon : u32 ) -> ( r : u32 ) ensures r == aslot ( coupon ) {
proof {
assert ( coupon & 0x3ffffff == coupon % 0x4000000 && coupon & 0x3ffffff == 0x3ffffff & coupon ) by ( bit_vector ) ;
}
coupon & KEY_MASK_26 }


fn get_value ( coupon : u32 ) -> ( r : u8 ) ensures r == aval ( coupon ) {
proof {
assert ( ( coupon >> 26 ) <= 63 ) by ( bit_vector ) ;
assert ( coupon >> 26 == coupon / 0x4000000 && ( 1u32 << 26 ) == 0x4000000 ) by ( bit_vector ) ;
}
( coupon >> KEY_BITS_26 ) as u8 }


fn pack_coupon ( slot : u32 , value : u8 ) -> ( r : u32 ) ensures r == apack ( slot , value ) {
proof {
let v = value as u32 ;
assert ( v <= 255 ==> ( v << 26 ) == ( ( v & 0x3f ) << 26 ) ) by ( bit_vector ) ;
let g_v = value as u32 ;
let g_s = slot ;
assert ( ( g_v << 26 ) | ( g_s & 0x3ffffff ) == ( g_s & 0x3ffffff ) | ( g_v << 26 ) && g_s & 0x3ffffff == 0x3ffffff & g_s && g_s & 0x3ffffff == g_s % 0x4000000 ) by ( bit_vector ) ;
}
( ( value as u32 ) << KEY_BITS_26 ) | ( slot & KEY_MASK_26 ) }


proof fn lemma_pack_unpack(slot: u32, value: u8)
  requires slot <= 0x3ffffff, value <= 63
  ensures aslot(apack(slot, value)) == slot, aval(apack(slot, value)) == value, value >= 1 ==> apack(slot, value) != 0
{
    let v = value as u32;
    assert(slot <= 0x3ffffff && v <= 63 ==> (((v << 26) | (slot & 0x3ffffff)) & 0x3ffffff) == slot) by (bit_vector);
    assert(slot <= 0x3ffffff && v <= 63 ==> (((v << 26) | (slot & 0x3ffffff)) >> 26) == v) by (bit_vector);
    assert(v >= 1 && v <= 63 ==> ((v << 26) | (slot & 0x3ffffff)) != 0) by (bit_vector);
}

struct AuxMap {
lg_size : u8 , lg_config_k : u8 , entries : Box < [ u32 ] > , count : u32 , }


enum FindResult {
Found ( usize ) , Empty ( usize ) , }



spec fn ahome(slot: u32, len: int) -> int { (slot as int) % len }
spec fn astride(slot: u32, n: u8) -> int { ((slot >> (n as u32)) | 1) as int }
spec fn aocc(es: Seq<u32>) -> Set<int> { Set::range(0, es.len() as int).filter(|i: int| es[i] != 0) }
spec fn azero_free(es: Seq<u32>, slot: u32, n: u8, j: int) -> bool {
    forall|t: int| 0 <= t < j ==> es[#[trigger] probe_at(ahome(slot, es.len() as int), astride(slot, n), t, es.len() as int)] != 0
}
spec fn apath_clear(es: Seq<u32>, slot: u32, n: u8, j: int) -> bool {
    forall|t: int| 0 <= t < j ==> es[#[trigger] probe_at(ahome(slot, es.len() as int), astride(slot, n), t, es.len() as int)] != 0
        && aslot(es[probe_at(ahome(slot, es.len() as int), astride(slot, n), t, es.len() as int)]) != slot
}
spec fn areach_at(es: Seq<u32>, n: u8, i: int) -> bool {
    exists|j: int| 0 <= j < es.len() && i == probe_at(ahome(aslot(es[i]), es.len() as int), astride(aslot(es[i]), n), j, es.len() as int) && #[trigger] azero_free(es, aslot(es[i]), n, j)
}
spec fn atbl_ok(es: Seq<u32>, n: u8, lgk: u8) -> bool {
    &&& n <= 25 && 4 <= lgk <= 21 && es.len() == pow2(n as nat)
    &&& forall|i: int| 0 <= i < es.len() && es[i] != 0 ==> aslot(#[trigger] es[i]) < pow2(lgk as nat)
    &&& forall|i: int, j: int| 0 <= i < es.len() && 0 <= j < es.len() && i != j && es[i] != 0 && es[j] != 0 ==> aslot(es[i]) != aslot(es[j])
    &&& forall|i: int| 0 <= i < es.len() && es[i] != 0 ==> #[trigger] areach_at(es, n, i)
}
spec fn ahas(es: Seq<u32>, slot: u32) -> bool { exists|i: int| 0 <= i < es.len() && es[i] != 0 && aslot(es[i]) == slot }
spec fn aget(es: Seq<u32>, slot: u32) -> u8 { let i = choose|i: int| 0 <= i < es.len() && es[i] != 0 && aslot(es[i]) == slot; aval(es[i]) }

proof fn lemma_shl32(l: u8)
  requires l < 32
  ensures (1u32 << l) == pow2(l as nat), pow2(l as nat) >= 1, l <= 26 ==> pow2(l as nat) <= 0x400_0000
{
    lemma2_to64();
    lemma_pow2_pos(l as nat);
    lemma_pow2_strictly_increases(l as nat, 32);
    if l < 26 { lemma_pow2_strictly_increases(l as nat, 26); }
    vstd::bits::lemma_u32_shl_is_mul(1, l as u32);
    assert((1u32 << (l as u32)) == (1u32 << l));
}
proof fn lemma_mask32_is_mod(x: u32, n: u8)
  requires n < 32
  ensures (x & (((1u32 << n) - 1) as u32)) == x % (pow2(n as nat) as u32), (1u32 << n) >= 1
{
    lemma_shl32(n);
    vstd::bits::lemma_u32_low_bits_mask_is_mod(x, n as nat);
    lemma_lbm(n as nat);
}
proof fn lemma_lbm(n: nat)
  ensures vstd::bits::low_bits_mask(n) == pow2(n) - 1
  decreases n
{
    lemma2_to64();
    vstd::bits::lemma_low_bits_mask_values();
    if n > 0 { lemma_lbm((n - 1) as nat); vstd::bits::lemma_low_bits_mask_unfold(n); lemma_pow2_unfold(n); }
}

spec fn amap(es: Seq<u32>) -> IMap<u32, u8> { IMap::new(|slot: u32| ahas(es, slot), |slot: u32| aget(es, slot)) }

// initial table size: a static lookup table in the real code (the table itself is verified: R21 turns the local `static` into a `let`)
spec fn lg_aux_tbl() -> Seq<u8> { seq![0u8, 2, 2, 2, 2, 2, 2, 3, 3, 3, 4, 4, 5, 5, 6, 7, 8, 9, 10, 11, 12, 13, 14, 15, 16, 17, 18] }
fn lg_aux_arr_ints(lg_config_k: u8) -> (r: u8)
  requires lg_config_k <= 26
  ensures /*@C02.aux.lg_size_table*/ r == lg_aux_tbl()[lg_config_k as int],
    /*@C02.aux.lg_size_range*/ 4 <= lg_config_k <= 21 ==> 2 <= r <= lg_config_k
{
    let LG_AUX_ARR_INTS: &[u8] = &[
        0, 2, 2, 2, 2, 2, 2, 3, 3, 3, // 0-9
        4, 4, 5, 5, 6, 7, 8, 9, 10, 11, // 10-19
        12, 13, 14, 15, 16, 17, 18, // 20-26
    ];
    proof { assert(/*@C02.aux.lg_size_table*/ LG_AUX_ARR_INTS@ =~= lg_aux_tbl()); }

    LG_AUX_ARR_INTS[lg_config_k as usize]
}

// what a client (Array4) may rely on: the table invariant plus the range of the stored pairs
spec fn arange(v: IMap<u32, u8>, lgk: u8) -> bool {
    forall|s: u32| v.dom().contains(s) ==> s < pow2(lgk as nat) && 1 <= #[trigger] v[s] <= 63
}
proof fn lemma_awf(a: AuxMap)
  requires a.wf2()
  ensures a.awf()
{
    let es = a.entries@;
    assert forall|s: u32| a.view().dom().contains(s) implies s < pow2(a.lg_config_k as nat) && 1 <= #[trigger] a.view()[s] <= 63 by {
        let i = choose|i: int| 0 <= i < es.len() && es[i] != 0 && aslot(es[i]) == s;
        lemma_aget(es, a.lg_size, a.lg_config_k, s, i);
    }
}
proof fn lemma_new_aux(a: AuxMap)
  requires 4 <= a.lg_config_k <= 21, 2 <= a.lg_size <= a.lg_config_k, a.count == 0, a.entries@.len() == pow2(a.lg_size as nat),
    forall|i: int| 0 <= i < a.entries@.len() ==> a.entries@[i] == 0u32
  ensures a.wf2(), a.awf(), a.view().dom() =~= ISet::empty()
{
    lemma_aempty_ok(a.entries@, a.lg_size, a.lg_config_k);
    lemma_pow2_pos(a.lg_size as nat);
    assert forall|s: u32| !ahas(a.entries@, s) by { }
}

struct AuxMapIter {
entries : std :: vec :: IntoIter < u32 > , config_k_mask : u32 , }

spec fn amask_is(m: u32, l: u8) -> bool { 4 <= l <= 21 && m == pow2(l as nat) - 1 }
spec fn amask_ok(m: u32) -> bool { exists|l: u8| amask_is(m, l) }
spec fn azeros(es: Seq<u32>, k: int) -> bool { forall|t: int| 0 <= t < k ==> es[t] == 0 }

proof fn lemma_aget2(es: Seq<u32>, slot: u32, idx: int)
  requires adistinct(es), 0 <= idx < es.len(), es[idx] != 0, aslot(es[idx]) == slot
  ensures ahas(es, slot), aget(es, slot) == aval(es[idx])
{
    let i = choose|i: int| 0 <= i < es.len() && es[i] != 0 && aslot(es[i]) == slot;
    assert(i == idx);
}
// the iterator has skipped k empty cells and now yields r0[k]: the remaining map loses exactly that slot
proof fn lemma_iter_some(r0: Seq<u32>, k: int)
  requires adistinct(r0), 0 <= k < r0.len(), azeros(r0, k), r0[k] != 0
  ensures amap(r0).dom().contains(aslot(r0[k])), amap(r0)[aslot(r0[k])] == aval(r0[k]),
    amap(r0.skip(k + 1)) == amap(r0).remove(aslot(r0[k])), adistinct(r0.skip(k + 1))
{
    let r1 = r0.skip(k + 1); let s0 = aslot(r0[k]);
    lemma_aget2(r0, s0, k);
    assert(adistinct(r1)) by {
        assert forall|i: int, j: int| 0 <= i < r1.len() && 0 <= j < r1.len() && i != j && r1[i] != 0 && r1[j] != 0 implies aslot(r1[i]) != aslot(r1[j]) by {
            assert(r1[i] == r0[i + k + 1] && r1[j] == r0[j + k + 1]);
        }
    }
    assert forall|s: u32| ahas(r1, s) <==> (ahas(r0, s) && s != s0) by {
        if ahas(r1, s) {
            let i = choose|i: int| 0 <= i < r1.len() && r1[i] != 0 && aslot(r1[i]) == s;
            assert(r1[i] == r0[i + k + 1]);
            assert(r0[i + k + 1] != 0 && aslot(r0[i + k + 1]) == s);
        }
        if ahas(r0, s) && s != s0 {
            let i = choose|i: int| 0 <= i < r0.len() && r0[i] != 0 && aslot(r0[i]) == s;
            assert(i > k);
            assert(r1[i - k - 1] == r0[i]);
        }
    }
    assert forall|s: u32| ahas(r1, s) implies aget(r1, s) == aget(r0, s) by {
        let i = choose|i: int| 0 <= i < r1.len() && r1[i] != 0 && aslot(r1[i]) == s;
        assert(r1[i] == r0[i + k + 1]);
        lemma_aget2(r1, s, i);
        lemma_aget2(r0, s, i + k + 1);
    }
    assert(amap(r1) =~= amap(r0).remove(s0));
}
proof fn lemma_iter_none(r0: Seq<u32>)
  requires azeros(r0, r0.len() as int)
  ensures amap(r0).dom() =~= ISet::empty()
{
    assert forall|s: u32| !ahas(r0, s) by { }
}
proof fn lemma_mask_id(x: u32, m: u32)
  requires amask_ok(m), x <= m
  ensures x & m == x
{
    let l = choose|l: u8| amask_is(m, l);
    lemma_shl32(l);
    lemma_mask32_is_mod(x, l);
    lemma_small_mod(x as nat, pow2(l as nat));
}

impl AuxMapIter {
    #[verifier::prophetic]
    spec fn rest(&self) -> Seq<u32> { self.entries.remaining() }
    // the pairs still to be yielded
    #[verifier::prophetic]
    spec fn todo(&self) -> IMap<u32, u8> { amap(self.rest()) }
    spec fn left(&self) -> nat { self.entries.decrease()->0 }
    #[verifier::prophetic]
    spec fn iwf(&self) -> bool {
        &&& adistinct(self.rest())
        &&& self.entries.decrease() is Some
        &&& amask_ok(self.config_k_mask)
        &&& forall|i: int| 0 <= i < self.rest().len() && self.rest()[i] != 0 ==> aslot(#[trigger] self.rest()[i]) <= self.config_k_mask
    }

    fn next ( & mut self ) -> ( r : Option < ( u32 , u8 ) > ) requires old ( self ) . iwf ( ) ensures final ( self ) . iwf ( ) , final ( self ) . config_k_mask == old ( self ) . config_k_mask ,
/*@C02.aux_iter_next*/ match r {
Some ( ( s , v ) ) => old ( self ) . todo ( ) . dom ( ) . contains ( s ) && old ( self ) . todo ( ) [ s ] == v && final ( self ) . todo ( ) == old ( self ) . todo ( ) . remove ( s ) && final ( self ) . left ( ) < old ( self ) . left ( ) , None => old ( self ) . todo ( ) . dom ( ) =~= ISet :: empty ( ) , }
{
let ghost r0 = self . rest ( ) ;
proof {
assert ( r0 . skip ( 0 ) =~= r0 ) ;
}
loop invariant old ( self ) . iwf ( ) , r0 == old ( self ) . rest ( ) , self . config_k_mask == old ( self ) . config_k_mask , self . rest ( ) . len ( ) <= r0 . len ( ) , self . rest ( ) == r0 . skip ( r0 . len ( ) - self . rest ( ) . len ( ) ) , azeros ( r0 , r0 . len ( ) - self . rest ( ) . len ( ) ) , self . entries . decrease ( ) is Some , self . left ( ) <= old ( self ) . left ( ) , decreases self . entries . decrease ( ) -> 0 {
let ghost before = self . rest ( ) ;
let ghost k = r0 . len ( ) - before . len ( ) ;
proof {
assert forall | it2 : std :: vec :: IntoIter < u32 > | before . len ( ) > 0 && before == seq! [ before [ 0 ] ] + # [ trigger ] it2 . remaining ( ) implies it2 . remaining ( ) == r0 . skip ( k + 1 ) && it2 . remaining ( ) . len ( ) == before . len ( ) - 1 && before [ 0 ] == r0 [ k ] by {
assert ( it2 . remaining ( ) =~= before . skip ( 1 ) ) ;
assert ( before . skip ( 1 ) =~= r0 . skip ( k + 1 ) ) ;
}
assert forall | n : int | n == r0 . len ( ) && # [ trigger ] azeros ( r0 , n ) implies amap ( r0 ) . dom ( ) =~= ISet :: empty ( ) by {
lemma_iter_none ( r0 ) ;
}
}
match self . entries . next ( ) {
Some ( entry ) if entry != ENTRY_EMPTY => {
proof {
assert ( before == seq! [ entry ] + self . rest ( ) ) ;
assert ( before [ 0 ] == entry ) ;
assert ( r0 [ k ] == entry ) ;
assert ( self . rest ( ) == r0 . skip ( k + 1 ) ) ;
lemma_iter_some ( r0 , k ) ;
lemma_mask_id ( aslot ( entry ) , self . config_k_mask ) ;
let cm_x = aslot ( entry ) ;
let cm_m = self . config_k_mask ;
assert ( cm_x & cm_m == cm_m & cm_x ) by ( bit_vector ) ;
assert forall | i : int | 0 <= i < self . rest ( ) . len ( ) && self . rest ( ) [ i ] != 0 implies aslot ( # [ trigger ] self . rest ( ) [ i ] ) <= self . config_k_mask by {
assert ( self . rest ( ) [ i ] == r0 [ i + k + 1 ] ) ;
}
}
let slot = get_slot ( entry ) & self . config_k_mask ;
let value = get_value ( entry ) ;
return Some ( ( slot , value ) ) ;
}
Some ( _ ) => continue , None => return None , }
}
}

}

impl AuxMap {
    fn new ( lg_config_k : u8 ) -> ( r : Self ) requires 4 <= lg_config_k <= 21 ensures
/*@C02.aux_wf*/ r . wf2 ( ) , r . awf ( ) , r . lg_config_k == lg_config_k ,
/*@C02.aux_new*/ r . view ( ) . dom ( ) =~= ISet :: empty ( ) {
let lg_size = lg_aux_arr_ints ( lg_config_k ) ;
proof {
lemma_shl_usize32 ( lg_size ) ;
assert forall | a : AuxMap | a . lg_config_k == lg_config_k && a . lg_size == lg_size && a . count == 0 && a . entries @ . len ( ) == ( 1usize << lg_size ) && ( forall | x : int | 0 <= x < a . entries @ . len ( ) ==> a . entries @ [ x ] == 0u32 ) implies # [ trigger ] a . wf2 ( ) && a . awf ( ) && a . view ( ) . dom ( ) =~= ISet :: empty ( ) by {
lemma_new_aux ( a ) ;
}
}
Self {
lg_size , lg_config_k , entries : vec! [ ENTRY_EMPTY ;
1 << lg_size ] . into_boxed_slice ( ) , count : 0 , }
}


    fn into_iter ( self ) -> ( r : AuxMapIter ) requires self . wf ( ) ensures r . iwf ( ) ,
/*@C02.aux_into_iter*/ r . todo ( ) == self . view ( ) , r . rest ( ) == self . entries @ {
proof {
lemma_shl32 ( self . lg_config_k ) ;
assert ( amask_is ( ( pow2 ( self . lg_config_k as nat ) - 1 ) as u32 , self . lg_config_k ) ) ;
}
AuxMapIter {
entries : self . entries . into_vec ( ) . into_iter ( ) , config_k_mask : ( 1 << self . lg_config_k ) - 1 , }
}


    spec fn wf(&self) -> bool {
        &&& atbl_ok(self.entries@, self.lg_size, self.lg_config_k)
        &&& self.count == aocc(self.entries@).len()
        &&& self.count < self.entries@.len()
    }

    #[verifier::loop_isolation(false)]
    #[verifier::allow_complex_invariants]
    fn find ( & self , slot : u32 ) -> ( r : FindResult ) requires self . wf ( ) , slot < pow2 ( self . lg_config_k as nat ) ensures /*@C02.aux_find*/ match r {
FindResult :: Found ( idx ) => idx < self . entries @ . len ( ) && self . entries @ [ idx as int ] != 0 && aslot ( self . entries @ [ idx as int ] ) == slot , FindResult :: Empty ( idx ) => idx < self . entries @ . len ( ) && self . entries @ [ idx as int ] == 0 && ! ahas ( self . entries @ , slot ) && exists | j : int | 0 <= j < self . entries @ . len ( ) && idx == probe_at ( ahome ( slot , self . entries @ . len ( ) as int ) , astride ( slot , self . lg_size ) , j , self . entries @ . len ( ) as int ) && # [ trigger ] apath_clear ( self . entries @ , slot , self . lg_size , j ) , }
{
proof {
lemma_shl32 ( self . lg_size ) ;
lemma_shl32 ( self . lg_config_k ) ;
lemma_mask32_is_mod ( slot , self . lg_size ) ;
}
let mask = ( 1 << self . lg_size ) - 1 ;
let config_k_mask = ( 1 << self . lg_config_k ) - 1 ;
let mut probe = slot & mask ;
let start = probe ;
let ghost es = self . entries @ ;
let ghost n = self . lg_size ;
let ghost size = pow2 ( n as nat ) as int ;
let ghost s = astride ( slot , n ) ;
let ghost p0 = probe as int ;
let ghost mut j : int = 0 ;
let ghost mut visited : Set < int > = Set :: empty ( ) ;
proof {
let x = slot >> ( n as u32 ) ;
assert ( ( x | 1 ) % 2 == 1 ) by ( bit_vector ) ;
assert ( 0 < ( x | 1 ) ) by ( bit_vector ) ;
let l = n as u32 ;
let sl = slot ;
assert ( sl < 0x20_0000 ==> ( ( sl >> l ) | 1 ) < 0x20_0001 ) by ( bit_vector ) ;
lemma2_to64 ( ) ;
lemma_pow2_strictly_increases ( self . lg_config_k as nat , 22 ) ;
assert ( p0 == ahome ( slot , size ) ) ;
assert ( p0 == probe_at ( p0 , s , 0 , size ) ) by {
assert ( p0 + 0 * s == p0 ) by ( nonlinear_arith ) ;
lemma_small_mod ( p0 as nat , size as nat ) ;
}
}
loop invariant self . wf ( ) , es == self . entries @ , n == self . lg_size , size == pow2 ( n as nat ) , size == es . len ( ) , size <= 0x400_0000 , slot < pow2 ( self . lg_config_k as nat ) , slot < 0x20_0000 , mask == size - 1 , mask == ( ( 1u32 << n ) - 1 ) as u32 , config_k_mask == pow2 ( self . lg_config_k as nat ) - 1 , config_k_mask == ( ( 1u32 << self . lg_config_k ) - 1 ) as u32 , s == astride ( slot , n ) , s % 2 == 1 , 0 < s < 0x20_0001 , p0 == start , 0 <= p0 < size , p0 == ahome ( slot , size ) , 0 <= j < size , probe == probe_at ( p0 , s , j , size ) , 0 <= probe < size , forall | p : int | visited . contains ( p ) <==> exists | i : int | 0 <= i < j && p == probe_at ( p0 , s , i , size ) , visited . len ( ) == j , visited . subset_of ( aocc ( es ) ) , apath_clear ( es , slot , n , j ) , decreases size - j {
let entry = self . entries [ probe as usize ] ;
if entry == ENTRY_EMPTY {
proof {
if ahas ( es , slot ) {
let i0 = choose | i : int | 0 <= i < es . len ( ) && es [ i ] != 0 && aslot ( es [ i ] ) == slot ;
assert ( areach_at ( es , n , i0 ) ) ;
let j0 = choose | j0 : int | 0 <= j0 < es . len ( ) && i0 == probe_at ( ahome ( aslot ( es [ i0 ] ) , size ) , astride ( aslot ( es [ i0 ] ) , n ) , j0 , size ) && azero_free ( es , aslot ( es [ i0 ] ) , n , j0 ) ;
if j0 < j {
assert ( aslot ( es [ probe_at ( p0 , s , j0 , size ) ] ) != slot ) ;
}
else if j0 > j {
assert ( es [ probe_at ( p0 , s , j , size ) ] != 0 ) ;
}
else {
}
assert ( false ) ;
}
}
return FindResult :: Empty ( probe as usize ) ;
}
let entry_slot = get_slot ( entry ) & config_k_mask ;
proof {
lemma_mask32_is_mod ( aslot ( entry ) , self . lg_config_k ) ;
assert ( aslot ( entry ) < pow2 ( self . lg_config_k as nat ) ) ;
lemma_small_mod ( aslot ( entry ) as nat , pow2 ( self . lg_config_k as nat ) ) ;
}
if entry_slot == slot {
return FindResult :: Found ( probe as usize ) ;
}
let stride = ( slot >> self . lg_size ) | 1 ;
proof {
assert ( stride as int == s ) ;
let cur = probe as int ;
lemma_probe_step ( p0 , s , j , size , cur ) ;
lemma_mask32_is_mod ( ( probe + stride ) as u32 , n ) ;
assert ( aocc ( es ) . contains ( cur ) ) ;
assert ( ! visited . contains ( cur ) ) by {
if visited . contains ( cur ) {
let i = choose | i : int | 0 <= i < j && cur == probe_at ( p0 , s , i , size ) ;
lemma_probe_injective ( n as nat , p0 , s , i , j ) ;
}
}
let v2 = visited . insert ( cur ) ;
lemma_visited_bound ( v2 , aocc ( es ) , size ) ;
assert ( j + 1 <= self . count ) ;
assert forall | p : int | v2 . contains ( p ) <==> exists | i : int | 0 <= i < j + 1 && p == probe_at ( p0 , s , i , size ) by {
if v2 . contains ( p ) {
if p == cur {
assert ( p == probe_at ( p0 , s , j , size ) ) ;
}
else {
let i = choose | i : int | 0 <= i < j && p == probe_at ( p0 , s , i , size ) ;
assert ( 0 <= i < j + 1 ) ;
}
}
if exists | i : int | 0 <= i < j + 1 && p == probe_at ( p0 , s , i , size ) {
let i = choose | i : int | 0 <= i < j + 1 && p == probe_at ( p0 , s , i , size ) ;
if i < j {
assert ( visited . contains ( p ) ) ;
}
}
}
visited = v2 ;
assert ( apath_clear ( es , slot , n , j + 1 ) ) ;
}
probe = ( probe + stride ) & mask ;
proof {
assert ( probe as int == probe_at ( p0 , s , j + 1 , size ) ) ;
j = j + 1 ;
if probe == start {
assert ( probe_at ( p0 , s , 0 , size ) == p0 ) by {
assert ( p0 + 0 * s == p0 ) by ( nonlinear_arith ) ;
lemma_small_mod ( p0 as nat , size as nat ) ;
}
lemma_probe_injective ( n as nat , p0 , s , 0 , j ) ;
}
}
if probe == start {
unreachable! ( ) ;
}
}
}



    spec fn lgk(&self) -> u8 { self.lg_config_k }
    spec fn awf(&self) -> bool { self.wf2() && arange(self.view(), self.lg_config_k) }
    // the abstract view: slot -> exception value
    spec fn view(&self) -> IMap<u32, u8> { amap(self.entries@) }
    // like wf but the table may be momentarily full (between the store and check_grow)
    spec fn wf_full(&self) -> bool {
        &&& atbl_ok(self.entries@, self.lg_size, self.lg_config_k)
        &&& self.count == aocc(self.entries@).len()
        &&& self.count <= self.entries@.len()
    }
    spec fn wf2(&self) -> bool {
        &&& self.wf()
        &&& 2 <= self.lg_size
        &&& 4 * self.count <= 3 * self.entries@.len()
        &&& self.lg_size <= self.lg_config_k + 1
        &&& forall|i: int| 0 <= i < self.entries@.len() && self.entries@[i] != 0 ==> 1 <= aval(#[trigger] self.entries@[i]) <= 63
    }

    /// Insert a new slot-value pair
    fn insert ( & mut self , slot : u32 , value : u8 ) requires old ( self ) . wf2 ( ) , slot < pow2 ( old ( self ) . lg_config_k as nat ) , ! old ( self ) . view ( ) . dom ( ) . contains ( slot ) , 1 <= value <= 63 ensures
/*@C02.aux_wf*/ final ( self ) . wf2 ( ) , final ( self ) . awf ( ) ,
/*@C02.aux_insert*/ final ( self ) . view ( ) == old ( self ) . view ( ) . insert ( slot , value ) , final ( self ) . lg_config_k == old ( self ) . lg_config_k , final ( self ) . lg_size <= old ( self ) . lg_size + 1 {
let index = self . find ( slot ) ;
match index {
FindResult :: Found ( _ ) => {
unreachable! ( ) ;
}
FindResult :: Empty ( idx ) => {
let ghost es0 = self . entries @ ;
let ghost len = es0 . len ( ) as int ;
let ghost jw = choose | j : int | 0 <= j < len && idx == probe_at ( ahome ( slot , len ) , astride ( slot , self . lg_size ) , j , len ) && apath_clear ( es0 , slot , self . lg_size , j ) ;
proof {
lemma2_to64 ( ) ;
lemma_pow2_strictly_increases ( self . lg_config_k as nat , 22 ) ;
lemma_pack_unpack ( slot , value ) ;
assert ( azero_free ( es0 , slot , self . lg_size , jw ) ) ;
lemma_ainsert_ok ( es0 , self . lg_size , self . lg_config_k , slot , value , idx as int , jw ) ;
lemma_pow2_strictly_increases ( 1 , self . lg_size as nat ) ;
}
self . entries [ idx ] = pack_coupon ( slot , value ) ;
self . count += 1 ;
proof {
let es1 = self . entries @ ;
assert ( es1 =~= es0 . update ( idx as int , apack ( slot , value ) ) ) ;
assert ( aocc ( es1 ) =~= aocc ( es0 ) . insert ( idx as int ) ) ;
assert ( ! aocc ( es0 ) . contains ( idx as int ) ) ;
lemma_view_insert ( es0 , es1 , self . lg_size , self . lg_config_k , slot , value , idx as int ) ;
assert ( self . view ( ) =~= old ( self ) . view ( ) . insert ( slot , value ) ) ;
}
self . check_grow ( ) ;
proof { lemma_awf ( * self ) ; }
}
}
}



    /// Check if we need to grow the hash table (75% load factor)
    fn check_grow ( & mut self ) requires old ( self ) . wf_full ( ) , 2 <= old ( self ) . lg_size <= old ( self ) . lg_config_k + 1 , old ( self ) . count >= 1 , 4 * ( old ( self ) . count - 1 ) <= 3 * old ( self ) . entries @ . len ( ) , forall | i : int | 0 <= i < old ( self ) . entries @ . len ( ) && old ( self ) . entries @ [ i ] != 0 ==> 1 <= aval ( # [ trigger ] old ( self ) . entries @ [ i ] ) <= 63 ensures
/*@C02.aux_wf*/ final ( self ) . wf2 ( ) ,
/*@C02.aux_grow_view*/ final ( self ) . view ( ) == old ( self ) . view ( ) , final ( self ) . lg_config_k == old ( self ) . lg_config_k , final ( self ) . lg_size <= old ( self ) . lg_size + 1 {
proof {
lemma_shl32 ( self . lg_size ) ;
lemma_grow_bound ( self . entries @ , self . lg_size , self . lg_config_k ) ;
}
let size = 1 << self . lg_size ;
if ( RESIZE_DENOMINATOR * self . count ) > ( RESIZE_NUMERATOR * size ) {
self . grow ( ) ;
proof {
lemma_pow2_unfold ( ( old ( self ) . lg_size + 1 ) as nat ) ;
}
}
else {
proof {
lemma_pow2_strictly_increases ( 1 , self . lg_size as nat ) ;
lemma2_to64 ( ) ;
}
}
}



    /// Double the hash table size and rehash all entries
    fn grow ( & mut self ) requires old ( self ) . wf_full ( ) , 2 <= old ( self ) . lg_size <= 24 , forall | i : int | 0 <= i < old ( self ) . entries @ . len ( ) && old ( self ) . entries @ [ i ] != 0 ==> 1 <= aval ( # [ trigger ] old ( self ) . entries @ [ i ] ) <= 63 ensures final ( self ) . wf ( ) ,
/*@C02.aux_grow_view*/ final ( self ) . view ( ) == old ( self ) . view ( ) , final ( self ) . lg_config_k == old ( self ) . lg_config_k , final ( self ) . lg_size == old ( self ) . lg_size + 1 , final ( self ) . count == old ( self ) . count , forall | i : int | 0 <= i < final ( self ) . entries @ . len ( ) && final ( self ) . entries @ [ i ] != 0 ==> 1 <= aval ( # [ trigger ] final ( self ) . entries @ [ i ] ) <= 63 {
let new_lg_size = self . lg_size + 1 ;
proof {
lemma_shl32 ( new_lg_size ) ;
lemma_shl_usize32 ( new_lg_size ) ;
lemma_pow2_unfold ( new_lg_size as nat ) ;
lemma_shl32 ( self . lg_size ) ;
}
let new_size = 1 << new_lg_size ;
let new_mask = ( 1 << new_lg_size ) - 1 ;
let mut new_entries = vec! [ ENTRY_EMPTY ;
new_size ] . into_boxed_slice ( ) ;
let ghost es = self . entries @ ;
let ghost lgk = self . lg_config_k ;
let ghost nsz = new_size as int ;
proof {
lemma_aempty_ok ( new_entries @ , new_lg_size , lgk ) ;
assert ( aocc ( es . take ( 0 ) ) =~= Set :: < int > :: empty ( ) ) ;
lemma2_to64 ( ) ;
lemma_pow2_strictly_increases ( lgk as nat , 22 ) ;
}
let mut vx_i1 = 0 ;
while vx_i1 < self . entries . len ( ) invariant vx_i1 <= es . len ( ) , self . entries @ == es , old ( self ) . wf_full ( ) , es == old ( self ) . entries @ , lgk == old ( self ) . lg_config_k , self . lg_config_k == lgk , self . lg_size == old ( self ) . lg_size , self . count == old ( self ) . count , new_lg_size == self . lg_size + 1 , new_lg_size <= 25 , nsz == pow2 ( new_lg_size as nat ) , nsz == new_entries @ . len ( ) , nsz == 2 * es . len ( ) , nsz <= 0x400_0000 , new_mask == nsz - 1 , new_mask == ( ( 1u32 << new_lg_size ) - 1 ) as u32 , pow2 ( lgk as nat ) <= 0x20_0000 , atbl_ok ( new_entries @ , new_lg_size , lgk ) , forall | i : int | 0 <= i < es . len ( ) && es [ i ] != 0 ==> 1 <= aval ( # [ trigger ] es [ i ] ) <= 63 , aocc ( new_entries @ ) . len ( ) == aocc ( es . take ( vx_i1 as int ) ) . len ( ) , forall | t : int | 0 <= t < vx_i1 && es [ t ] != 0 ==> # [ trigger ] aheld ( new_entries @ , es [ t ] ) , forall | p : int | 0 <= p < nsz && new_entries @ [ p ] != 0 ==> # [ trigger ] aheld_upto ( es , vx_i1 as int , new_entries @ [ p ] ) , decreases es . len ( ) - vx_i1 {
let entry = self . entries [ vx_i1 ] ;
proof {
lemma_aocc_take_step ( es , vx_i1 as int ) ;
lemma_aocc_take_le ( es , vx_i1 as int ) ;
}
if entry != ENTRY_EMPTY {
let slot = get_slot ( entry ) ;
proof {
lemma_mask32_is_mod ( slot , new_lg_size ) ;
}
let mut probe = slot & new_mask ;
let start_position = probe ;
let ghost ne0 = new_entries @ ;
let ghost s = astride ( slot , new_lg_size ) ;
let ghost p0 = probe as int ;
let ghost mut j : int = 0 ;
let ghost mut visited : Set < int > = Set :: empty ( ) ;
proof {
let x = slot >> ( new_lg_size as u32 ) ;
assert ( ( x | 1 ) % 2 == 1 ) by ( bit_vector ) ;
assert ( 0 < ( x | 1 ) ) by ( bit_vector ) ;
let l = new_lg_size as u32 ;
let sl = slot ;
assert ( sl < 0x20_0000 ==> ( ( sl >> l ) | 1 ) < 0x20_0001 ) by ( bit_vector ) ;
assert ( p0 == probe_at ( p0 , s , 0 , nsz ) ) by {
assert ( p0 + 0 * s == p0 ) by ( nonlinear_arith ) ;
lemma_small_mod ( p0 as nat , nsz as nat ) ;
}
lemma_grow_fresh ( es , ne0 , old ( self ) . lg_size , lgk , vx_i1 as int ) ;
}
#[verifier::loop_isolation(false)]
#[verifier::allow_complex_invariants]
loop invariant_except_break new_entries @ == ne0 , invariant nsz == pow2 ( new_lg_size as nat ) , nsz == ne0 . len ( ) , nsz <= 0x400_0000 , new_lg_size <= 25 , nsz == new_entries @ . len ( ) , new_mask == nsz - 1 , new_mask == ( ( 1u32 << new_lg_size ) - 1 ) as u32 , slot < 0x20_0000 , slot == aslot ( entry ) , s == astride ( slot , new_lg_size ) , s % 2 == 1 , 0 < s < 0x20_0001 , p0 == start_position , 0 <= p0 < nsz , p0 == ahome ( slot , nsz ) , 0 <= j < nsz , probe == probe_at ( p0 , s , j , nsz ) , 0 <= probe < nsz , forall | p : int | visited . contains ( p ) <==> exists | i : int | 0 <= i < j && p == probe_at ( p0 , s , i , nsz ) , visited . len ( ) == j , visited . subset_of ( aocc ( ne0 ) ) , aocc ( ne0 ) . len ( ) < nsz , azero_free ( ne0 , slot , new_lg_size , j ) , ensures exists | idx : int , jj : int | 0 <= idx < nsz && 0 <= jj < nsz && ne0 [ idx ] == 0 && idx == probe_at ( ahome ( slot , nsz ) , astride ( slot , new_lg_size ) , jj , nsz ) && # [ trigger ] azero_free ( ne0 , slot , new_lg_size , jj ) && new_entries @ == # [ trigger ] ne0 . update ( idx , entry ) , decreases nsz - j {
if new_entries [ probe as usize ] == ENTRY_EMPTY {
new_entries [ probe as usize ] = entry ;
proof {
assert ( new_entries @ =~= ne0 . update ( probe as int , entry ) ) ;
}
break ;
}
let stride = ( slot >> new_lg_size ) | 1 ;
proof {
assert ( stride as int == s ) ;
let cur = probe as int ;
lemma_probe_step ( p0 , s , j , nsz , cur ) ;
lemma_mask32_is_mod ( ( probe + stride ) as u32 , new_lg_size ) ;
assert ( aocc ( ne0 ) . contains ( cur ) ) ;
assert ( ! visited . contains ( cur ) ) by {
if visited . contains ( cur ) {
let i = choose | i : int | 0 <= i < j && cur == probe_at ( p0 , s , i , nsz ) ;
lemma_probe_injective ( new_lg_size as nat , p0 , s , i , j ) ;
}
}
let v2 = visited . insert ( cur ) ;
lemma_visited_bound ( v2 , aocc ( ne0 ) , nsz ) ;
assert forall | p : int | v2 . contains ( p ) <==> exists | i : int | 0 <= i < j + 1 && p == probe_at ( p0 , s , i , nsz ) by {
if v2 . contains ( p ) {
if p == cur {
assert ( p == probe_at ( p0 , s , j , nsz ) ) ;
}
else {
let i = choose | i : int | 0 <= i < j && p == probe_at ( p0 , s , i , nsz ) ;
assert ( 0 <= i < j + 1 ) ;
}
}
if exists | i : int | 0 <= i < j + 1 && p == probe_at ( p0 , s , i , nsz ) {
let i = choose | i : int | 0 <= i < j + 1 && p == probe_at ( p0 , s , i , nsz ) ;
if i < j {
assert ( visited . contains ( p ) ) ;
}
}
}
visited = v2 ;
assert ( azero_free ( ne0 , slot , new_lg_size , j + 1 ) ) ;
}
probe = ( probe + stride ) & new_mask ;
proof {
assert ( probe as int == probe_at ( p0 , s , j + 1 , nsz ) ) ;
j = j + 1 ;
if probe == start_position {
assert ( probe_at ( p0 , s , 0 , nsz ) == p0 ) by {
assert ( p0 + 0 * s == p0 ) by ( nonlinear_arith ) ;
lemma_small_mod ( p0 as nat , nsz as nat ) ;
}
lemma_probe_injective ( new_lg_size as nat , p0 , s , 0 , j ) ;
}
}
if probe == start_position {
unreachable! ( ) ;
}
}
proof {
lemma_grow_step ( es , ne0 , new_entries @ , old ( self ) . lg_size , new_lg_size , lgk , vx_i1 as int ) ;
}
}
else {
proof {
assert forall | p : int | 0 <= p < nsz && new_entries @ [ p ] != 0 implies # [ trigger ] aheld_upto ( es , ( vx_i1 + 1 ) as int , new_entries @ [ p ] ) by {
assert ( aheld_upto ( es , vx_i1 as int , new_entries @ [ p ] ) ) ;
let t = choose | t : int | 0 <= t < vx_i1 as int && es [ t ] == new_entries @ [ p ] ;
assert ( 0 <= t < vx_i1 + 1 && es [ t ] == new_entries @ [ p ] ) ;
}
}
}
vx_i1 += 1 ;
}
self . entries = new_entries ;
self . lg_size = new_lg_size ;
proof {
assert ( es . take ( es . len ( ) as int ) =~= es ) ;
lemma_view_same ( es , self . entries @ , old ( self ) . lg_size , new_lg_size , lgk ) ;
assert ( self . view ( ) =~= old ( self ) . view ( ) ) ;
assert forall | i : int | 0 <= i < self . entries @ . len ( ) && self . entries @ [ i ] != 0 implies 1 <= aval ( # [ trigger ] self . entries @ [ i ] ) <= 63 by {
assert ( aheld_upto ( es , es . len ( ) as int , self . entries @ [ i ] ) ) ;
let t = choose | t : int | 0 <= t < es . len ( ) && es [ t ] == self . entries @ [ i ] ;
}
}
}



    /// Get value for a slot
    fn get ( & self , slot : u32 ) -> ( r : Option < u8 > ) requires self . wf ( ) , slot < pow2 ( self . lg_config_k as nat ) ensures /*@C02.aux_get*/ r == ( if self . view ( ) . dom ( ) . contains ( slot ) {
Some ( self . view ( ) [ slot ] ) }
else {
None :: < u8 > }
) {
proof {
let es = self . entries @ ;
assert forall | i : int | 0 <= i < es . len ( ) && # [ trigger ] es [ i ] != 0 && aslot ( es [ i ] ) == slot implies ahas ( es , slot ) && aget ( es , slot ) == aval ( es [ i ] ) by {
lemma_aget ( es , self . lg_size , self . lg_config_k , slot , i ) ;
}
}
match self . find ( slot ) {
FindResult :: Found ( idx ) => Some ( get_value ( self . entries [ idx ] ) ) , FindResult :: Empty ( _ ) => None , }
}



    /// Replace value for existing slot
    fn replace ( & mut self , slot : u32 , value : u8 ) requires old ( self ) . wf2 ( ) , slot < pow2 ( old ( self ) . lg_config_k as nat ) , old ( self ) . view ( ) . dom ( ) . contains ( slot ) , 1 <= value <= 63 ensures /*@C02.aux_wf*/ final ( self ) . wf2 ( ) , final ( self ) . awf ( ) , /*@C02.aux_replace*/ final ( self ) . view ( ) == old ( self ) . view ( ) . insert ( slot , value ) , final ( self ) . lg_config_k == old ( self ) . lg_config_k {
match self . find ( slot ) {
FindResult :: Found ( idx ) => {
let ghost es0 = self . entries @ ;
proof {
lemma2_to64 ( ) ;
lemma_pow2_strictly_increases ( self . lg_config_k as nat , 22 ) ;
lemma_pack_unpack ( slot , value ) ;
}
self . entries [ idx ] = pack_coupon ( slot , value ) ;
proof {
let es1 = self . entries @ ;
assert ( es1 =~= es0 . update ( idx as int , apack ( slot , value ) ) ) ;
lemma_areplace_ok ( es0 , self . lg_size , self . lg_config_k , slot , value , idx as int ) ;
assert ( aocc ( es1 ) =~= aocc ( es0 ) ) ;
lemma_view_replace ( es0 , es1 , self . lg_size , self . lg_config_k , slot , value , idx as int ) ;
assert ( self . view ( ) =~= old ( self ) . view ( ) . insert ( slot , value ) ) ;
lemma_awf ( * self ) ;
}
}
FindResult :: Empty ( _ ) => {
unreachable! ( ) ;
}
}
}


}

spec fn adistinct(es: Seq<u32>) -> bool {
    forall|i: int, j: int| 0 <= i < es.len() && 0 <= j < es.len() && i != j && es[i] != 0 && es[j] != 0 ==> aslot(es[i]) != aslot(es[j])
}
// pigeonhole: distinct slots below `bound` => at most `bound` occupied cells
proof fn lemma_occ_le(es: Seq<u32>, bound: int)
  requires adistinct(es), bound >= 0, forall|i: int| 0 <= i < es.len() && es[i] != 0 ==> aslot(#[trigger] es[i]) < bound
  ensures aocc(es).len() <= bound
  decreases bound
{
    if bound == 0 {
        assert(aocc(es) =~= Set::<int>::empty());
    } else if exists|i: int| 0 <= i < es.len() && es[i] != 0 && aslot(es[i]) == bound - 1 {
        let i0 = choose|i: int| 0 <= i < es.len() && es[i] != 0 && aslot(es[i]) == bound - 1;
        let e2 = es.update(i0, 0u32);
        assert(aocc(e2) =~= aocc(es).remove(i0));
        assert(aocc(es).contains(i0));
        assert forall|i: int| 0 <= i < e2.len() && e2[i] != 0 implies aslot(#[trigger] e2[i]) < bound - 1 by {
            assert(i != i0); assert(es[i] != 0); assert(aslot(es[i]) != aslot(es[i0]));
        }
        assert(adistinct(e2)) by {
            assert forall|i: int, j: int| 0 <= i < e2.len() && 0 <= j < e2.len() && i != j && e2[i] != 0 && e2[j] != 0 implies aslot(e2[i]) != aslot(e2[j]) by {
                assert(e2[i] == es[i] && e2[j] == es[j]);
            }
        }
        lemma_occ_le(e2, bound - 1);
    } else {
        lemma_occ_le(es, bound - 1);
    }
}
// when the 3/4 load test fires, doubling keeps lg_size <= lg_k + 1
proof fn lemma_grow_bound(es: Seq<u32>, n: u8, lgk: u8)
  requires atbl_ok(es, n, lgk)
  ensures aocc(es).len() <= pow2(lgk as nat), 4 * aocc(es).len() > 3 * pow2(n as nat) ==> n <= lgk
{
    assert(adistinct(es));
    lemma_occ_le(es, pow2(lgk as nat) as int);
    if 4 * aocc(es).len() > 3 * pow2(n as nat) && n > lgk {
        lemma_pow2_unfold((lgk + 1) as nat);
        if n > lgk + 1 { lemma_pow2_strictly_increases((lgk + 1) as nat, n as nat); }
        assert(false);
    }
}
proof fn lemma_aget(es: Seq<u32>, n: u8, lgk: u8, slot: u32, idx: int)
  requires atbl_ok(es, n, lgk), 0 <= idx < es.len(), es[idx] != 0, aslot(es[idx]) == slot
  ensures ahas(es, slot), aget(es, slot) == aval(es[idx])
{
    let i = choose|i: int| 0 <= i < es.len() && es[i] != 0 && aslot(es[i]) == slot;
    assert(i == idx);
}
proof fn lemma_areplace_ok(es: Seq<u32>, n: u8, lgk: u8, slot: u32, value: u8, idx: int)
  requires atbl_ok(es, n, lgk), 0 <= idx < es.len(), es[idx] != 0, aslot(es[idx]) == slot, slot <= 0x3ffffff, 1 <= value <= 63
  ensures atbl_ok(es.update(idx, apack(slot, value)), n, lgk)
{
    lemma_pack_unpack(slot, value);
    let ns = es.update(idx, apack(slot, value));
    let len = es.len() as int;
    assert forall|i: int| 0 <= i < ns.len() && ns[i] != 0 implies #[trigger] areach_at(ns, n, i) by {
        assert(es[i] != 0);
        assert(aslot(ns[i]) == aslot(es[i]));
        assert(areach_at(es, n, i));
        let ji = choose|ji: int| 0 <= ji < es.len() && i == probe_at(ahome(aslot(es[i]), len), astride(aslot(es[i]), n), ji, len) && azero_free(es, aslot(es[i]), n, ji);
        assert(azero_free(ns, aslot(ns[i]), n, ji)) by {
            assert forall|t: int| 0 <= t < ji implies ns[#[trigger] probe_at(ahome(aslot(ns[i]), len), astride(aslot(ns[i]), n), t, len)] != 0 by {
                let p = probe_at(ahome(aslot(es[i]), len), astride(aslot(es[i]), n), t, len);
                assert(es[p] != 0);
                lemma_mod_bound(ahome(aslot(es[i]), len) + t * astride(aslot(es[i]), n), len);
            }
        }
    }
}
proof fn lemma_view_replace(es0: Seq<u32>, es1: Seq<u32>, n: u8, lgk: u8, slot: u32, value: u8, idx: int)
  requires atbl_ok(es0, n, lgk), atbl_ok(es1, n, lgk), 0 <= idx < es0.len(), es0[idx] != 0, aslot(es0[idx]) == slot,
    es1 == es0.update(idx, apack(slot, value)), slot <= 0x3ffffff, 1 <= value <= 63
  ensures
    forall|sl: u32| ahas(es1, sl) <==> ahas(es0, sl),
    forall|sl: u32| ahas(es1, sl) ==> aget(es1, sl) == (if sl == slot { value } else { aget(es0, sl) }),
{
    lemma_pack_unpack(slot, value);
    assert forall|sl: u32| ahas(es1, sl) <==> ahas(es0, sl) by {
        if ahas(es1, sl) { let i = choose|i: int| 0 <= i < es1.len() && es1[i] != 0 && aslot(es1[i]) == sl; assert(es0[i] != 0 && aslot(es0[i]) == sl); }
        if ahas(es0, sl) { let i = choose|i: int| 0 <= i < es0.len() && es0[i] != 0 && aslot(es0[i]) == sl; assert(es1[i] != 0 && aslot(es1[i]) == sl); }
    }
    assert forall|sl: u32| ahas(es1, sl) implies aget(es1, sl) == (if sl == slot { value } else { aget(es0, sl) }) by {
        let i = choose|i: int| 0 <= i < es1.len() && es1[i] != 0 && aslot(es1[i]) == sl;
        assert(es0[i] != 0 && aslot(es0[i]) == sl);
        lemma_aget(es1, n, lgk, sl, i);
        lemma_aget(es0, n, lgk, sl, i);
    }
}

proof fn lemma_ainsert_ok(es: Seq<u32>, n: u8, lgk: u8, slot: u32, value: u8, idx: int, j: int)
  requires atbl_ok(es, n, lgk), !ahas(es, slot), slot < pow2(lgk as nat), slot <= 0x3ffffff, 1 <= value <= 63,
    0 <= idx < es.len(), es[idx] == 0,
    0 <= j < es.len(), idx == probe_at(ahome(slot, es.len() as int), astride(slot, n), j, es.len() as int),
    azero_free(es, slot, n, j),
  ensures atbl_ok(es.update(idx, apack(slot, value)), n, lgk)
{
    lemma_pack_unpack(slot, value);
    let ne = apack(slot, value);
    let ns = es.update(idx, ne);
    let len = es.len() as int;
    assert forall|a: int, b: int| 0 <= a < ns.len() && 0 <= b < ns.len() && a != b && ns[a] != 0 && ns[b] != 0 implies aslot(ns[a]) != aslot(ns[b]) by {
        if a == idx { if aslot(es[b]) == slot { assert(ahas(es, slot)); } }
        else if b == idx { if aslot(es[a]) == slot { assert(ahas(es, slot)); } }
    }
    assert forall|i: int| 0 <= i < ns.len() && ns[i] != 0 implies #[trigger] areach_at(ns, n, i) by {
        if i == idx {
            assert(azero_free(ns, slot, n, j)) by {
                assert forall|t: int| 0 <= t < j implies ns[#[trigger] probe_at(ahome(slot, len), astride(slot, n), t, len)] != 0 by {
                    let p = probe_at(ahome(slot, len), astride(slot, n), t, len);
                    assert(es[p] != 0);
                }
            }
        } else {
            assert(areach_at(es, n, i));
            let ji = choose|ji: int| 0 <= ji < es.len() && i == probe_at(ahome(aslot(es[i]), len), astride(aslot(es[i]), n), ji, len) && azero_free(es, aslot(es[i]), n, ji);
            assert(azero_free(ns, aslot(ns[i]), n, ji)) by {
                assert forall|t: int| 0 <= t < ji implies ns[#[trigger] probe_at(ahome(aslot(ns[i]), len), astride(aslot(ns[i]), n), t, len)] != 0 by {
                    let p = probe_at(ahome(aslot(es[i]), len), astride(aslot(es[i]), n), t, len);
                    assert(es[p] != 0);
                    lemma_mod_bound(ahome(aslot(es[i]), len) + t * astride(aslot(es[i]), n), len);
                }
            }
        }
    }
}
proof fn lemma_view_insert(es0: Seq<u32>, es1: Seq<u32>, n: u8, lgk: u8, slot: u32, value: u8, idx: int)
  requires atbl_ok(es0, n, lgk), atbl_ok(es1, n, lgk), 0 <= idx < es0.len(), es0[idx] == 0, !ahas(es0, slot),
    es1 == es0.update(idx, apack(slot, value)), slot <= 0x3ffffff, 1 <= value <= 63
  ensures
    forall|sl: u32| ahas(es1, sl) <==> (ahas(es0, sl) || sl == slot),
    forall|sl: u32| ahas(es1, sl) ==> aget(es1, sl) == (if sl == slot { value } else { aget(es0, sl) }),
{
    lemma_pack_unpack(slot, value);
    assert(es1[idx] != 0 && aslot(es1[idx]) == slot);
    assert forall|sl: u32| ahas(es1, sl) <==> (ahas(es0, sl) || sl == slot) by {
        if ahas(es1, sl) && sl != slot { let i = choose|i: int| 0 <= i < es1.len() && es1[i] != 0 && aslot(es1[i]) == sl; assert(i != idx); assert(es0[i] != 0 && aslot(es0[i]) == sl); }
        if ahas(es0, sl) { let i = choose|i: int| 0 <= i < es0.len() && es0[i] != 0 && aslot(es0[i]) == sl; assert(i != idx); assert(es1[i] != 0 && aslot(es1[i]) == sl); }
    }
    assert forall|sl: u32| ahas(es1, sl) implies aget(es1, sl) == (if sl == slot { value } else { aget(es0, sl) }) by {
        let i = choose|i: int| 0 <= i < es1.len() && es1[i] != 0 && aslot(es1[i]) == sl;
        lemma_aget(es1, n, lgk, sl, i);
        if sl == slot { assert(i == idx); } else { assert(i != idx); assert(es0[i] != 0 && aslot(es0[i]) == sl); lemma_aget(es0, n, lgk, sl, i); }
    }
}

proof fn lemma_shl_usize32(l: u8)
  requires l <= 26
  ensures (1usize << l) == pow2(l as nat)
{
    lemma2_to64();
    lemma_pow2_strictly_increases(l as nat, 27);
    vstd::bits::lemma_usize_shl_is_mul(1, l as usize);
    assert((1usize << (l as usize)) == (1usize << l));
}
proof fn lemma_aempty_ok(es: Seq<u32>, n: u8, lgk: u8)
  requires n <= 25, 4 <= lgk <= 21, es.len() == pow2(n as nat), forall|i: int| 0 <= i < es.len() ==> es[i] == 0
  ensures atbl_ok(es, n, lgk), aocc(es).len() == 0
{
    assert(aocc(es) =~= Set::<int>::empty());
}
proof fn lemma_aocc_take_step(es: Seq<u32>, i: int)
  requires 0 <= i < es.len()
  ensures aocc(es.take(i + 1)).len() == aocc(es.take(i)).len() + (if es[i] != 0 { 1int } else { 0int })
{
    if es[i] != 0 {
        assert(aocc(es.take(i + 1)) =~= aocc(es.take(i)).insert(i));
        assert(!aocc(es.take(i)).contains(i));
    } else {
        assert(aocc(es.take(i + 1)) =~= aocc(es.take(i)));
    }
}
proof fn lemma_aocc_take_le(es: Seq<u32>, i: int)
  requires 0 <= i <= es.len()
  ensures aocc(es.take(i)).len() <= aocc(es).len(), aocc(es).len() <= es.len()
{
    assert(aocc(es.take(i)).subset_of(aocc(es)));
    vstd::set_lib::lemma_len_subset(aocc(es.take(i)), aocc(es));
    assert(aocc(es).subset_of(Set::range(0, es.len() as int)));
    vstd::set_lib::lemma_int_range(0, es.len() as int);
    vstd::set_lib::lemma_len_subset(aocc(es), Set::range(0, es.len() as int));
}
proof fn lemma_repack(e: u32)
  ensures e == apack(aslot(e), aval(e)), aval(e) <= 63
{
    assert(e == ((((e >> 26) as u8) as u32) << 26) | ((e & 0x3ffffff) & 0x3ffffff)) by (bit_vector);
    assert(((e >> 26) as u8) <= 63) by (bit_vector);
}
proof fn lemma_view_same(es0: Seq<u32>, es1: Seq<u32>, n0: u8, n1: u8, lgk: u8)
  requires atbl_ok(es0, n0, lgk), atbl_ok(es1, n1, lgk),
    forall|t: int| 0 <= t < es0.len() && es0[t] != 0 ==> #[trigger] aheld(es1, es0[t]),
    forall|p: int| 0 <= p < es1.len() && es1[p] != 0 ==> #[trigger] aheld_upto(es0, es0.len() as int, es1[p]),
  ensures
    forall|sl: u32| ahas(es1, sl) <==> ahas(es0, sl),
    forall|sl: u32| ahas(es1, sl) ==> aget(es1, sl) == aget(es0, sl),
{
    assert forall|sl: u32| ahas(es1, sl) <==> ahas(es0, sl) by {
        if ahas(es1, sl) { let p = choose|p: int| 0 <= p < es1.len() && es1[p] != 0 && aslot(es1[p]) == sl; assert(aheld_upto(es0, es0.len() as int, es1[p])); let t = choose|t: int| 0 <= t < es0.len() && es0[t] == es1[p]; assert(es0[t] != 0 && aslot(es0[t]) == sl); }
        if ahas(es0, sl) { let t = choose|t: int| 0 <= t < es0.len() && es0[t] != 0 && aslot(es0[t]) == sl; assert(aheld(es1, es0[t])); let p = choose|p: int| 0 <= p < es1.len() && es1[p] == es0[t]; assert(es1[p] != 0 && aslot(es1[p]) == sl); }
    }
    assert forall|sl: u32| ahas(es1, sl) implies aget(es1, sl) == aget(es0, sl) by {
        let p = choose|p: int| 0 <= p < es1.len() && es1[p] != 0 && aslot(es1[p]) == sl;
        assert(aheld_upto(es0, es0.len() as int, es1[p]));
        let t = choose|t: int| 0 <= t < es0.len() && es0[t] == es1[p];
        lemma_aget(es1, n1, lgk, sl, p);
        lemma_aget(es0, n0, lgk, sl, t);
    }
}

// the entry about to be re-inserted is not yet in the new table
proof fn lemma_grow_fresh(es: Seq<u32>, ne0: Seq<u32>, n0: u8, lgk: u8, i: int)
  requires atbl_ok(es, n0, lgk), 0 <= i < es.len(), es[i] != 0,
    forall|p: int| 0 <= p < ne0.len() && ne0[p] != 0 ==> #[trigger] aheld_upto(es, i, ne0[p]),
  ensures !ahas(ne0, aslot(es[i]))
{
    if ahas(ne0, aslot(es[i])) {
        let p = choose|p: int| 0 <= p < ne0.len() && ne0[p] != 0 && aslot(ne0[p]) == aslot(es[i]);
        assert(aheld_upto(es, i, ne0[p]));
        let t = choose|t: int| 0 <= t < i && es[t] == ne0[p];
        assert(es[t] != 0 && es[i] != 0 && t != i);
        assert(false);
    }
}
// one step of grow: ne1 = ne0 with es[i] stored at the first empty slot of its probe path
spec fn aheld(ss: Seq<u32>, x: u32) -> bool { exists|p: int| 0 <= p < ss.len() && ss[p] == x }
spec fn aheld_upto(es: Seq<u32>, n: int, x: u32) -> bool { exists|t: int| 0 <= t < n && es[t] == x }
proof fn lemma_grow_step(es: Seq<u32>, ne0: Seq<u32>, ne1: Seq<u32>, n0: u8, n1: u8, lgk: u8, i: int)
  requires atbl_ok(es, n0, lgk), atbl_ok(ne0, n1, lgk), 0 <= i < es.len(), es[i] != 0, 1 <= aval(es[i]) <= 63,
    !ahas(ne0, aslot(es[i])),
    aocc(ne0).len() == aocc(es.take(i)).len(),
    forall|t: int| 0 <= t < i && es[t] != 0 ==> #[trigger] aheld(ne0, es[t]),
    forall|p: int| 0 <= p < ne0.len() && ne0[p] != 0 ==> #[trigger] aheld_upto(es, i, ne0[p]),
    exists|idx: int, jj: int| 0 <= idx < ne0.len() && 0 <= jj < ne0.len() && ne0[idx] == 0 && idx == probe_at(ahome(aslot(es[i]), ne0.len() as int), astride(aslot(es[i]), n1), jj, ne0.len() as int)
        && #[trigger] azero_free(ne0, aslot(es[i]), n1, jj) && ne1 == #[trigger] ne0.update(idx, es[i]),
  ensures atbl_ok(ne1, n1, lgk),
    aocc(ne1).len() == aocc(es.take(i + 1)).len(),
    forall|t: int| 0 <= t < i + 1 && es[t] != 0 ==> #[trigger] aheld(ne1, es[t]),
    forall|p: int| 0 <= p < ne1.len() && ne1[p] != 0 ==> #[trigger] aheld_upto(es, i + 1, ne1[p]),
{
    let entry = es[i]; let slot = aslot(entry); let nsz = ne0.len() as int;
    let (idx, jj) = choose|idx: int, jj: int| 0 <= idx < nsz && 0 <= jj < nsz && ne0[idx] == 0 && idx == probe_at(ahome(slot, nsz), astride(slot, n1), jj, nsz)
        && #[trigger] azero_free(ne0, slot, n1, jj) && ne1 == #[trigger] ne0.update(idx, entry);
    lemma_repack(entry);
    assert(slot < pow2(lgk as nat));
    assert(slot <= 0x3ffffff) by { let e = entry; assert((e & 0x3ffffff) <= 0x3ffffff) by (bit_vector); }
    lemma_ainsert_ok(ne0, n1, lgk, slot, aval(entry), idx, jj);
    assert(aocc(ne1) =~= aocc(ne0).insert(idx));
    assert(!aocc(ne0).contains(idx));
    lemma_aocc_take_step(es, i);
    assert forall|t: int| 0 <= t < i + 1 && es[t] != 0 implies #[trigger] aheld(ne1, es[t]) by {
        if t == i { assert(ne1[idx] == es[t]); }
        else { assert(aheld(ne0, es[t])); let p = choose|p: int| 0 <= p < ne0.len() && ne0[p] == es[t]; assert(p != idx); assert(ne1[p] == es[t]); }
    }
    assert forall|p: int| 0 <= p < ne1.len() && ne1[p] != 0 implies #[trigger] aheld_upto(es, i + 1, ne1[p]) by {
        if p == idx { assert(es[i] == ne1[p]); }
        else { assert(aheld_upto(es, i, ne0[p])); let t = choose|t: int| 0 <= t < i && es[t] == ne0[p]; assert(0 <= t < i + 1 && es[t] == ne1[p]); }
    }
}
}
fn main(){}
